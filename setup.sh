#!/bin/sh
# Build the offline overlay venv used by ./check:  python 3.12 + /venv's site-packages (torch, numpy,
# sympy, mpmath, the editable pypose) + z3-solver, cvc5, jsonschema from the local wheelhouse.
set -e
cd "$(dirname "$0")"
V=.venv
if [ -x "$V/bin/python" ] && "$V/bin/python" -c "import z3, jsonschema, torch, numpy, sympy, mpmath" 2>/dev/null; then
  exit 0
fi
rm -rf "$V"
/venv/bin/python -m venv "$V" --without-pip
SP=$("$V/bin/python" -c "import sysconfig; print(sysconfig.get_paths()['purelib'])")
echo "import site; site.addsitedir('/venv/lib/python3.12/site-packages')" > "$SP/_verif_overlay.pth"
PIP_NO_INDEX=1 /venv/bin/python -m pip install --quiet --no-index --find-links /opt/veriftools/wheels \
    --target "$SP" z3-solver cvc5 jsonschema 2>&1 | grep -v "WARNING" || true
"$V/bin/python" -c "import z3, jsonschema, torch, numpy, sympy, mpmath; print('verif venv ok, z3', z3.get_version_string())"
