"""Atoms: values of transcendental / algebraic functions, with their axiom schemas.

Every schema instantiated here (relation, sign fact, derivation rule) is a theorem about
the real function; the list is in DESIGN.md 1.3 and lean/Axioms.lean.
"""
from __future__ import annotations
from fractions import Fraction as Q
import math
import mpmath
from mpmath import mpf
from . import algebra as A
from .algebra import Poly, Frac, SymBool, mkcond, decide, Inf


class EngineGap(BaseException):
    """the symbolic model cannot express this operation (never a property verdict)"""


def C(): return A.CTX

# --------------------------------------------------------------------------
# numeric valuation
# --------------------------------------------------------------------------

def valuation(symvals):
    """symvals: vid -> number for input symbols ; returns full dict incl. atoms"""
    c = C()
    val = {}
    for v in range(len(c.names)):
        if c.kind[v] == 'sym':
            if v not in symvals:
                if c.info[v].get('aux'):
                    val[v] = mpf(0); continue
                raise KeyError(f"no value for symbol {c.names[v]}")
            val[v] = mpf(symvals[v]) if not isinstance(symvals[v], mpf) else symvals[v]
        else:
            try:
                val[v] = c.numeric[v](val)
            except ZeroDivisionError:
                val[v] = mpmath.nan          # undefined at this point (e.g. atan(n/0) under a mask): only fatal if something reads it
    return val

# --------------------------------------------------------------------------
# derivation
# --------------------------------------------------------------------------

def dpoly(p: Poly, vid, cache):
    res = Frac.const(0)
    for v in p.vars():
        dv = dvar(v, vid, cache)
        if dv.is_zero(): continue
        res = res + Frac(p.pdiff(v)) * dv
    return res

def dvar(v, vid, cache):
    c = C()
    if v == vid: return Frac.const(1)
    if c.kind[v] == 'sym': return Frac.const(0)
    k = (v, vid)
    if k not in cache:
        cache[k] = c.deriv[v](vid, cache)
    return cache[k]

def diff(x, vid, cache=None):
    """total derivative of Frac x w.r.t. input symbol vid (atoms by chain rule)"""
    if cache is None: cache = {}
    x = Frac.of(x)
    if isinstance(vid, Frac):
        (m, cc), = vid.num.t.items(); vid = m[0][0]
    r = dpoly(x.num, vid, cache)
    if x.den:
        r = r / Frac(x._den_poly())
        for f, e in x.den.items():
            df = dpoly(f, vid, cache)
            if not df.is_zero():
                r = r - x * df * e / Frac(f)
    return Frac(r.num, r.den, r.guards | x.guards)

# --------------------------------------------------------------------------
# helpers
# --------------------------------------------------------------------------

def _lookup(kind, arg):
    for k, a, val in C().atom_tab:
        if k == kind and a.same(arg):
            return val
    return None

def _register(kind, arg, val):
    C().atom_tab.append((kind, arg, val))

def _strip(x: Frac):
    return Frac(x.num, x.den)

def _sqrt_rational(c):
    c = Q(c)
    if c < 0: return None
    n, d = c.numerator, c.denominator
    rn, rd = math.isqrt(n), math.isqrt(d)
    if rn * rn == n and rd * rd == d: return Q(rn, rd)
    return None

def poly_sqrt(p: Poly):
    """g with g*g == p modulo the relations, or None"""
    g = _poly_sqrt(p)
    if g is not None: return g
    # the normal form eliminates sin^2; try the equivalent form with cos^2 eliminated instead
    c = C()
    for v, (k, tail) in list(c.rules.items()):
        if k != 2 or c.kind[v] != 'sin': continue
        # tail = 1 - cos^2
        cv = [u for u in tail.vars()]
        if len(cv) != 1: continue
        cv = cv[0]
        if p.degree_in(cv) < 2: continue
        # substitute cos^2 -> 1 - sin^2 (raw, no reduction)
        out = Poly({})
        for m, cf in p.t.items():
            e = dict(m).get(cv, 0)
            rest = tuple((u, ee) for u, ee in m if u != cv)
            term = Poly({rest + (((cv, e % 2),) if e % 2 else ()): cf})
            term = Poly({tuple(sorted(mm)): cc for mm, cc in term.t.items()})
            base = Poly.const(1) - Poly.var(v, 2)
            for _ in range(e // 2): term = term.rawmul(base)
            out = out + term
        g = _poly_sqrt(out)
        if g is not None and A.reduce_poly(g.rawmul(g)) == A.reduce_poly(p):
            return g
    return None


def _poly_sqrt(p: Poly):
    """g with g*g == p, or None (uses sympy.factor_list; result re-checked)"""
    if p.is_zero(): return p
    if p.is_const():
        r = _sqrt_rational(p.cval())
        return None if r is None else Poly.const(r)
    # quick necessary condition: every variable's max degree even
    for v in p.vars():
        if p.degree_in(v) % 2: return None
    import sympy
    vs = sorted(p.vars())
    syms = [sympy.Symbol(f'v{v}') for v in vs]
    idx = {v: i for i, v in enumerate(vs)}
    expr = 0
    for m, c in p.t.items():
        t = sympy.Rational(Q(c).numerator, Q(c).denominator)
        for v, e in m: t = t * syms[idx[v]] ** e
        expr += t
    try:
        coeff, facs = sympy.factor_list(expr, *syms)
    except Exception:
        return None
    r = _sqrt_rational(Q(int(coeff.p), int(coeff.q))) if coeff.is_Rational else None
    if r is None: return None
    g = Poly.const(r)
    for f, e in facs:
        if e % 2: return None
        fp = sympy.Poly(f, *syms)
        q = Poly({tuple((vs[i], ee) for i, ee in enumerate(mon) if ee): A._cnorm(Q(int(cf.p), int(cf.q)))
                  for mon, cf in fp.terms()})
        q = Poly({tuple(sorted(m)): cc for m, cc in q.t.items()})
        for _ in range(e // 2): g = g.rawmul(q)
    if g.rawmul(g) == p or A.reduce_poly(g.rawmul(g)) == p:
        return g
    return None

# --------------------------------------------------------------------------
# sqrt / norm / abs / sign / cbrt
# --------------------------------------------------------------------------

def sqrt(x, check_domain=True):
    x = Frac.of(x)
    c = C()
    if x.is_const():
        r = _sqrt_rational(x.cval())
        if r is not None: return Frac(Poly.const(r), None, x.guards)
        if x.cval() < 0: raise EngineGap("sqrt of negative constant")
    if x.num.is_zero(): return Frac(Poly({}), None, x.guards)
    g0 = x.guards
    x = _strip(x)
    hit = _lookup('sqrt', x)
    if hit is not None:
        return Frac(hit.num, hit.den, hit.guards | g0)
    # denominator: sqrt(N/prod f^e) = sqrt(N*prod f^(e%2)) / prod |f|^ceil(e/2)
    if x.den:
        odd = Poly.const(1); half = Frac.const(1)
        for f, e in x.den.items():
            if e % 2: odd = odd * f
            half = half * (absval(Frac(f)) ** ((e + 1) // 2))
        r = sqrt(Frac(x.num * odd), check_domain) / half
        _register('sqrt', x, r)
        return Frac(r.num, r.den, r.guards | g0)
    p = x.num
    # perfect square?
    g = poly_sqrt(p)
    if g is not None:
        r = absval(Frac(g))
        return Frac(r.num, r.den, r.guards | g0)
    # multiple of a known radicand by a perfect square?
    for k, a, val in list(c.atom_tab):
        if k == 'sqrt' and not a.den and not a.num.is_const() and val.num.nterms() == 1:
            q = A.poly_divexact(p, a.num)
            if q is not None:
                gq = poly_sqrt(q)
                if gq is not None:
                    r = absval(Frac(gq)) * val
                    _register('sqrt', x, r)
                    return Frac(r.num, r.den, r.guards | g0)
    # content: sqrt(c * g^2e * rest)
    cc, gm, rest = p.content()
    sq = _sqrt_rational(cc) if cc > 0 else None
    if sq is not None and all(e % 2 == 0 for _, e in gm) and (gm or sq != 1) and not rest.is_const():
        r = sqrt(Frac(rest), check_domain) * sq
        for v, e in gm:
            r = r * (absval(Frac.var(v)) ** (e // 2))
        _register('sqrt', x, r)
        return Frac(r.num, r.den, r.guards | g0)
    vid = c.newvar(f'sqrt{len(c.names)}', 'sqrt', arg=x)
    c.add_rule(vid, 2, p)
    r = Frac.var(vid)
    c.add_fact(mkcond('ge', r))
    if check_domain:
        c.pending.append(('domain', 'sqrt', mkcond('ge', x)))
    c.numeric[vid] = lambda val, x=x: mpmath.sqrt(x.evalf(val)) if x.evalf(val) >= 0 else mpmath.sqrt(mpf(0))
    c.deriv[vid] = lambda wrt, cache, x=x, r=r: diff(x, wrt, cache) / (2 * r)
    _register('sqrt', x, r)
    return Frac(r.num, r.den, g0)


def norm(components):
    """Euclidean norm of a list of Fracs"""
    s = Frac.const(0)
    for x in components:
        x = Frac.of(x)
        s = s + x * x
    return sqrt(s, check_domain=False)


def absval(x):
    x = Frac.of(x)
    if x.is_const():
        return Frac(Poly.const(abs(x.cval())), None, x.guards)
    if x.num.is_zero(): return x
    return x if decide(x >= 0) else -x


def sign(x):
    x = Frac.of(x)
    if x.is_const():
        c = x.cval(); return Frac.const((c > 0) - (c < 0))
    if decide(x > 0): return Frac.const(1)
    if decide(mkcond('eq', x)): return Frac.const(0)
    return Frac.const(-1)


def cbrt(x):
    x = Frac.of(x); c = C()
    g0 = x.guards; x = _strip(x)
    if x.is_const():
        v = Q(x.cval()); s = 1 if v >= 0 else -1; v = abs(v)
        rn = round(v.numerator ** (1 / 3)); rd = round(v.denominator ** (1 / 3))
        if rn ** 3 == v.numerator and rd ** 3 == v.denominator:
            return Frac(Poly.const(Q(s * rn, rd)), None, g0)
    hit = _lookup('cbrt', x)
    if hit is not None: return Frac(hit.num, hit.den, hit.guards | g0)
    if x.den:
        raise EngineGap("cbrt of a fraction")
    # perfect cube of a single variable power?  (s^3 -> s)
    p = x.num
    if p.nterms() == 1:
        (m, cc), = p.t.items()
        if cc == 1 and all(e % 3 == 0 for _, e in m):
            r = Frac(Poly({tuple((v, e // 3) for v, e in m): 1}), None, g0)
            return r
    vid = c.newvar(f'cbrt{len(c.names)}', 'cbrt', arg=x)
    c.add_rule(vid, 3, p)
    r = Frac.var(vid)
    # sign(r) = sign(x):  r*x >= 0 and (r == 0 <-> x == 0) follows from r^3 = x
    c.add_fact(mkcond('ge', r * x))
    c.numeric[vid] = lambda val, x=x: mpmath.cbrt(x.evalf(val)) if x.evalf(val) >= 0 else -mpmath.cbrt(-x.evalf(val))
    c.deriv[vid] = lambda wrt, cache, x=x, r=r: diff(x, wrt, cache) / (3 * r * r)
    _register('cbrt', x, r)
    return Frac(r.num, r.den, g0)

# --------------------------------------------------------------------------
# sin / cos with angle bases
# --------------------------------------------------------------------------

def _ratio_const(arg: Frac, base: Frac):
    """rational q with arg == q*base, or None"""
    if arg.num.is_zero(): return 0
    try:
        r = _strip(arg) / _strip(base)
    except ZeroDivisionError:
        return None
    if r.is_const(): return Q(r.cval())
    return None

def _multiple_angle(s: Frac, c: Frac, k: int):
    """(sin(k h), cos(k h)) from s = sin h, c = cos h"""
    neg = k < 0; k = abs(k)
    S, Cc = Frac.const(0), Frac.const(1)
    bs, bc = s, c
    while k:
        if k & 1:
            S, Cc = S * bc + Cc * bs, Cc * bc - S * bs
        k >>= 1
        if k:
            bs, bc = 2 * bs * bc, bc * bc - bs * bs
    return (-S if neg else S), Cc

def angle_base(h, principal=False):
    """declare h as an angle base (so sin/cos of integer multiples of h expand).
    principal: |h| < pi/2 is a contract precondition, enabling atan(sin h / cos h) = h"""
    h = _strip(Frac.of(h))
    c = C()
    if principal:
        if not hasattr(c, 'principal'): c.principal = []
        c.principal.append(h)
    for (b, s, co) in c.angle_bases:
        q = _ratio_const(h, b)
        if q is not None and q.denominator == 1:
            return
    sv = c.newvar(f'sin{len(c.angle_bases)}', 'sin', arg=h)
    cv = c.newvar(f'cos{len(c.angle_bases)}', 'cos', arg=h)
    s, co = Frac.var(sv), Frac.var(cv)
    c.add_rule(sv, 2, Poly.const(1) - Poly.var(cv, 2))
    c.add_fact(mkcond('ge', 1 - co)); c.add_fact(mkcond('ge', 1 + co))
    c.numeric[sv] = lambda val, h=h: mpmath.sin(h.evalf(val))
    c.numeric[cv] = lambda val, h=h: mpmath.cos(h.evalf(val))
    c.deriv[sv] = lambda wrt, cache, h=h, co=co: co * diff(h, wrt, cache)
    c.deriv[cv] = lambda wrt, cache, h=h, s=s: -s * diff(h, wrt, cache)
    c.angle_bases.append((h, s, co))

def _rebase(b, s, co, r):
    """replace base b (atoms s, co) by the finer base b/r: the old atoms become polynomials
    sin(r h'), cos(r h') of the new ones (degree-1 rewrite rules)"""
    c = C()
    def single_var(x):
        if x.den or x.num.nterms() != 1: return None
        (m, cc), = x.num.t.items()
        return m[0][0] if cc == 1 and len(m) == 1 and m[0][1] == 1 else None
    sv, cv = single_var(s), single_var(co)
    if sv is None or cv is None:
        raise EngineGap(f"cannot refine the derived angle base {b!r}")
    c.angle_bases = [e for e in c.angle_bases if e[0] is not b]
    c.rules.pop(sv, None)
    h = _strip(b / r)
    angle_base(h)
    (_, s2, c2) = c.angle_bases[-1]
    S, Cc = _multiple_angle(s2, c2, r)
    c.add_rule(sv, 1, S.num); c.add_rule(cv, 1, Cc.num)


def sincos(arg):
    arg = Frac.of(arg); c = C()
    g0 = arg.guards; arg = _strip(arg)
    if arg.num.is_zero():
        return Frac(Poly({}), None, g0), Frac(Poly.const(1), None, g0)
    for _try in range(4):
        for (b, s, co) in list(c.angle_bases):
            q = _ratio_const(arg, b)
            if q is None: continue
            if q.denominator != 1:
                _rebase(b, s, co, q.denominator)
                break
            S, Cc = _multiple_angle(s, co, int(q))
            return Frac(S.num, S.den, S.guards | g0), Frac(Cc.num, Cc.den, Cc.guards | g0)
        else:
            angle_base(arg)
    raise AssertionError

def sin(x): return sincos(x)[0]
def cos(x): return sincos(x)[1]

# --------------------------------------------------------------------------
# exp / log
# --------------------------------------------------------------------------

def exp(arg):
    arg = Frac.of(arg); c = C()
    g0 = arg.guards; arg = _strip(arg)
    if arg.num.is_zero(): return Frac(Poly.const(1), None, g0)
    for (b, val) in c.exp_bases:
        q = _ratio_const(arg, b)
        if q is None: continue
        if q.denominator != 1:
            raise EngineGap(f"exp of non-integer multiple {q} of base {b!r}")
        r = val ** int(q)
        return Frac(r.num, r.den, r.guards | g0)
    vid = c.newvar(f'exp{len(c.exp_bases)}', 'exp', arg=arg)
    E = Frac.var(vid)
    c.add_fact(mkcond('gt', E))
    # convexity: e^a >= 1 + a  (hence (e^a - 1) has the sign of a)
    c.add_fact(mkcond('ge', E - 1 - arg))
    c.add_fact(mkcond('ge', (E - 1) * Frac(arg.num) * Frac(arg._den_poly())))
    c.numeric[vid] = lambda val, arg=arg: mpmath.exp(arg.evalf(val))
    c.deriv[vid] = lambda wrt, cache, arg=arg, E=E: E * diff(arg, wrt, cache)
    c.exp_bases.append((arg, E))
    _register('exp', arg, E)
    return Frac(E.num, E.den, g0)

def log(y):
    y = Frac.of(y); c = C()
    g0 = y.guards; y = _strip(y)
    if y.is_const():
        if y.cval() == 1: return Frac(Poly({}), None, g0)
    for (b, val) in c.exp_bases:
        if val.same(y):
            return Frac(b.num, b.den, b.guards | g0)
    hit = _lookup('log', y)
    if hit is not None: return Frac(hit.num, hit.den, hit.guards | g0)
    vid = c.newvar(f'log{len(c.names)}', 'log', arg=y)
    L = Frac.var(vid)
    c.pending.append(('domain', 'log', mkcond('gt', y)))
    c.numeric[vid] = lambda val, y=y: mpmath.log(y.evalf(val)) if y.evalf(val) > 0 else mpf(0)
    c.deriv[vid] = lambda wrt, cache, y=y: diff(y, wrt, cache) / y
    c.exp_bases.append((L, y))
    _register('log', y, L)
    return Frac(L.num, L.den, g0)

# --------------------------------------------------------------------------
# pi, atan, atan2, asin
# --------------------------------------------------------------------------

def pi():
    c = C()
    if 'pi' in c.byname:
        return Frac.var(c.byname['pi'])
    vid = c.newvar('pi', 'pi')
    P = Frac.var(vid)
    c.add_fact(mkcond('gt', P - Q(314159265, 100000000)))
    c.add_fact(mkcond('gt', Q(314159266, 100000000) - P))
    c.numeric[vid] = lambda val: mpmath.pi
    c.deriv[vid] = lambda wrt, cache: Frac.const(0)
    # sin(pi)=0, cos(pi)=-1 : pi is an angle base with known values
    c.angle_bases.append((P / 2, Frac.const(1), Frac.const(0)))
    return P

def atan(rho):
    rho = Frac.of(rho); c = C()
    g0 = rho.guards; rho = _strip(rho)
    if rho.num.is_zero(): return Frac(Poly({}), None, g0)
    hit = _lookup('atan', rho)
    if hit is not None: return Frac(hit.num, hit.den, hit.guards | g0)
    hit = _lookup('atan', -rho)
    if hit is not None:
        return Frac(-hit.num, hit.den, hit.guards | g0)
    # atan(tan h) = h on the principal branch
    for h in getattr(c, 'principal', []):
        for (b, s, co) in c.angle_bases:
            q = _ratio_const(h, b)
            if q is not None and q.denominator == 1:
                S_, C_ = _multiple_angle(s, co, int(q))
                if not C_.num.is_zero() and (S_ / C_).same(rho):
                    return Frac(h.num, h.den, h.guards | g0)
    vid = c.newvar(f'atan{len(c.names)}', 'atan', arg=rho)
    Aa = Frac.var(vid)
    P = pi()
    c.add_fact(mkcond('gt', P / 2 - Aa)); c.add_fact(mkcond('gt', Aa + P / 2))
    c.add_fact(mkcond('ge', Aa * Frac(rho.num) * Frac(rho._den_poly())))     # same sign as rho
    z = mkcond('eq', Frac(rho.num))
    c.add_fact((~mkcond('eq', Aa)) | z if not isinstance(z, bool) else (~mkcond('eq', Aa) if not z else True))
    c.numeric[vid] = lambda val, rho=rho: mpmath.atan(rho.evalf(val))
    c.deriv[vid] = lambda wrt, cache, rho=rho: diff(rho, wrt, cache) / (1 + rho * rho)
    r = sqrt(1 + rho * rho, check_domain=False)
    c.angle_bases.append((Aa, rho / r, 1 / r))
    _register('atan', rho, Aa)
    return Frac(Aa.num, Aa.den, g0)

def atan2(y, x):
    y, x = Frac.of(y), Frac.of(x); c = C()
    g0 = y.guards | x.guards; y, x = _strip(y), _strip(x)
    for k, a, val in c.atom_tab:
        if k == 'atan2' and a[0].same(y) and a[1].same(x):
            return Frac(val.num, val.den, val.guards | g0)
    vid = c.newvar(f'atan2_{len(c.names)}', 'atan2', arg=(y, x))
    T = Frac.var(vid)
    P = pi()
    c.add_fact(mkcond('ge', P - T)); c.add_fact(mkcond('gt', T + P))
    c.numeric[vid] = lambda val, y=y, x=x: mpmath.atan2(y.evalf(val), x.evalf(val))
    c.deriv[vid] = lambda wrt, cache, y=y, x=x: (x * diff(y, wrt, cache) - y * diff(x, wrt, cache)) / (x * x + y * y)
    r = sqrt(x * x + y * y, check_domain=False)
    c.angle_bases.append((T, y / r, x / r))
    c.atom_tab.append(('atan2', (y, x), T))
    return Frac(T.num, T.den, g0)

def asin(t):
    t = Frac.of(t); c = C()
    g0 = t.guards; t = _strip(t)
    if t.num.is_zero(): return Frac(Poly({}), None, g0)
    hit = _lookup('asin', t)
    if hit is not None: return Frac(hit.num, hit.den, hit.guards | g0)
    vid = c.newvar(f'asin{len(c.names)}', 'asin', arg=t)
    S = Frac.var(vid)
    P = pi()
    c.add_fact(mkcond('ge', P / 2 - S)); c.add_fact(mkcond('ge', S + P / 2))
    c.pending.append(('domain', 'asin', mkcond('ge', 1 - t * t)))
    c.numeric[vid] = lambda val, t=t: mpmath.asin(max(min(t.evalf(val), 1), -1))
    co = sqrt(1 - t * t, check_domain=False)
    c.deriv[vid] = lambda wrt, cache, t=t, co=co: diff(t, wrt, cache) / co
    c.angle_bases.append((S, t, co))
    _register('asin', t, S)
    return Frac(S.num, S.den, g0)

def nan_to_num(x):
    x = Frac.of(x)
    if isinstance(x, Inf): raise EngineGap("nan_to_num(inf)")
    return Frac(x.num, x.den, x.guards, True)
