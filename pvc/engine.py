"""Path exploration by re-execution, the dual-mode contract environment (symbolic proof /
concrete twin on the real code), obligation records."""
from __future__ import annotations
import os
import time, traceback, random, math, importlib, itertools
from fractions import Fraction as Q
import numpy as np
import mpmath
from mpmath import mpf
from . import algebra as A, atoms as AT, storch as st, smt, loader as LD
from .algebra import Frac, Poly, SymBool, Inf, mkcond
from .atoms import EngineGap
from .loopcut import StopPath
from . import loopcut


class Infeasible(BaseException): pass
class PathLimit(Exception): pass


# --------------------------------------------------------------------------
# decision oracle
# --------------------------------------------------------------------------

def _complement_key(c):
    if c.op == 'gt': return ('ge', (-c.a).key())
    if c.op == 'ge': return ('gt', (-c.a).key())
    return None

def _has_eq(c):
    """does the literal constrain to a lower-dimensional set (equality, or negated strict inequality)?"""
    if isinstance(c, bool): return False
    if c.op == 'eq': return True
    if c.op == 'ge': return True
    if c.op == 'not': return c.a.op in ('gt',) or (c.a.op == 'not' and _has_eq(c.a.a))
    if c.op in ('and', 'or'): return _has_eq(c.a) or _has_eq(c.b)
    return False


class PathOracle:
    def __init__(self, prefix, z3_timeout=2000, use_z3=True, seed=0, pool_size=40):
        self.prefix = dict(prefix)       # key -> bool (forced decisions)
        self.order = list(prefix)        # keys in order
        self.cache = {}
        self.path = []                   # list of SymBool literals (true on this path)
        self.forks = []                  # (key, value) of free decisions taken in this run, in order
        self.implied = 0
        self.z3_timeout = z3_timeout
        self.use_z3 = use_z3
        self.unknown_feas = 0
        self.env = None
        self.pool = [dict(rng=random.Random(seed * 1000 + i), sample={}, alive=True) for i in range(pool_size)]
        self.z3_calls = 0

    # ---- sample pool: cheap feasibility evidence (a sample satisfying path /\ c is a proof of feasibility)
    def _pool_eval(self, c):
        """(some alive sample makes c true, some makes it false)"""
        env = self.env
        if env is None or not env.decls: return False, False
        ctx = A.CTX
        t = f = False
        for it in self.pool:
            if not it['alive']: continue
            try:
                for d in env.decls:
                    if d.name not in it['sample']:
                        it['sample'][d.name] = sample_decl(d, it['rng'].choice(d.regimes), it['rng'])
                sv = symvals_from_sample(env.decls, it['sample'])
                if ctx.eps is not None: sv[list(ctx.eps.num.vars())[0]] = mpf(2.0 ** -52)
                val = AT.valuation(sv)
                if not all(x.evalf(val) for x in self.path) or not all(x.evalf(val, 1e-40, eq_only=True) for x in ctx.facts):
                    it['alive'] = False; continue
                if c.evalf(val): t = True
                else: f = True
            except (ZeroDivisionError, KeyError, ValueError, TypeError):
                continue
            if t and f: break
        return t, f

    def witness(self):
        env = self.env
        if env is None: return None
        ctx = A.CTX
        for it in self.pool:
            if not it['alive']: continue
            try:
                for d in env.decls:
                    if d.name not in it['sample']:
                        it['sample'][d.name] = sample_decl(d, it['rng'].choice(d.regimes), it['rng'])
                sv = symvals_from_sample(env.decls, it['sample'])
                if ctx.eps is not None: sv[list(ctx.eps.num.vars())[0]] = mpf(2.0 ** -52)
                val = AT.valuation(sv)
                if all(x.evalf(val) for x in self.path) and all(x.evalf(val, 1e-40, eq_only=True) for x in ctx.facts):
                    return dict(sample={d.name: it['sample'][d.name] for d in env.decls}, regimes=['pool'])
            except (ZeroDivisionError, KeyError, ValueError, TypeError):
                continue
        return None

    def _sat(self, conds):
        self.z3_calls += 1
        return smt.check_sat(conds, self.z3_timeout)

    def decide(self, c):
        k = c.key()
        v = self.cache.get(k)
        if v is not None: return v
        ck = _complement_key(c)
        if ck is not None and ck in self.cache:
            v = not self.cache[ck]; self.cache[k] = v; return v
        if c.op == 'eq':
            # decided strict sign implies != 0
            for kk in (('gt', c.a.key()), ('gt', (-c.a).key())):
                if self.cache.get(kk) is True:
                    self.cache[k] = False; return False
        if c.op in ('gt', 'ge'):
            # sign of the same expression already decided on this path: a > 0 / a < 0 settle both a > 0 and a >= 0 (the solver answers
            # 'unknown' on such pairs for large polynomials within its time limit, which used to open contradictory paths)
            ak, nk, g = c.a.key(), (-c.a).key(), self.cache.get
            v = None
            if g(('gt', ak)) is True or g(('ge', nk)) is False: v = True
            elif g(('ge', ak)) is False or g(('gt', nk)) is True: v = False
            elif c.op == 'gt' and g(('ge', nk)) is True: v = False
            elif c.op == 'ge' and g(('gt', nk)) is False: v = True
            if v is not None:
                if k in self.prefix and self.prefix[k] != v: raise Infeasible()
                self.cache[k] = v; self.implied += 1
                return v
        if k in self.prefix:
            v = self.prefix[k]
            pt, pf = self._pool_eval(c)
            if not (pt if v else pf) and self.use_z3:
                r = self._sat(self.path + [c if v else ~c])
                if r == 'unsat': raise Infeasible()
            self._take(c, k, v, forced=True)
            return v
        # fresh decision: which sides are feasible?
        t_ok, f_ok = self._pool_eval(c)
        if self.use_z3:
            if not t_ok:
                rt = self._sat(self.path + [c]); t_ok = rt != 'unsat'
                if rt == 'unknown': self.unknown_feas += 1
            if not f_ok:
                rf = self._sat(self.path + [~c]); f_ok = rf != 'unsat'
                if rf == 'unknown': self.unknown_feas += 1
        else:
            t_ok = f_ok = True
        if not t_ok and not f_ok: raise Infeasible()
        if t_ok and not f_ok:
            self.cache[k] = True; self.implied += 1; return True
        if f_ok and not t_ok:
            self.cache[k] = False; self.implied += 1; return False
        self._take(c, k, True, forced=False)
        return True

    def _take(self, c, k, v, forced):
        self.cache[k] = v
        self.path.append(c if v else ~c)
        if not forced: self.forks.append((k, v))
        self.order.append(k) if k not in self.prefix else None


# --------------------------------------------------------------------------
# inputs
# --------------------------------------------------------------------------

REGIMES = {
    'zero': 0.0, 'tiny': 1e-20, 'subeps': 1e-17, 'sqrteps': 3e-8, 'micro': 1e-5, 'small': 1e-3, 'generic': 1.0, 'large': 7.0,
}

class InputDecl:
    def __init__(self, name, kind, n, regimes):
        self.name, self.kind, self.n, self.regimes = name, kind, n, regimes
        self.vids = []
        self.integer = False


class Env:
    """contract environment.  mode 'sym': storch + exact algebra; mode 'num': real torch on real pypose."""
    def __init__(self, mode, sample=None, loader=None, tol=1e-8, dtype='float64', rng=None, regime=None):
        self.mode = mode
        self.sample = dict(sample or {})
        self.rng = rng or random.Random(0)
        self.regime = regime          # None: random regime per input ; or callable(decl, rng)->regime
        self.regimes_used = {}
        self.decls = []
        self.clauses = []      # (name, status, detail)
        self.tol = tol
        self.dtype = dtype
        self.loader = loader
        self.values = {}       # clause -> numeric lhs list (model validation)
        self.rhs_values = {}   # clause -> rhs entries of proved identities (independent high-precision re-check)
        self.notes = []
        self._undo = []
        if mode == 'num':
            import torch
            self.T = torch
            self._dt = getattr(torch, dtype)
        else:
            self.T = loader.torch

    # ---- modules
    def load(self, modname):
        if self.mode == 'sym': return self.loader.load(modname)
        return importlib.import_module(modname)

    @property
    def sym(self): return self.mode == 'sym'

    # ---- input declarations
    def _declare(self, name, kind, n, regimes):
        d = InputDecl(name, kind, n, regimes)
        self.decls.append(d)
        return d

    def _mk(self, d, builder_sym):
        if self.mode == 'sym':
            return builder_sym(d)
        if d.name not in self.sample:
            r = self.regime(d, self.rng) if self.regime else self.rng.choice(d.regimes)
            self.regimes_used[d.name] = r
            self.sample[d.name] = sample_decl(d, r, self.rng)
        vals = self.sample[d.name]
        return self.T.tensor([float(v) for v in vals], dtype=self._dt)

    def vec(self, name, n, regimes=('generic', 'zero', 'tiny', 'small', 'large')):
        """n free reals, shape (n,)"""
        d = self._declare(name, 'vec', n, regimes)
        def b(d):
            c = A.CTX
            fs = [c.sym(f'{name}{i}') for i in range(n)]
            d.vids = [list(f.num.vars())[0] for f in fs]
            return st.tensor(fs)
        return self._mk(d, b)

    def scalar(self, name, regimes=('generic', 'zero', 'tiny', 'small', 'large'), positive=False, nonneg=False, integer=False):
        d = self._declare(name, 'pos' if positive else ('nonneg' if nonneg else 'vec'), 1, regimes)
        d.integer = integer
        def b(d):
            c = A.CTX
            f = c.sym(name, integer=integer)
            d.vids = [list(f.num.vars())[0]]
            if positive: c.add_fact(f > 0)
            if nonneg: c.add_fact(f >= 0)
            return st.tensor([f])
        return self._mk(d, b)

    def unitquat(self, name, regimes=('generic', 'identity', 'nearpi', 'small', 'weps')):
        """unit quaternion (x,y,z,w), shape (4,): relation w^2 = 1 - x^2 - y^2 - z^2"""
        d = self._declare(name, 'unit4', 4, regimes)
        def b(d):
            c = A.CTX
            fs = [c.sym(f'{name}{s}') for s in 'xyzw']
            d.vids = [list(f.num.vars())[0] for f in fs]
            x, y, z, w = [Poly.var(v) for v in d.vids]
            c.add_rule(d.vids[3], 2, Poly.const(1) - x * x - y * y - z * z)
            for f in fs:
                c.add_fact(f <= 1); c.add_fact(f >= -1)
            return st.tensor(fs)
        return self._mk(d, b)

    def assume(self, what, cond):
        """contract precondition / assumed fact (listed in the evidence)"""
        self.notes.append(('assume', what))
        if self.mode == 'sym':
            for c in (list(st._T(cond)._a.flat) if isinstance(cond, st.Tensor) else [cond]):
                if isinstance(c, SymBool):
                    A.CTX.add_fact(c)
                elif not c:
                    raise Infeasible()
        else:
            ok = bool(cond.all()) if self.T.is_tensor(cond) else bool(cond)
            if not ok: raise Infeasible()

    def stub(self, mod, name, fn):
        """by-contract mode: replace a callee of the extracted module by its contract (sym only);
        undone at the end of the path"""
        old = getattr(mod, name)
        setattr(mod, name, fn)
        self._undo.append((mod, name, old))
        self.notes.append(('stub', f'{mod.__name__}.{name}'))

    def fresh_matrix(self, name, n, m):
        """abstract matrix of fresh symbols (result of a stubbed callee)"""
        c = A.CTX
        return st.tensor([[c.sym(f'{name}{i}{j}', aux=True) for j in range(m)] for i in range(n)])

    def angle_base(self, h, principal=False):
        """declare h (a 0-d / 1-element tensor) as the base angle of this obligation (sym only)"""
        if self.mode == 'sym':
            AT.angle_base(st._T(h)._a.reshape(-1)[0], principal=principal)

    def eps(self, like):
        return self.T.finfo(like.dtype).eps

    def const(self, value):
        if self.mode == 'sym': return st.tensor(value)
        return self.T.tensor(value, dtype=self._dt)

    def cat(self, *ts):
        return self.T.cat(list(ts), -1)

    # ---- obligations
    def _record(self, name, status, detail=None):
        self.clauses.append((name, status, detail))

    def eq(self, name, lhs, rhs, tol=None):
        """identity lhs == rhs (tensors / scalars), all entries"""
        if self.mode == 'sym':
            la = st._T(lhs)._a; ra = st._T(rhs)._a
            if la.shape != ra.shape:
                try:
                    shape = np.broadcast_shapes(la.shape, ra.shape)
                    la = np.broadcast_to(la, shape); ra = np.broadcast_to(ra, shape)
                except ValueError:
                    self._record(name, 'failed', f'shape mismatch {la.shape} vs {ra.shape}'); return False
            bad = []
            vals = []; rvals = []
            used_z3 = False
            for idx in np.ndindex(la.shape):
                a, b = la[idx], ra[idx]
                if isinstance(a, (bool, SymBool, int)) and not isinstance(a, Frac): a = Frac.of(a)
                if isinstance(b, (bool, SymBool, int)) and not isinstance(b, Frac): b = Frac.of(b)
                if isinstance(a, Inf) or isinstance(b, Inf):
                    ok = isinstance(a, Inf) and isinstance(b, Inf) and a.sign == b.sign
                else:
                    ok = a.same(b)
                if not ok and not isinstance(a, Inf) and not isinstance(b, Inf) and A.ORACLE.path:
                    # not an identity; it may still hold under the equalities of this path (e.g. x == lo)
                    if any(_has_eq(c) for c in A.ORACLE.path):
                        if smt.prove(A.ORACLE.path, mkcond('eq', a - b), 5000) == 'proved':
                            ok = True; used_z3 = True
                if not ok: bad.append((idx, a, b))
                vals.append(a)
                rvals.append(b)
            self.values[name] = vals
            self.rhs_values[name] = rvals
            if bad:
                idx, a, b = bad[0]
                d = (a - b) if not isinstance(a, Inf) and not isinstance(b, Inf) else None
                self._record(name, 'failed', {'entry': list(idx), 'n_bad': len(bad),
                                              'residual': repr(d)[:600] if d is not None else 'inf'})
                return False
            self._record(name, 'proved', {'entries': int(la.size), 'backend': 'nf+z3' if used_z3 else 'nf'})
            return True
        else:
            T = self.T
            l = lhs if T.is_tensor(lhs) else T.tensor(lhs, dtype=self._dt)
            r = rhs if T.is_tensor(rhs) else T.tensor(rhs, dtype=self._dt)
            if hasattr(l, 'ltype'): l = l.tensor()
            if hasattr(r, 'ltype'): r = r.tensor()
            l = l.to(self._dt); r = r.to(self._dt)
            try:
                l, r = T.broadcast_tensors(l, r)
            except RuntimeError:
                self._record(name, 'failed', f'shape mismatch {tuple(l.shape)} vs {tuple(r.shape)}'); return False
            self.values[name] = [float(v) for v in l.reshape(-1)]
            t = self.tol if tol is None else tol
            if not bool(T.isfinite(l).all()) or not bool(T.isfinite(r).all()):
                self._record(name, 'failed', {'nonfinite': True, 'lhs': l.reshape(-1)[:8].tolist(), 'rhs': r.reshape(-1)[:8].tolist()})
                return False
            scale = 1.0 + float(r.abs().max()) if r.numel() else 1.0
            err = float((l - r).abs().max()) if l.numel() else 0.0
            if err <= t * scale:
                self._record(name, 'passed', {'err': err}); return True
            self._record(name, 'failed', {'err': err, 'lhs': l.reshape(-1)[:8].tolist(), 'rhs': r.reshape(-1)[:8].tolist()})
            return False

    def eq_order(self, name, lhs, rhs, wrt, order, tol=None):
        """lhs - rhs = O(|wrt|^order): the difference is a polynomial (no denominators in wrt) without
        terms of total degree < order in the variables of the input tensor(s) wrt"""
        if self.mode != 'sym':
            return self.eq(name, lhs, rhs, tol)
        vids = set()
        for w in (wrt if isinstance(wrt, (list, tuple)) else [wrt]):
            for e in st._T(w)._a.flat: vids |= e.vars()
        la = st._T(lhs)._a; ra = st._T(rhs)._a
        shape = np.broadcast_shapes(la.shape, ra.shape)
        la = np.broadcast_to(la, shape); ra = np.broadcast_to(ra, shape)
        worst = None; vals = []
        for idx in np.ndindex(shape):
            d = Frac.of(la[idx]) - Frac.of(ra[idx])
            vals.append(Frac.of(la[idx]))
            if d.num.is_zero(): continue
            d = Frac(A.reduce_poly(d.num), d.den)
            if d.num.is_zero(): continue
            if any(f.vars() & vids for f in d.den):
                worst = (idx, 'denominator depends on the expansion variables'); break
            md = d.num.min_degree_in(vids)
            if md < order:
                worst = (idx, f'term of degree {md} < {order}: {d!r}'[:400]); break
        self.values[name] = vals
        if worst:
            self._record(name, 'failed', {'entry': list(worst[0]), 'why': worst[1]}); return False
        self._record(name, 'proved', {'entries': int(np.prod(shape)) if shape else 1, 'backend': 'nf', 'order': order})
        return True

    def backward(self, F, inputs, g, needs=None):
        """(output, grads) of a torch.autograd.Function: sym: forward + setup_context + backward of the
        real class; num: real autograd on the real class.  needs: which inputs require a gradient (ctx.needs_input_grad /
        requires_grad); the gradient of an input that does not need one is reported as None."""
        if needs is None: needs = (True,) * len(inputs)
        if self.mode == 'sym':
            out = F.apply(*inputs)
            ctx = st.LAST_CTX[F.__name__]
            ctx.needs_input_grad = tuple(needs) + (False,) * (8 - len(needs))
            grads = F.backward(ctx, g)
            if not isinstance(grads, tuple): grads = (grads,)
            return out, tuple(gr if nd else None for gr, nd in zip(grads, needs))
        T = self.T
        ins = [x.detach().clone().requires_grad_(bool(nd)) for x, nd in zip(inputs, needs)]
        out = F.apply(*ins)
        req = [x for x, nd in zip(ins, needs) if nd]
        got = T.autograd.grad(out, req, grad_outputs=g, allow_unused=True) if req else ()
        it = iter(got)
        grads = []
        for x, nd in zip(ins, needs):
            if not nd: grads.append(None); continue
            gr = next(it)
            grads.append(gr if gr is not None else T.full_like(x, float('nan')))      # a needed gradient that autograd did not receive
        return out.detach(), tuple(grads)

    def no_graph_cut(self, name, fn, x, tol=None, group=None):
        """fn is a plain-torch segment (differentiated op by op by reverse-mode autograd, not by a hand-written backward): autograd's
        Jacobian w.r.t. the 1-d tensor x equals the true one.
        sym: every .detach()/.data inside the segment tags its value; the clause is proved when no entry of the result is computed
             from a tagged value that depends on x (sufficient condition: the full dependence on x is in the graph).  A tagged
             dependence is an over-approximation of lost gradient: reported failed only with a failing input of the real code
             (needs_cex), otherwise undecided.
        num: torch.autograd.functional.jacobian of the real code against central differences."""
        if self.mode == 'sym':
            st.CUTS = {}
            try:
                y = fn(x)
            finally:
                cuts, st.CUTS = st.CUTS, None
            ya = st._T(y)._a; xa = x._a
            xvs = []
            for j in np.ndindex(xa.shape):
                (m, cc), = xa[j].num.t.items(); xvs.append(m[0][0])
            cache = {}
            dep = {}
            for mk_, v in cuts.items():
                dep[mk_] = any(not AT.diff(Frac(v.num, v.den), xv, cache).same(Frac.const(0)) for xv in xvs)
            bad = []
            for i in np.ndindex(ya.shape):
                e = ya[i]
                if not isinstance(e, Frac): continue
                hit = [mk_ for mk_ in e.guards if mk_ in dep and dep[mk_]]
                if hit: bad.append((list(i), len(hit)))
            self.notes.append(('graph cuts seen', len(cuts)))
            if bad:
                self._record(name, 'failed', {'needs_cex': True, 'entries_computed_from_detached_values': bad[:6], 'cuts': len(cuts)})
                return False
            self._record(name, 'proved', {'entries': int(ya.size), 'cuts_seen': len(cuts), 'backend': 'dependence'})
            return True
        T = self.T
        x0 = x.detach().clone()
        def f(z):
            out = fn(z)
            return out.tensor() if hasattr(out, 'ltype') else out
        Ja = T.autograd.functional.jacobian(f, x0)
        t = tol if tol is not None else max(self.tol, 2e-5)
        if group is None:
            return self.eq(name, Ja, self.jacobian(fn, x0), t)
        # group-typed input: autograd returns the left-perturbation Jacobian in the first dof slots (and 0 in the last one)
        import pypose as pp
        dof = {'SO3': 3, 'SE3': 6, 'RxSO3': 4, 'Sim3': 7}[group]
        lt_ = getattr(pp, group + '_type'); at_ = getattr(pp, {'SO3': 'so3', 'SE3': 'se3', 'RxSO3': 'rxso3', 'Sim3': 'sim3'}[group] + '_type')
        X0 = pp.LieTensor(x0, ltype=lt_)
        cols = []
        h = 1e-6
        for j in range(dof):
            d = T.zeros(dof, dtype=x0.dtype); d[j] = h
            Xp = (pp.LieTensor(d, ltype=at_).Exp() @ X0).tensor(); Xm = (pp.LieTensor(-d, ltype=at_).Exp() @ X0).tensor()
            cols.append((f(Xp) - f(Xm)) / (2 * h))
        Jn = T.stack(cols, -1)
        Jn = T.cat([Jn, T.zeros_like(Jn[..., :1])], -1) if Ja.shape[-1] == dof + 1 else Jn
        return self.eq(name, Ja, Jn, t)

    def holds(self, name, cond):
        """boolean obligation; cond is a (tensor of) comparison result(s) built with the T namespace"""
        if self.mode == 'sym':
            items = list(st._T(cond)._a.flat) if isinstance(cond, st.Tensor) else [cond]
            worst = 'proved'; det = None
            for c in items:
                if isinstance(c, bool) or type(c).__name__ == 'bool_':
                    r = 'proved' if c else 'refuted'
                else:
                    r = smt.prove(A.ORACLE.path, c)
                if r != 'proved':
                    worst = 'failed' if r == 'refuted' else 'unknown'; det = repr(c)[:400]
                    if r == 'refuted': break
            self._record(name, worst, {'backend': 'z3', 'cond': det})
            return worst == 'proved'
        else:
            T = self.T
            ok = bool(cond.all()) if T.is_tensor(cond) else bool(cond)
            self._record(name, 'passed' if ok else 'failed', None)
            return ok

    def raises(self, name, exc, fn):
        """fn() must raise exc"""
        try:
            fn()
        except exc:
            self._record(name, 'proved' if self.mode == 'sym' else 'passed', {'backend': 'path'}); return True
        except (EngineGap, Infeasible): raise
        except Exception as e:
            self._record(name, 'failed', f'raised {type(e).__name__}: {e}'); return False
        self._record(name, 'failed', 'did not raise'); return False

    def no_raise(self, name, exc, fn):
        try:
            r = fn()
        except exc as e:
            self._record(name, 'failed', f'raised {type(e).__name__}: {str(e)[:200]}'); return None
        self._record(name, 'proved' if self.mode == 'sym' else 'passed', {'backend': 'path'})
        return r

    def safe(self, name, *tensors):
        """safety: every division / log / sqrt feeding these values is defined on this path"""
        if self.mode == 'sym':
            guards = set()
            for t in tensors:
                for e in st._T(t)._a.flat:
                    if isinstance(e, Frac): guards |= set(e.guards)
            worst = 'proved'; det = None
            for g in guards:
                cz = mkcond('eq', Frac(g))
                r = ('refuted' if cz else 'proved') if isinstance(cz, bool) else smt.prove(A.ORACLE.path, ~cz)
                if r != 'proved':
                    worst = 'failed' if r == 'refuted' else 'unknown'; det = repr(g)[:300]
                    if r == 'refuted': break
            for kind, what, cond in A.CTX.pending:
                r = smt.prove(A.ORACLE.path, cond) if not isinstance(cond, bool) else ('proved' if cond else 'refuted')
                if r != 'proved':
                    worst = 'failed' if r == 'refuted' else ('unknown' if worst == 'proved' else worst); det = f'{what} domain: {cond!r}'[:300]
            self._record(name, worst, {'backend': 'z3', 'guards': len(guards), 'domain': len(A.CTX.pending), 'open': det})
            return worst == 'proved'
        else:
            T = self.T
            ok = all(bool(T.isfinite(t.tensor() if hasattr(t, 'ltype') else t).all()) for t in tensors)
            self._record(name, 'passed' if ok else 'failed', None if ok else 'non-finite value')
            return ok

    # ---- derivative of a traced function (C04/C05)
    def jacobian(self, fn, x):
        """d fn(x) / d x  as a tensor of shape out.shape + x.shape ; x a 1-d input tensor.
        sym: exact derivation ; num: central differences (float64)."""
        if self.mode == 'sym':
            y = fn(x)
            ya = st._T(y)._a
            xa = x._a
            out = np.empty(ya.shape + xa.shape, dtype=object)
            cache = {}
            for j in np.ndindex(xa.shape):
                e = xa[j]
                (m, cc), = e.num.t.items()
                vid = m[0][0]
                for i in np.ndindex(ya.shape):
                    out[i + j] = AT.diff(Frac.of(ya[i]), vid, cache)
            return st._mk(out, 'f')
        T = self.T
        x0 = x.detach().clone()
        y0 = fn(x0)
        if hasattr(y0, 'ltype'): y0 = y0.tensor()
        cols = []
        h = 1e-6
        for j in range(x0.numel()):
            d = T.zeros_like(x0).reshape(-1); d[j] = h; d = d.reshape(x0.shape)
            yp = fn(x0 + d); ym = fn(x0 - d)
            if hasattr(yp, 'ltype'): yp, ym = yp.tensor(), ym.tensor()
            cols.append((yp - ym) / (2 * h))
        return T.stack(cols, -1).reshape(tuple(y0.shape) + tuple(x0.shape))


# --------------------------------------------------------------------------
# sampling of inputs
# --------------------------------------------------------------------------

def sample_decl(d, regime, rng):
    if d.kind in ('vec', 'pos', 'nonneg'):
        s = REGIMES.get(regime, 1.0)
        if regime == 'zero':
            v = [0.0] * d.n
        else:
            v = [rng.gauss(0, 1) * s for _ in range(d.n)]
            if regime == 'large':
                v = [x * 1.0 for x in v]
        if d.kind == 'pos':
            v = [abs(x) + (1e-3 if regime != 'tiny' else 1e-20) if regime != 'generic' else math.exp(rng.uniform(-2, 2)) for x in v]
        if d.kind == 'nonneg':
            v = [abs(x) for x in v]
        if getattr(d, 'integer', False):
            v = [float(round(x * 3)) + (1.0 if d.kind == 'pos' and round(x * 3) <= 0 else 0.0) for x in v]
        return v
    if d.kind == 'unit4':
        if regime == 'identity': return [0.0, 0.0, 0.0, 1.0]
        if regime == 'halfturn':                      # rotation by exactly pi: w is exactly 0
            ax = [rng.gauss(0, 1) for _ in range(3)]
            if rng.random() < 0.4: ax = [[1.0, 0, 0], [0, 1.0, 0], [0, 0, 1.0]][rng.randrange(3)]
            n = math.sqrt(sum(a * a for a in ax))
            return [ax[0] / n, ax[1] / n, ax[2] / n, 0.0]
        ax = [rng.gauss(0, 1) for _ in range(3)]
        n = math.sqrt(sum(a * a for a in ax)) or 1.0
        ax = [a / n for a in ax]
        if regime == 'weps':                          # scalar part EXACTLY on the switch-over thresholds of the code (+-eps, +-eps/2, +-2 eps of float64)
            w = rng.choice([1.0, -1.0]) * rng.choice([1.0, 1.0, 0.5, 2.0]) * 2.0 ** -52
            return [ax[0], ax[1], ax[2], w]
        if regime == 'nearpi': ang = math.pi - rng.choice([0.0, 1e-12, 1e-6, 1e-3])
        elif regime == 'small': ang = rng.choice([1e-20, 1e-12, 1e-6])
        elif regime == 'neg': ang = rng.uniform(math.pi, 2 * math.pi)
        else: ang = rng.uniform(-math.pi, math.pi) * rng.choice([1, 1, 2])
        s, c = math.sin(ang / 2), math.cos(ang / 2)
        return [ax[0] * s, ax[1] * s, ax[2] * s, c]
    raise ValueError(d.kind)


def symvals_from_sample(decls, sample):
    """exact-ish valuation of input symbols: unit quaternions are re-normalised in high precision"""
    sv = {}
    for d in decls:
        vals = [mpf(v) for v in sample[d.name]]
        if d.kind == 'unit4':
            x, y, z, w = vals
            if w == 0:                      # exact half turn: keep w = 0, make (x, y, z) exactly unit
                n = mpmath.sqrt(x * x + y * y + z * z)
                vals = [x / n, y / n, z / n, mpf(0)]
            elif abs(w) <= mpf(10) ** -6:       # a tiny scalar part is kept EXACTLY as sampled (it may sit on a threshold); (x, y, z) take up the norm
                n = mpmath.sqrt(x * x + y * y + z * z)
                sc_ = mpmath.sqrt(1 - w * w) / n
                vals = [x * sc_, y * sc_, z * sc_, w]
            else:
                r = 1 - x * x - y * y - z * z
                if r >= 0:
                    vals = [x, y, z, mpmath.sqrt(r) * (1 if w >= 0 else -1)]
                else:                       # |w| below the rounding of x^2+y^2+z^2: keep its sign, scale all four (w = 0 with a non-unit
                    n = mpmath.sqrt(x * x + y * y + z * z + w * w)      # (x, y, z) broke the relation w^2 = 1 - x^2 - y^2 - z^2 by 1e-16)
                    vals = [x / n, y / n, z / n, w / n]
        for vid, v in zip(d.vids, vals): sv[vid] = v
    return sv


# --------------------------------------------------------------------------
# obligation runner
# --------------------------------------------------------------------------

class PathResult:
    def __init__(self): pass

def run_symbolic(fn, loader, max_paths=64, z3_timeout=2000, seed=0, witness_tries=60, eps_value=2.0 ** -52, first_only=False):
    """explore all paths of contract function fn(env) (first_only: the first feasible path - for clauses that do not depend on values). returns dict"""
    work = [[]]
    paths = []
    n_inf = 0
    t0 = time.time()
    while work:
        if first_only and paths: break
        prefix = work.pop()
        if len(paths) >= max_paths:
            raise PathLimit(f"more than {max_paths} paths")
        ctx = A.set_ctx(A.Ctx())
        orc = PathOracle(prefix, z3_timeout, seed=seed)
        A.set_oracle(orc)
        st.LAST_CTX.clear()
        loopcut.DISPATCH.contracts.clear(); loopcut.DISPATCH.log.clear()
        env = Env('sym', loader=loader)
        orc.env = env
        outcome = 'ok'; err = None
        try:
            fn(env)
        except Infeasible:
            outcome = 'infeasible'
        except StopPath:
            outcome = 'ok'
        except (EngineGap, NotImplementedError) as e:
            # a NotImplementedError raised by the model (pvc/*) is an engine gap, not a verdict on the code
            tb = traceback.extract_tb(e.__traceback__)
            if isinstance(e, EngineGap) or (tb and '/pvc/' in tb[-1].filename):
                outcome = 'gap'; err = f'{type(e).__name__}: {e}'
            else:
                outcome = 'raised'; err = f'NotImplementedError: {str(e)[:300]}\n' + traceback.format_exc()[-1500:]
        except (TypeError, AttributeError, KeyError, NameError, UnboundLocalError, np.exceptions.AxisError) as e:
            # raised INSIDE the torch model (innermost frame in pvc/): a signature / value kind the model does not handle, or a defect
            # of the model itself - an engine gap, never a verdict on the code.  (Errors torch itself would raise are modelled as
            # RuntimeError / IndexError / ValueError and stay path outcomes.)
            tb = [f for f in traceback.extract_tb(e.__traceback__) if 'site-packages' not in f.filename and '/lib/python' not in f.filename] \
                or traceback.extract_tb(e.__traceback__)          # innermost frame outside third-party libraries
            if tb and '/pvc/' in tb[-1].filename:
                outcome = 'gap'; err = f'{type(e).__name__} inside the torch model: {str(e)[:200]} ({os.path.basename(tb[-1].filename)}:{tb[-1].lineno})'
            else:
                outcome = 'raised'; err = f'{type(e).__name__}: {str(e)[:300]}\n' + traceback.format_exc()[-1500:]
        except AssertionError as e:
            outcome = 'raised'; err = 'AssertionError: ' + str(e)[:300] + '\n' + traceback.format_exc()[-1500:]
        except Exception as e:
            outcome = 'raised'; err = f'{type(e).__name__}: {str(e)[:300]}\n' + traceback.format_exc()[-1500:]
        finally:
            for (m_, n_, old_) in reversed(env._undo): setattr(m_, n_, old_)
        # schedule alternatives
        taken = list(prefix)
        for (k, v) in orc.forks:
            work.append(taken + [(k, not v)])
            taken = taken + [(k, v)]
        if outcome == 'infeasible':
            n_inf += 1
            continue
        # witness
        wit = None
        if outcome != 'gap':
            wit = orc.witness() or find_witness(env, orc, ctx, seed + len(paths), witness_tries, eps_value)
        paths.append(dict(prefix=[(str(k)[:80], v) for k, v in taken], cond=[repr(c)[:200] for c in orc.path],
                          clauses=env.clauses, outcome=outcome, error=err, witness=wit,
                          values={k: v for k, v in env.values.items()} if wit else {},
                          rhs_values={k: v for k, v in env.rhs_values.items()} if wit else {},
                          ctx=ctx, decls=env.decls, implied=orc.implied, unknown_feas=orc.unknown_feas,
                          atoms=[ctx.names[v] for v in range(len(ctx.names)) if ctx.kind[v] != 'sym']))
    return dict(paths=paths, infeasible=n_inf, wall=time.time() - t0)


def find_witness(env, orc, ctx, seed, tries, eps_value):
    rng = random.Random(seed)
    decls = env.decls
    if not decls: return {}
    n = 0
    while True:
        n += 1
        if n > tries: return _z3_witness(env, orc, ctx, eps_value)
        combo = tuple(d.regimes[0] for d in decls) if n == 1 else tuple(rng.choice(d.regimes) for d in decls)
        sample = {d.name: sample_decl(d, r, rng) for d, r in zip(decls, combo)}
        try:
            sv = symvals_from_sample(decls, sample)
            if ctx.eps is not None:
                sv[list(ctx.eps.num.vars())[0]] = mpf(eps_value)
            val = AT.valuation(sv)
            if all(c.evalf(val) for c in orc.path) and all(f.evalf(val, 1e-40, eq_only=True) for f in ctx.facts):
                return dict(sample=sample, regimes=list(combo))
        except (ZeroDivisionError, KeyError, ValueError):
            continue
    return None


def _z3_witness(env, orc, ctx, eps_value):
    """when sampling fails (equality-constrained paths): a z3 model is a true witness provided the
    context has no transcendental atoms"""
    try:
        m = smt.model(list(orc.path) + [f for f in ctx.facts], int(os.environ.get("VERIF_WITNESS_MS", "5000")))
    except Exception:
        return None
    if m is None: return None
    sample = {}
    for d in env.decls:
        sample[d.name] = [float(m.get(v, 0)) for v in d.vids]
    try:
        sv = symvals_from_sample(env.decls, sample)
        if ctx.eps is not None:
            ev = list(ctx.eps.num.vars())[0]
            sv[ev] = mpf(float(m.get(ev, eps_value)))
        val = AT.valuation(sv)
        if all(c.evalf(val, 1e-30) for c in orc.path):
            return dict(sample=sample, regimes=['z3-model'])
    except Exception:
        pass
    return None


def run_numeric(fn, sample=None, tol=1e-8, dtype='float64', rng=None, regime=None):
    sample = dict(sample or {})
    seed_ = sample.pop('__seed__', None)
    if seed_ is None:
        seed_ = (rng or random).randrange(1 << 30)
    env = Env('num', sample=sample, tol=tol, dtype=dtype, rng=random.Random(seed_), regime=regime)
    outcome = 'ok'; err = None
    try:
        fn(env)
    except Infeasible:
        outcome = 'precondition'
    except AssertionError as e:
        outcome = 'raised'; err = 'AssertionError: ' + str(e)[:300]
    except Exception as e:
        outcome = 'raised'; err = f'{type(e).__name__}: {str(e)[:300]}'
    finally:
        for (m_, n_, old_) in reversed(env._undo): setattr(m_, n_, old_)
        env._undo = []
    return dict(clauses=env.clauses, outcome=outcome, error=err, values=env.values, decls=env.decls, sample=dict(env.sample, __seed__=seed_),
                regimes=dict(env.regimes_used))
