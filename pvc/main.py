"""./check entry:  python -m pvc.main <Cxx> quick|thorough   |   python -m pvc.main --replay <file>"""
from __future__ import annotations
import os, sys, json, time, random, importlib, multiprocessing as mp, traceback, glob, subprocess, hashlib

ROOT = os.path.dirname(os.path.dirname(os.path.abspath(__file__)))
sys.path.insert(0, ROOT)
_repo = os.environ.get('PYPOSE_REPO', '/repo')
if os.path.abspath(_repo) != '/repo':
    sys.path.insert(0, os.path.abspath(_repo))      # scratch copy: the concrete twin must import it too
from pvc import registry as R, loader as LD

LEVELS = json.load(open(os.path.join(ROOT, 'levels.json'))) if os.path.exists(os.path.join(ROOT, 'levels.json')) else {}


def contract_module(pid):
    cands = sorted(glob.glob(os.path.join(ROOT, 'contracts', pid.lower() + '_*.py')))
    if not cands: raise SystemExit(f"no contract file for {pid}")
    return 'contracts.' + os.path.basename(cands[0])[:-3]


def load_findings():
    p = os.path.join(ROOT, 'known_findings.json')
    if not os.path.exists(p): return dict(findings=[], fixed=[])
    return json.load(open(p))


def _run_bounded(args):
    name, tier, seed, modname = args
    importlib.import_module(modname)
    ob = R.BOUNDED[name]
    t0 = time.time()
    try:
        import zlib
        r = ob.fn(random.Random(seed * 104729 + zlib.crc32(name.encode()) % 1000), tier)
        r = dict(r); r['name'] = name; r['wall'] = time.time() - t0; r.setdefault('failures', [])
        r['status'] = 'failed' if r['failures'] else 'passed'
        return r
    except Exception:
        return dict(name=name, status='crash', why=traceback.format_exc()[-3000:], wall=time.time() - t0, failures=[])


def main(argv):
    if argv and argv[0] == '--replay':
        return R.replay(argv[1])
    pid, tier = argv[0], (argv[1] if len(argv) > 1 else os.environ.get('VERIF_TIER', 'quick'))
    seed = int(os.environ.get('VERIF_SEED', '0') or 0)
    t0 = time.time()
    modname = contract_module(pid)
    mod = importlib.import_module(modname)
    obs = [o for o in R.OBLIGATIONS.values() if o.prop == pid and (tier == 'thorough' or not o.opts.get('thorough_only'))]
    bnd = [o for o in R.BOUNDED.values() if o.prop == pid and (tier == 'thorough' or not o.opts.get('thorough_only'))]
    only = os.environ.get('VERIF_ONLY')        # debugging aid only (never set by a registered command)
    if only:
        obs = [o for o in obs if only in o.name]; bnd = [o for o in bnd if only in o.name]
    meta = R.META.get(pid, {})
    nproc = int(os.environ.get('VERIF_JOBS', '16'))
    results = []; bres = []
    ctxm = mp.get_context('fork')
    with ctxm.Pool(nproc, maxtasksperchild=1) as pool:
        asyncs = [(o, pool.apply_async(R.run_ob, ((o.name, tier, seed, modname),))) for o in obs]
        basyncs = [(o, pool.apply_async(_run_bounded, ((o.name, tier, seed, modname),))) for o in bnd]
        budget = meta.get('timeout_s', {}).get(tier, 420 if tier == 'quick' else 3600)
        for o, a in asyncs:
            try:
                lim = o.opts.get('timeout', 200 if tier == 'quick' else 1800)
                left = budget - (time.time() - t0)
                results.append(a.get(timeout=max(5, min(left, lim - (time.time() - t0) if lim > (time.time() - t0) else 5))))
            except mp.TimeoutError:
                results.append(dict(name=o.name, status='undecided', why='time budget exceeded', functions=o.functions,
                                    canary=bool(o.opts.get('canary')), verdicts={}, wall=budget))
            except Exception:
                results.append(dict(name=o.name, status='crash', why=traceback.format_exc()[-2000:], functions=o.functions,
                                    canary=bool(o.opts.get('canary')), verdicts={}, wall=0))
        for o, a in basyncs:
            try:
                bres.append(a.get(timeout=max(5, budget - (time.time() - t0))))
            except mp.TimeoutError:
                bres.append(dict(name=o.name, status='crash', why='time budget exceeded', failures=[], wall=budget))
        pool.terminate()
    return report(pid, tier, seed, modname, obs, results, bres, meta, t0)


def report(pid, tier, seed, modname, obs, results, bres, meta, t0):
    known = load_findings()
    kf = [f for f in known.get('findings', []) if f['property'] == pid]
    scratch = os.path.abspath(os.environ.get('PYPOSE_REPO', '/repo')) != '/repo'
    evdir = os.path.join(ROOT, 'replays', '_scratch_evidence') if scratch else os.path.join(ROOT, 'evidence')   # evidence/ only ever describes /repo
    os.makedirs(evdir, exist_ok=True)
    rdir = os.path.join(ROOT, 'replays', pid)
    if not scratch:
        import shutil; shutil.rmtree(rdir, ignore_errors=True)      # stale replays of earlier runs are not evidence of this run
    n_ob = n_dis = n_known_ob = 0
    violations = []; known_hits = []; undecided = []; crashes = []
    canaries = dict(total=0, refuted=0)
    samples = []
    functions = set()
    gaps = []
    bounded_fallbacks = []
    val_points = val_compared = hp_checked = 0
    n_paths = 0
    smt_q = 0; smt_t = 0.0
    for r in results:
        for f in r.get('functions', []): functions.add(f)
        n_paths += r.get('n_paths', 0)
        v = r.get('validation') or {}
        val_points += v.get('points', 0); val_compared += v.get('compared', 0); hp_checked += v.get('hp_checked', 0)
        smt_q += (r.get('smt') or {}).get('queries', 0); smt_t += (r.get('smt') or {}).get('time', 0.0)
        rec = dict(obligation=r['name'], status=r['status'], paths=r.get('n_paths'), infeasible_paths=r.get('infeasible'),
                   clauses=r.get('verdicts'), ms=int(1000 * r.get('wall', 0)), mode='nf+z3', functions=r.get('functions'))
        if r.get('paths'):
            rec['path_conditions'] = [p['cond'] for p in r['paths']][:8]
            rec['atoms'] = sorted({a for p in r['paths'] for a in p['atoms']})[:20]
        if r.get('canary'):
            canaries['total'] += 1
            if r['status'] == 'failed':
                canaries['refuted'] += 1
            elif r['status'] == 'gap':
                undecided.append((r['name'], 'canary could not be run (engine gap): ' + '; '.join(r.get('gaps') or [])[:300]))
            else:
                crashes.append((r['name'], f"canary not refuted (status {r['status']}): {r.get('why', '')[:500]}"))
            rec['canary'] = True
            samples.append(rec)
            continue
        samples.append(rec)
        verd = r.get('verdicts') or {}
        if r['status'] in ('crash', 'engine-mismatch', 'vacuous'):
            why = r.get('why') or json.dumps([r.get('validation', {}).get('mismatches'), r.get('validation', {}).get('hp_mismatches')])[:1500]
            crashes.append((r['name'], f"{r['status']}: {why}"))
            continue
        if r['status'] == 'gap' or r.get('gaps'):
            gaps.append((r['name'], r.get('gaps')))
        if r['status'] == 'gap':
            fb = r.get('gap_fallback') or {}
            if fb.get('tried', 0) >= 50 and not fb.get('failed') and not fb.get('inconclusive'):
                # the model cannot express the (changed) code; the concrete twin of the same contract held on every sampled input of
                # the real code: recorded as a bounded fallback (not discharged, not an alarm)
                bounded_fallbacks.append(dict(obligation=r['name'], gap='; '.join(r.get('gaps') or [])[:300], concrete_twin_runs=fb['tried']))
                print(f"ENGINE-GAP {r['name']}: bounded fallback ({fb['tried']} runs of the concrete twin on the real code passed): " + '; '.join(r.get('gaps') or [])[:200])
            else:
                undecided.append((r['name'], 'engine gap: ' + '; '.join(r.get('gaps') or [])[:300] +
                                  (f" (concrete twin inconclusive at non-generic inputs: {fb.get('inconclusive')})" if fb.get('inconclusive') else '')))
            continue
        if r['status'] == 'undecided' and not verd:
            undecided.append((r['name'], r.get('why', 'undecided')))
            n_ob += 1
            continue
        for cname, vv in verd.items():
            n_ob += 1
            full = f"{r['name']}:{cname}"
            if vv == 'proved':
                n_dis += 1
            elif vv == 'unknown':
                undecided.append((full, json.dumps(r['details'].get(cname))[:300]))
            else:
                cx = (r.get('cex') or {}).get('found', {}).get(cname)
                hit = match_finding(kf, r['name'], cname, cx)
                if hit is not None:
                    known_hits.append((full, hit))
                    n_ob -= 1; n_known_ob += 1      # a recorded finding is reported separately, not as an open obligation
                    continue
                os.makedirs(rdir, exist_ok=True)
                rp = os.path.join(rdir, (r['name'] + '__' + cname).replace('/', '_').replace(':', '_') + '.json')
                json.dump(dict(property=pid, module=modname, obligation=r['name'], clause=cname,
                               sample=(cx or {}).get('sample'), dtype=(cx or {}).get('dtype', 'float64'),
                               observed=(cx or {}).get('detail'), detail=r['details'].get(cname),
                               functions=r.get('functions'), tried=(r.get('cex') or {}).get('tried'),
                               replay_cmd=f"./check --replay {os.path.relpath(rp, ROOT)}"), open(rp, 'w'), indent=1)
                violations.append((full, rp, cx is not None))
    bounded_out = []
    for b in bres:
        bounded_out.append({k: v for k, v in b.items() if k not in ('failures',)} | dict(n_failures=len(b.get('failures', []))))
        if b['status'] == 'crash':
            crashes.append((b['name'], b.get('why', '')[:1500]))
        if b.get('inconclusive'):
            undecided.append((b['name'], 'bounded stand-in not applicable to this source: ' + str(b['inconclusive'])[:300]))
        for fl in b.get('failures', []):
            sig = fl.get('signature', '')
            hit = match_finding(kf, b['name'], fl.get('clause', 'bounded'), fl)
            if hit is not None:
                if (b['name'], hit['id']) not in [(x[0], x[1]['id']) for x in known_hits]:
                    known_hits.append((b['name'], hit))
                continue
            os.makedirs(rdir, exist_ok=True)
            import re as _re
            rp = os.path.join(rdir, _re.sub(r'[^A-Za-z0-9_.=-]+', '_', b['name'] + '__' + fl.get('clause', 'bounded') + '__' + str(fl.get('signature', '')))[:150] + '.json')
            if not os.path.exists(rp) or True:
                json.dump(dict(property=pid, module=modname, bounded=b['name'], clause=fl.get('clause'), failure=fl,
                               replay_cmd=f"./check --replay {os.path.relpath(rp, ROOT)}"), open(rp, 'w'), indent=1, default=str)
            if not any(v[1] == rp for v in violations):
                violations.append((b['name'] + ':' + fl.get('clause', 'bounded'), rp, not fl.get('no_input')))
    minimum = meta.get('min_obligations', 1)
    if n_ob < minimum and not gaps and not os.environ.get('VERIF_ONLY'):      # obligations lost to an engine gap are reported as such above
        crashes.append(('vacuity', f'only {n_ob} obligations generated, registered minimum is {minimum}'))
    wall = time.time() - t0
    printed = []
    for full, hit in known_hits:
        line = f"KNOWN-FINDING: property={pid} {hit['id']}: {hit['text']}"
        if line not in printed:
            printed.append(line); print(line)
    for full, rp, has_input in violations:
        print(f"VIOLATION property={pid} replay={rp}" + ('' if has_input else ' no-failing-input-found'))
        print(f"  failed obligation: {full}")
    for nm, why in undecided: print(f"UNDECIDED {nm}: {why}")
    for nm, why in crashes: print(f"CHECKER-ERROR {nm}: {why}")
    level = meta.get('level', 'proof')
    ev = dict(
        property_id=pid, tier=tier, seed=seed, level=level,
        coverage=dict(
            obligations=n_ob, discharged=n_dis, obligations_failing_as_known_findings=n_known_ob,
            checker_cmd=f"./check {pid} {tier}",
            trusted_base=meta.get('trusted_base', []) + BASE_TRUST,
            samples=samples[:400],
            functions_under_contract=sorted(functions),
            paths_explored=n_paths,
            model_validation_points=val_points, model_validation_values_compared=val_compared,
            identities_rechecked_in_60_digit_arithmetic=hp_checked,
            canaries=canaries,
            backends=dict(nf='in-house exact normal form modulo relation ideal (decides identities)',
                          z3=f'z3 {z3_version()}: path feasibility, side conditions, inequalities; {smt_q} queries, {smt_t:.1f}s'),
            solver_time_s=round(smt_t, 2),
            bounded=bounded_out,
            engine_gaps=[g for g in gaps], engine_gap_bounded_fallbacks=bounded_fallbacks,
            known_findings_printed=[h['id'] for _, h in known_hits],
            undecided=[u[0] for u in undecided],
            extraction_drops=LD.DROPS,
            explanation=meta.get('explanation', ''),
            evaluations=sum(b.get('evaluations', 0) for b in bres) or None,
            distinct_nontrivial=sum(b.get('distinct_nontrivial', 0) for b in bres) or None,
            rule='; '.join(b.get('rule', '') for b in bres if b.get('rule')) or None,
        ),
        assumptions=meta.get('assumptions', []) + ['machine arithmetic treated as real arithmetic in all deductive obligations'],
        wall_s=round(wall, 2), violations=len(violations))
    ev['coverage'] = {k: v for k, v in ev['coverage'].items() if v is not None}
    json.dump(ev, open(os.path.join(evdir, f'{pid}.json'), 'w'), indent=1, default=str)
    print(f"{pid} {tier}: obligations={n_ob} discharged={n_dis} paths={n_paths} canaries={canaries['refuted']}/{canaries['total']} "
          f"bounded={len(bres)} known={len(printed)} violations={len(violations)} undecided={len(undecided)} errors={len(crashes)} wall={wall:.1f}s")
    if violations: return 1
    if crashes: return 3
    if undecided: return 2
    return 0


BASE_TRUST = [
    'CPython, numpy object arrays, sympy.factor_list (results re-checked)',
    'storch: the assumed real-arithmetic meaning of the torch subset (validated against real torch at a witness of every path, every run)',
    'exact-decimal reading of float literals; eps is a symbol with 0 < eps <= 2^-10',
    'atom axiom schemas (sin^2+cos^2=1, multiple-angle, exp/log, arctan, sqrt) - DESIGN.md 1.3, lean/Axioms.lean',
    'z3 5.1 for side conditions',
]


def z3_version():
    try:
        import z3; return z3.get_version_string()
    except Exception: return '?'


def match_finding(kf, obname, cname, cx):
    for f in kf:
        if f.get('obligation') == obname and (f.get('clause') in (None, cname)):
            sig = f.get('signature')
            if sig and cx is not None and isinstance(cx, dict) and cx.get('signature') and cx['signature'] != sig:
                continue
            return f
    return None


if __name__ == '__main__':
    sys.exit(main(sys.argv[1:]))
