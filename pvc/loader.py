"""Mechanical extraction of the real source.

On every run the current files under <repo>/pypose are read, parsed and exec'd unmodified
except for (a) float literals read as exact decimals, (b) `import` resolved to storch /
sibling extracted modules, (c) sidecar loop cuts (see loopcut.py).  Nothing is cached on
disk; nothing in /repo is touched.
"""
from __future__ import annotations
import ast, builtins, os, sys, types, importlib, hashlib
from fractions import Fraction as Q
from . import storch
from . import algebra as A

REPO = os.environ.get('PYPOSE_REPO', '/repo')

DROPS = [
    "import statements are resolved to the storch model (torch, torch.nn, torch.linalg, ...) or to sibling extracted modules",
    "float literals are read as exact decimal rationals (AST Constant rewrite only); a Python float produced at run time by int/int division of literals is read as the simplest rational that rounds to it (1/3, not 0.333...)",
    "torch.autograd.Function.apply = forward + setup_context (autograd engine not modelled); generate_vmap_rule, requires_grad, device, dtype, layout ignored",
    "torch.finfo(dtype).eps is one symbol eps with 0 < eps <= 2^-10 (covers float32 and float64)",
    "@torch.no_grad / enable_grad / jit.script decorators are no-ops",
    "loops are cut only where a sidecar loop contract exists (assert inv / havoc frame / assume inv / body once / assert inv)",
    "tensors are traced with one item (or a small concrete batch) per batch dimension",
]


class _FloatRewriter(ast.NodeTransformer):
    def visit_Constant(self, node):
        if isinstance(node.value, float):
            r = repr(node.value)
            if r in ('inf', '-inf', 'nan'): return node
            return ast.copy_location(
                ast.Call(func=ast.Name(id='__Q__', ctx=ast.Load()),
                         args=[ast.Constant(value=r)], keywords=[]), node)
        return node


def _Qconst(s):
    return Q(s)


class Loader:
    def __init__(self, repo=None, transforms=None):
        self.repo = repo or REPO
        self.mods = {}
        self.torch = build_torch()
        self.transforms = transforms or {}     # modname -> callable(ast.Module)->ast.Module
        self.sources = {}                      # modname -> (path, sha256)

    # ---- path resolution
    def _path(self, modname):
        rel = modname.replace('.', '/')
        p = os.path.join(self.repo, rel + '.py')
        if os.path.isfile(p): return p, False
        p = os.path.join(self.repo, rel, '__init__.py')
        if os.path.isfile(p): return p, True
        return None, False

    def load(self, modname):
        if modname in self.mods: return self.mods[modname]
        path, ispkg = self._path(modname)
        if path is None: raise ImportError(f"no extracted module {modname}")
        # parents first (python semantics)
        if '.' in modname:
            self.load(modname.rsplit('.', 1)[0])
            if modname in self.mods: return self.mods[modname]
        src = open(path).read()
        self.sources[modname] = (path, hashlib.sha256(src.encode()).hexdigest())
        tree = ast.parse(src, filename=path)
        tree = _FloatRewriter().visit(tree)
        tf = self.transforms.get(modname)
        if tf is not None: tree = tf(tree)
        ast.fix_missing_locations(tree)
        mod = types.ModuleType(modname)
        mod.__file__ = path
        mod.__package__ = modname if ispkg else modname.rsplit('.', 1)[0]
        if ispkg: mod.__path__ = [os.path.dirname(path)]
        b = dict(vars(builtins))
        b['__import__'] = self._import
        mod.__dict__['__builtins__'] = b
        mod.__dict__['__Q__'] = _Qconst
        from . import loopcut
        mod.__dict__['__pvc_loop__'] = loopcut.DISPATCH
        self.mods[modname] = mod
        if '.' in modname:
            parent, leaf = modname.rsplit('.', 1)
            setattr(self.mods[parent], leaf, mod)
        code = compile(tree, path, 'exec')
        try:
            exec(code, mod.__dict__)
        except BaseException:
            self.mods.pop(modname, None)
            raise
        return mod

    # ---- import hook
    def _import(self, name, globals=None, locals=None, fromlist=(), level=0):
        if level > 0:
            pkg = (globals or {}).get('__package__') or ''
            parts = pkg.split('.')
            if level > 1: parts = parts[:-(level - 1)]
            base = '.'.join(parts)
            full = base + ('.' + name if name else '')
        else:
            full = name
        top = full.split('.')[0]
        if top == 'torch':
            m = self._torch_mod(full)
            if fromlist: return m
            return self.torch
        if top == 'pypose':
            m = self.load(full)
            if fromlist:
                for n in fromlist:
                    if n == '*': continue
                    if not hasattr(m, n):
                        try: self.load(full + '.' + n)
                        except ImportError: pass
                return m
            return self.load(top) if level == 0 else m
        if full == 'math':
            return _math_shim()
        if top in ('bae',):
            raise ImportError(f"optional backend {top} not available")
        return importlib.__import__(name, globals, locals, fromlist, level)

    def _torch_mod(self, full):
        m = self.torch
        for part in full.split('.')[1:]:
            m = getattr(m, part)
        return m


def build_torch():
    st = storch
    mm = storch.make_module
    attrs = {k: v for k, v in vars(st).items() if not k.startswith('_')}
    attrs['__version__'] = '2.14.0'
    t = mm('torch', attrs)

    # pi must be looked up per context
    class _TorchMod(types.ModuleType):
        pass
    linalg = mm('torch.linalg', dict(
        norm=st.norm, cross=st._cross, det=st.det, inv=st.inverse, matmul=st.matmul, vecdot=st.vecdot,
        vector_norm=st.norm, matrix_norm=st.norm, solve=st.solve,
        pinv=st._ext('linalg.pinv'), lstsq=st._ext('linalg.lstsq'), svd=st._ext('linalg.svd'),
        cholesky=st._ext('linalg.cholesky'), cholesky_ex=st._ext('linalg.cholesky_ex'),
        eig=st._ext('linalg.eig'), eigh=st._ext('linalg.eigh'), qr=st._ext('linalg.qr'),
    ))
    t.linalg = linalg
    t.svd = st._ext('linalg.svd')
    t.pinverse = st._ext('linalg.pinv')
    t.cholesky_solve = st.cholesky_solve
    t.unique = st._ext('unique')
    t.randperm = st._ext('randperm')
    t.rand = st._ext('rand'); t.randn = st._ext('randn'); t.randint = st._ext('randint')
    t.rand_like = st._ext('rand_like'); t.randn_like = st._ext('randn_like')
    t.cdist = st._ext('cdist')
    t.multinomial = st._ext('multinomial')

    nn_utils = mm('torch.nn.modules.utils', dict(
        _single=lambda x: (x,) if not isinstance(x, tuple) else x,
        _pair=lambda x: (x, x) if not isinstance(x, tuple) else x,
        _triple=lambda x: (x, x, x) if not isinstance(x, tuple) else x,
        _quadruple=lambda x: (x, x, x, x) if not isinstance(x, tuple) else x,
        _ntuple=lambda n, name=None: (lambda x: tuple([x] * n) if not isinstance(x, tuple) else x)))
    class _Loss(st.Module):
        """torch.nn.modules.loss._Loss: a Module that stores the reduction mode"""
        def __init__(self, size_average=None, reduce=None, reduction='mean'):
            super().__init__()
            self.reduction = reduction
    nn_loss = mm('torch.nn.modules.loss', dict(_Loss=_Loss))
    nn_modules = mm('torch.nn.modules', dict(utils=nn_utils, Module=st.Module, loss=nn_loss))
    functional = mm('torch.nn.functional', dict(normalize=st._normalize, pad=st.pad, softplus=st.softplus))
    nn = mm('torch.nn', dict(Module=st.Module, Parameter=st.Parameter, modules=nn_modules, functional=functional))
    t.nn = nn

    def _jac_ext(name): return st._ext(name)
    ag_functional = mm('torch.autograd.functional', dict(jacobian=_jac_ext('autograd.functional.jacobian'),
                                                         jvp=_jac_ext('autograd.functional.jvp'),
                                                         vjp=_jac_ext('autograd.functional.vjp'),
                                                         hessian=_jac_ext('autograd.functional.hessian')))
    forward_ad = mm('torch.autograd.forward_ad', {})
    autograd = mm('torch.autograd', dict(Function=st.Function, functional=ag_functional, grad=_jac_ext('autograd.grad'),
                                         forward_ad=forward_ad))
    t.autograd = autograd
    t.func = mm('torch.func', dict(jacrev=_jac_ext('func.jacrev'), jacfwd=_jac_ext('func.jacfwd'),
                                   functional_call=_functional_call, vmap=_jac_ext('func.vmap')))
    t.optim = mm('torch.optim', dict(Optimizer=st.Optimizer))
    pytree = mm('torch.utils._pytree', dict(tree_map=_tree_map, tree_flatten=_tree_flatten))
    t.utils = mm('torch.utils', dict(_pytree=pytree))
    t.jit = mm('torch.jit', dict(script=lambda f=None, *a, **k: f))
    t.sparse = mm('torch.sparse', {})
    t.distributions = mm('torch.distributions', dict(MultivariateNormal=st._ext('MultivariateNormal')))
    t.Tensor = st.Tensor
    t.Size = st.Size
    t.dtype = st.dtype
    t.device = st.device
    t.strided = 'strided'; t.sparse_coo = 'sparse_coo'; t.sparse_csr = 'sparse_csr'; t.sparse_bsr = 'sparse_bsr'
    t.sparse_csc = 'sparse_csc'; t.sparse_bsc = 'sparse_bsc'
    t.preserve_format = 'preserve_format'

    # torch.pi: a fresh lookup per access (atom of the current context)
    base_getattr = t.__getattr__
    def __getattr__(n):
        if n == 'pi': return st._pi()
        return base_getattr(n)
    t.__getattr__ = __getattr__
    t.__dict__.pop('pi', None)
    return t


def _tree_flatten(x):
    out = []
    def rec(y):
        if isinstance(y, (list, tuple)):
            for z in y: rec(z)
        elif isinstance(y, dict):
            for z in y.values(): rec(z)
        else: out.append(y)
    rec(x)
    return out, None

def _tree_map(f, x):
    if isinstance(x, tuple) and hasattr(x, '_fields'): return type(x)(*[_tree_map(f, y) for y in x])
    if isinstance(x, tuple): return tuple(_tree_map(f, y) for y in x)
    if isinstance(x, list): return [_tree_map(f, y) for y in x]
    if isinstance(x, dict): return {k: _tree_map(f, v) for k, v in x.items()}
    return f(x)

def _functional_call(model, params_and_buffers, args, kwargs=None):
    raise storch.EngineGap("functional_call is not modelled (modjac is stubbed by contract)")


_MATH = None
def _math_shim():
    """`math` with exp/log/sqrt/log2 lifted to exact scalars (Fraction / Frac arguments give atoms)"""
    global _MATH
    if _MATH is not None: return _MATH
    import math as _m, types as _t
    from . import atoms as AT
    from .algebra import Frac
    m = _t.ModuleType('math')
    m.__dict__.update({k: v for k, v in vars(_m).items() if not k.startswith('__')})
    def lift(name, f):
        real = getattr(_m, name)
        def g(x, *a):
            if isinstance(x, (Q, Frac)) or (isinstance(x, storch.Tensor)):
                v = x.item() if isinstance(x, storch.Tensor) else x
                r = f(Frac.of(v))
                return r
            return real(x, *a)
        return g
    m.exp = lift('exp', AT.exp); m.log = lift('log', AT.log); m.sqrt = lift('sqrt', AT.sqrt)
    m.atan = lift('atan', AT.atan); m.sin = lift('sin', AT.sin); m.cos = lift('cos', AT.cos)
    def log2(x):
        if isinstance(x, Frac) and x.is_const(): x = x.cval()
        return _m.log2(x)
    m.log2 = log2
    _MATH = m
    return m
