"""Static frame analysis: contract `assigns \\nothing` for tensor arguments.

Interprocedural may-alias / effect analysis on the AST of the current /repo source (re-read every run).
 * alias propagation: views keep aliasing (indexing, .tensor(), as_subclass, LieTensor(x), view/reshape/
   unsqueeze/squeeze/expand/transpose/permute/.T/.mT/detach/contiguous/to/type/flatten/narrow/select/
   diagonal/atleast_*d, tuple/conditional expressions, calls of repo functions that return an alias)
 * in-place sinks on something that may alias a parameter: x[...] = v, x op= v, x.method_(...), out=x,
   passing it to a repo function whose summary mutates that parameter.
A function with no flagged parameter satisfies the frame contract under the alias table (listed as the
assumption).  A flagged parameter is confirmed or dismissed by replay on the real code.
"""
from __future__ import annotations
import ast, os

VIEW_METHODS = {'tensor', 'view', 'view_as', 'reshape', 'unsqueeze', 'squeeze', 'expand', 'expand_as', 'transpose', 'permute',
                'detach', 'contiguous', 'to', 'type', 'type_as', 'flatten', 'narrow', 'select', 'diagonal', 'lview', 'float', 'double',
                'cpu', 'cuda', 'unbind', 'split', 'chunk', 'movedim', 'swapaxes', 't', 'as_subclass', 'rotation', 'translation', 'scale',
                'requires_grad_', 'squeeze_', 'unsqueeze_'}
VIEW_ATTRS = {'T', 'mT', 'data', 'H', 'mH', 'real'}
VIEW_FUNCS = {'as_subclass', 'atleast_1d', 'atleast_2d', 'atleast_3d', 'LieTensor', 'SO3', 'SE3', 'Sim3', 'RxSO3', 'so3', 'se3', 'sim3', 'rxso3',
              'view_as_real', 'squeeze', 'unsqueeze', 'transpose', 'reshape', 'flatten', 'Parameter', 'toBTN'}
NONMUTATING_INPLACE = {'requires_grad_', 'share_memory_', 'retain_grad', 'squeeze_', 'unsqueeze_', 'detach_', 'register_buffer_'}


class FuncInfo:
    def __init__(self, mod, qual, node, cls):
        self.mod, self.qual, self.node, self.cls = mod, qual, node, cls
        self.params = [a.arg for a in node.args.posonlyargs + node.args.args + node.args.kwonlyargs]
        if node.args.vararg: self.params.append(node.args.vararg.arg)
        self.mutates = {}       # param name -> list of (lineno, what)
        self.returns_alias = set()

    @property
    def name(self): return self.node.name


def collect(repo):
    funcs = []
    root = os.path.join(repo, 'pypose')
    for dp, dn, fn in os.walk(root):
        for f in fn:
            if not f.endswith('.py'): continue
            path = os.path.join(dp, f)
            mod = os.path.relpath(path, repo)[:-3].replace('/', '.')
            try:
                tree = ast.parse(open(path).read())
            except SyntaxError:
                continue
            def walk(body, prefix, cls):
                for n in body:
                    if isinstance(n, (ast.FunctionDef, ast.AsyncFunctionDef)):
                        funcs.append(FuncInfo(mod, prefix + n.name, n, cls))
                        walk(n.body, prefix + n.name + '.', cls)
                    elif isinstance(n, ast.ClassDef):
                        walk(n.body, prefix + n.name + '.', n.name)
            walk(tree.body, '', None)
    return funcs


class Analyzer:
    def __init__(self, repo):
        self.funcs = collect(repo)
        self.byname = {}
        for f in self.funcs:
            self.byname.setdefault(f.name, []).append(f)

    def run(self):
        for _ in range(6):
            changed = False
            for f in self.funcs:
                if self.analyze(f): changed = True
            if not changed: break
        return self.funcs

    # ---- aliases of an expression: set of parameter names
    def aliases(self, e, A):
        if isinstance(e, ast.Name): return set(A.get(e.id, ()))
        if isinstance(e, ast.Subscript): return self.aliases(e.value, A)
        if isinstance(e, ast.Starred): return self.aliases(e.value, A)
        if isinstance(e, ast.Attribute):
            if e.attr in VIEW_ATTRS: return self.aliases(e.value, A)
            return set()
        if isinstance(e, (ast.Tuple, ast.List)):
            s = set()
            for x in e.elts: s |= self.aliases(x, A)
            return s
        if isinstance(e, ast.IfExp): return self.aliases(e.body, A) | self.aliases(e.orelse, A)
        if isinstance(e, ast.BoolOp):
            s = set()
            for x in e.values: s |= self.aliases(x, A)
            return s
        if isinstance(e, ast.NamedExpr): return self.aliases(e.value, A)
        if isinstance(e, ast.Call):
            fn = e.func
            if isinstance(fn, ast.Attribute):
                if fn.attr in VIEW_METHODS:
                    s = self.aliases(fn.value, A)
                    if fn.attr == 'as_subclass' and e.args: s |= self.aliases(e.args[0], A)
                    return s
                if fn.attr in VIEW_FUNCS and e.args:
                    return self.aliases(e.args[0], A)
                cal = self.byname.get(fn.attr, [])
                s = set()
                for g in cal:
                    # method call: receiver is param 0 (self) for methods
                    args = ([fn.value] if g.cls else []) + list(e.args)
                    for i, a in enumerate(args):
                        if i < len(g.params) and g.params[i] in g.returns_alias: s |= self.aliases(a, A)
                return s
            if isinstance(fn, ast.Name):
                if fn.id in VIEW_FUNCS and e.args: return self.aliases(e.args[0], A)
                s = set()
                for g in self.byname.get(fn.id, []):
                    args = list(e.args)
                    off = 1 if g.cls and g.params and g.params[0] in ('self', 'cls') else 0
                    for i, a in enumerate(args):
                        j = i + off
                        if j < len(g.params) and g.params[j] in g.returns_alias: s |= self.aliases(a, A)
                    for kw in e.keywords:
                        if kw.arg in g.returns_alias: s |= self.aliases(kw.value, A)
                return s
        return set()

    def analyze(self, f):
        A = {p: {p} for p in f.params}
        before = ({k: len(v) for k, v in f.mutates.items()}, set(f.returns_alias))
        body = f.node.body
        # alias propagation to a fixpoint (flow-insensitive)
        for _ in range(4):
            ch = False
            for n in ast.walk(f.node):
                if n is not f.node and isinstance(n, (ast.FunctionDef, ast.Lambda, ast.ClassDef)): continue
                tgts = None; val = None
                if isinstance(n, ast.Assign): tgts, val = n.targets, n.value
                elif isinstance(n, ast.AnnAssign) and n.value is not None: tgts, val = [n.target], n.value
                elif isinstance(n, ast.NamedExpr): tgts, val = [n.target], n.value
                elif isinstance(n, (ast.For,)): tgts, val = [n.target], n.iter
                elif isinstance(n, ast.With):
                    for it in n.items:
                        if it.optional_vars is not None:
                            s = self.aliases(it.context_expr, A)
                            for t in ast.walk(it.optional_vars):
                                if isinstance(t, ast.Name) and not s <= A.get(t.id, set()):
                                    A.setdefault(t.id, set()).update(s); ch = True
                    continue
                if tgts is None: continue
                for t in tgts:
                    pairs = []
                    if isinstance(t, (ast.Tuple, ast.List)) and isinstance(val, (ast.Tuple, ast.List)) and len(t.elts) == len(val.elts):
                        pairs = list(zip(t.elts, val.elts))
                    else:
                        pairs = [(t, val)]
                    for tt, vv in pairs:
                        s = self.aliases(vv, A)
                        for x in ([tt] if isinstance(tt, ast.Name) else [y for y in ast.walk(tt) if isinstance(y, ast.Name) and isinstance(y.ctx, ast.Store)]):
                            if isinstance(x, ast.Name) and not s <= A.get(x.id, set()):
                                A.setdefault(x.id, set()).update(s); ch = True
            if not ch: break
        # sinks
        mut = {}
        def flag(ps, node, what):
            for p in ps:
                if p in ('self', 'cls'): continue
                mut.setdefault(p, []).append((getattr(node, 'lineno', 0), what))
        for n in ast.walk(f.node):
            if isinstance(n, ast.Assign):
                for t in n.targets:
                    for x in ([t] if not isinstance(t, (ast.Tuple, ast.List)) else t.elts):
                        if isinstance(x, ast.Subscript): flag(self.aliases(x.value, A), n, 'x[...] = v')
            elif isinstance(n, ast.AugAssign):
                if isinstance(n.target, ast.Name): flag(A.get(n.target.id, set()), n, f'{n.target.id} op= v')
                elif isinstance(n.target, ast.Subscript): flag(self.aliases(n.target.value, A), n, 'x[...] op= v')
                elif isinstance(n.target, ast.Attribute): pass
            elif isinstance(n, ast.Call):
                fn = n.func
                for kw in n.keywords:
                    if kw.arg == 'out': flag(self.aliases(kw.value, A), n, 'out=')
                if isinstance(fn, ast.Attribute):
                    if fn.attr.endswith('_') and not fn.attr.startswith('__') and fn.attr not in NONMUTATING_INPLACE and fn.attr not in self.byname:
                        flag(self.aliases(fn.value, A), n, f'.{fn.attr}()')
                    for g in self.byname.get(fn.attr, []):
                        args = ([fn.value] if g.cls else []) + list(n.args)
                        for i, a in enumerate(args):
                            if i < len(g.params) and g.params[i] in g.mutates:
                                flag(self.aliases(a, A), n, f'passed to {g.qual}({g.params[i]})')
                        for kw in n.keywords:
                            if kw.arg in g.mutates: flag(self.aliases(kw.value, A), n, f'passed to {g.qual}({kw.arg})')
                elif isinstance(fn, ast.Name):
                    for g in self.byname.get(fn.id, []):
                        off = 1 if g.cls and g.params and g.params[0] in ('self', 'cls') else 0
                        for i, a in enumerate(n.args):
                            j = i + off
                            if j < len(g.params) and g.params[j] in g.mutates:
                                flag(self.aliases(a, A), n, f'passed to {g.qual}({g.params[j]})')
                        for kw in n.keywords:
                            if kw.arg in g.mutates: flag(self.aliases(kw.value, A), n, f'passed to {g.qual}({kw.arg})')
        ra = set()
        for n in ast.walk(f.node):
            if isinstance(n, ast.Return) and n.value is not None:
                ra |= self.aliases(n.value, A)
        f.mutates = mut
        f.returns_alias = {p for p in ra}
        after = ({k: len(v) for k, v in f.mutates.items()}, set(f.returns_alias))
        return after != before


def public(f):
    parts = f.qual.split('.')
    if any(p.startswith('_') and not (p.startswith('__') and p.endswith('__')) for p in parts): return False
    if f.name.endswith('_') and not f.name.endswith('__'): return False
    if f.name in ('__init__', '__new__', '__setitem__', '__iadd__', '__isub__', '__imul__'): return False
    return True
