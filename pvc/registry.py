"""Contracts registry, obligation runner, evidence, findings, replay."""
from __future__ import annotations
import os, sys, json, time, random, traceback, importlib, multiprocessing as mp, hashlib, signal
from fractions import Fraction as Q
import mpmath
from mpmath import mpf
from . import algebra as A, atoms as AT, storch as st, smt, engine as E, loader as LD

ROOT = os.path.dirname(os.path.dirname(os.path.abspath(__file__)))
OBLIGATIONS = {}
BOUNDED = {}
META = {}


class Ob:
    def __init__(self, name, fn, functions, opts):
        self.name, self.fn, self.functions, self.opts = name, fn, list(functions), opts
        self.prop = name.split('.')[0]


def obligation(name, functions=(), **opts):
    """register a deductive obligation: fn(env) states pre/post conditions on real functions.
    opts: max_paths, tol (numeric twin), canary (must be refuted), samples (numeric twin count),
          expect_raise, level ('proof' default), note"""
    def deco(fn):
        assert name not in OBLIGATIONS, name
        OBLIGATIONS[name] = Ob(name, fn, functions, opts)
        return fn
    return deco


def bounded(name, functions=(), **opts):
    """register a bounded stand-in: fn(rng, tier) -> dict(evaluations, distinct_nontrivial, rule, bound,
    failures=[{...}], samples=[...]).  Never counted as discharged."""
    def deco(fn):
        assert name not in BOUNDED, name
        BOUNDED[name] = Ob(name, fn, functions, opts)
        return fn
    return deco


def property_meta(pid, **kw):
    META[pid] = kw


# --------------------------------------------------------------------------
# running one obligation (in a worker process)
# --------------------------------------------------------------------------

def _jsonable(x):
    if isinstance(x, (str, int, float, bool)) or x is None: return x
    if isinstance(x, Q): return str(x)
    if isinstance(x, (list, tuple)): return [_jsonable(y) for y in x]
    if isinstance(x, dict): return {str(k): _jsonable(v) for k, v in x.items()}
    return repr(x)[:400]


def _validate_path(ob, p, eps_value):
    """model validation: symbolic lhs values at the witness vs. real torch on the real code"""
    wit = p['witness']
    if not wit: return None
    num = E.run_numeric(ob.fn, sample=wit['sample'], tol=ob.opts.get('tol', 1e-7))
    ctx = p['ctx']
    A.set_ctx(ctx)
    sv = E.symvals_from_sample(p['decls'], wit['sample'])
    if ctx.eps is not None:
        sv[list(ctx.eps.num.vars())[0]] = mpf(eps_value)
    try:
        val = AT.valuation(sv)
    except Exception as e:
        return dict(ok=None, why=f'valuation failed: {e}')
    mism = []
    compared = 0
    for cname, vals in p['values'].items():
        nv = num['values'].get(cname)
        if nv is None or len(nv) != len(vals): continue
        for a, b in zip(vals, nv):
            if isinstance(a, A.Inf): continue
            try:
                x = float(a.evalf(val))
            except ZeroDivisionError:
                continue
            compared += 1
            if not (abs(x - b) <= 1e-6 * (1 + abs(x))):
                mism.append((cname, x, b))
    # independent re-check of every identity proved by the normal form: both sides evaluated with 60-digit arithmetic at the witness
    hp_bad = []; hp_n = 0
    proved = {c for c, s_, _ in p['clauses'] if s_ == 'proved'}
    for cname, rv in (p.get('rhs_values') or {}).items():
        if cname not in proved: continue
        for a, b in zip(p['values'].get(cname, []), rv):
            if isinstance(a, A.Inf) or isinstance(b, A.Inf): continue
            try:
                x, y = a.evalf(val), A.Frac.of(b).evalf(val)
            except (ZeroDivisionError, ValueError):
                continue
            if x != x or y != y: continue
            hp_n += 1
            if abs(x - y) > mpf(10) ** -25 * (1 + abs(x)):
                hp_bad.append((cname, float(x), float(y)))
    return dict(ok=not mism, compared=compared, mismatches=mism[:5], num=num, hp_checked=hp_n, hp_bad=hp_bad[:5])


def run_ob(args):
    name, tier, seed, modname = args
    importlib.import_module(modname)
    ob = OBLIGATIONS[name]
    t0 = time.time()
    import io, contextlib
    with contextlib.redirect_stdout(io.StringIO()):
        return _run_ob(ob, name, tier, seed, t0)


def _run_ob(ob, name, tier, seed, t0):
    out = dict(name=name, functions=ob.functions, canary=bool(ob.opts.get('canary')), note=ob.opts.get('note'))
    eps_value = 2.0 ** -52
    try:
        tfs = dict(ob.opts.get('transforms') or {})
        for modn, loops in (ob.opts.get('loops') or {}).items():
            from . import loopcut
            tfs[modn] = loopcut.make_transform(loops)
        loader = LD.Loader(transforms=tfs)
        res = E.run_symbolic(ob.fn, loader, max_paths=ob.opts.get('max_paths', 64), seed=seed,
                             z3_timeout=ob.opts.get('z3_timeout', 2000), eps_value=eps_value, first_only=bool(ob.opts.get('first_path_only')))
    except (E.PathLimit, AT.EngineGap) as e:
        out.update(status='undecided', why=str(e), wall=time.time() - t0); return out
    except Exception as e:
        out.update(status='crash', why=traceback.format_exc()[-3000:], wall=time.time() - t0); return out
    clause_stat = {}      # clause -> list of statuses over paths
    details = {}
    paths_out = []
    gaps = []
    validation = dict(points=0, compared=0, mismatches=[])
    unexpected = []
    for i, p in enumerate(res['paths']):
        if p['outcome'] == 'gap':
            gaps.append(p['error'])
        if p['outcome'] == 'raised':
            unexpected.append((i, p['error']))
        for cname, stt, det in p['clauses']:
            if stt == 'failed' and not p['witness'] and p['decls']:
                stt = 'unknown'      # failing only on a path nobody could witness: possibly infeasible -> undecided
                det = {'unwitnessed_path': p['cond'], 'detail': det}
            clause_stat.setdefault(cname, []).append((i, stt))
            if stt != 'proved': details.setdefault(cname, []).append((i, det))
        v = None
        if p['outcome'] == 'ok' and not ob.opts.get('no_validate'):
            try:
                v = _validate_path(ob, p, eps_value)
            except Exception as e:
                v = dict(ok=None, why='validation crashed: ' + traceback.format_exc()[-800:])
        if v and v.get('hp_bad'):
            validation.setdefault('hp_mismatches', []).append((i, v['hp_bad']))
        if v: validation['hp_checked'] = validation.get('hp_checked', 0) + v.get('hp_checked', 0)
        if v and v.get('ok') is not None:
            validation['points'] += 1; validation['compared'] += v['compared']
            if not v['ok']:
                regs = set((p['witness'] or {}).get('regimes') or [])
                if regs <= {'generic', 'large', 'identity', 'zero'}:
                    validation['mismatches'].append((i, v['mismatches']))
                else:
                    # exact real arithmetic vs float64 of the real code at a tiny / near-singular input:
                    # a round-off discrepancy of the code, not a model error
                    validation.setdefault('float_discrepancies', []).append((i, sorted(regs), v['mismatches'][:2]))
        paths_out.append(dict(i=i, cond=p['cond'], outcome=p['outcome'], witness=bool(p['witness']),
                              regimes=(p['witness'] or {}).get('regimes'), atoms=p['atoms'],
                              clauses=[(c, s) for c, s, _ in p['clauses']]))
    out['paths'] = paths_out
    out['n_paths'] = len(res['paths']); out['infeasible'] = res['infeasible']
    out['validation'] = validation
    out['gaps'] = gaps
    # clause verdicts
    verdicts = {}
    for cname, sts in clause_stat.items():
        ss = {s for _, s in sts}
        if 'failed' in ss: verdicts[cname] = 'failed'
        elif 'unknown' in ss: verdicts[cname] = 'unknown'
        else: verdicts[cname] = 'proved'
    for i, err in unexpected:
        verdicts['no_unexpected_exception'] = 'failed'
        details.setdefault('no_unexpected_exception', []).append((i, err))
    out['verdicts'] = verdicts
    out['details'] = _jsonable({k: v[:3] for k, v in details.items()})
    # counterexample search for failed clauses
    cex = {}
    failed = [c for c, v in verdicts.items() if v == 'failed']
    if failed and not ob.opts.get('canary'):
        cex = find_counterexamples(ob, res, failed, seed, n=ob.opts.get('cex_samples', 300))
    # a clause failed by an over-approximating argument (needs_cex) is a violation only with a failing input of the real code
    for cname in failed:
        over = [d for _, d in details.get(cname, []) if isinstance(d, dict) and d.get('needs_cex')]
        if over and len(over) == len(details.get(cname, [])) and cname not in (cex.get('found') or {}):
            verdicts[cname] = 'unknown'
    # a clause refuted symbolically on a path nobody could WITNESS (a narrow band, an equality) is undecided - unless the concrete twin of
    # the same contract finds a failing input of the real code for that very clause, which is a violation with a replay
    unw = [c for c, v in verdicts.items() if v == 'unknown'
           and any(isinstance(d, dict) and 'unwitnessed_path' in d for _, d in details.get(c, []))]
    if unw and not ob.opts.get('canary'):
        cx = find_counterexamples(ob, res, unw, seed + 1, n=ob.opts.get('cex_samples', 300))
        for cname, rec in (cx.get('found') or {}).items():
            verdicts[cname] = 'failed'
            if not isinstance(cex, dict) or not cex: cex = dict(found={}, tried=0)
            cex.setdefault('found', {})[cname] = rec
        failed = [c for c, v in verdicts.items() if v == 'failed']
    out['verdicts'] = verdicts
    out['cex'] = cex
    # engine gap: the model cannot express the (changed) code.  Fall back to the concrete twin of the same contract on the
    # real code (bounded, labelled); a failing input found there is a genuine violation of the contract with a replay.
    if gaps and not ob.opts.get('canary'):
        fb = numeric_fallback(ob, seed, n=ob.opts.get('gap_samples', 200))
        out['gap_fallback'] = dict(tried=fb['tried'], failed=sorted(fb['found']), inconclusive=sorted(fb['suspect']))
        for cname, rec in fb['found'].items():
            verdicts[cname] = 'failed'
            cex.setdefault('found', {})[cname] = rec
            details.setdefault(cname, []).append((-1, {'bounded_fallback_after_engine_gap': gaps[0][:200]}))
        out['verdicts'] = verdicts; out['cex'] = cex if isinstance(cex, dict) else {}
        out['details'] = _jsonable({k: v[:3] for k, v in details.items()})
        failed = [c for c, v in verdicts.items() if v == 'failed']
    if gaps and not verdicts: st_ = 'gap'
    elif validation['mismatches'] or validation.get('hp_mismatches'): st_ = 'engine-mismatch'
    elif failed: st_ = 'failed'
    elif 'unknown' in verdicts.values(): st_ = 'undecided'
    elif gaps: st_ = 'gap'
    elif not verdicts: st_ = 'vacuous'
    else: st_ = 'proved'
    out['status'] = st_
    out['wall'] = time.time() - t0
    out['smt'] = dict(smt.STATS)
    return out


GENERIC_REGIMES = {'generic', 'large', 'identity', 'zero'}


def numeric_fallback(ob, seed, n=200):
    """concrete twin of the contract on the real code over all regimes.  A failure at an input whose regimes are all generic-like is a
    finding; a failure at a tiny / near-singular input is not trusted (finite-difference and round-off artefacts of the twin itself,
    same policy as model validation) and only makes the obligation undecided."""
    rng = random.Random(seed * 31337 + 7)
    found = {}; suspect = {}; tried = 0
    for k in range(n):
        tried += 1
        r = E.run_numeric(ob.fn, sample=None, tol=ob.opts.get('tol', 1e-7), rng=rng)
        trusted = set(r.get('regimes', {}).values()) <= GENERIC_REGIMES
        tgt = found if trusted else suspect
        for cname, stt, det in r['clauses']:
            if stt == 'failed' and cname not in tgt:
                tgt[cname] = dict(sample=_jsonable(r['sample']), dtype='float64', detail=_jsonable(det), regimes=sorted(set(r.get('regimes', {}).values())))
        if r['outcome'] == 'raised' and 'no_unexpected_exception' not in tgt:
            tgt['no_unexpected_exception'] = dict(sample=_jsonable(r['sample']), dtype='float64', detail=r['error'])
    if any(k not in found for k in suspect):
        # look for the same failures at generic inputs only (every declared input in its generic regime)
        gen = lambda d, r: ('generic' if 'generic' in d.regimes else d.regimes[0])
        for k in range(max(50, n // 2)):
            tried += 1
            r = E.run_numeric(ob.fn, sample=None, tol=ob.opts.get('tol', 1e-7), rng=rng, regime=gen)
            for cname, stt, det in r['clauses']:
                if stt == 'failed' and cname not in found:
                    found[cname] = dict(sample=_jsonable(r['sample']), dtype='float64', detail=_jsonable(det), regimes=['generic'])
            if r['outcome'] == 'raised' and 'no_unexpected_exception' not in found:
                found['no_unexpected_exception'] = dict(sample=_jsonable(r['sample']), dtype='float64', detail=r['error'])
            if all(k2 in found for k2 in suspect): break
    return dict(found=found, tried=tried, suspect={k: v for k, v in suspect.items() if k not in found})


def find_counterexamples(ob, res, failed, seed, n=300):
    """run the concrete twin of the contract on the real code; first the witnesses of failing
    paths, then random inputs over all regimes"""
    rng = random.Random(seed * 7919 + 13)
    found = {}
    tried = 0
    samples = []
    for p in res['paths']:
        if p['witness'] and any(c in failed and s == 'failed' for c, s, _ in p['clauses']):
            samples.append(p['witness']['sample'])
        if p['witness'] and p['outcome'] == 'raised':
            samples.append(p['witness']['sample'])
    for k in range(n):
        samples.append(None)
    for smp in samples:
        for dtype in ('float64',):
            tried += 1
            r = E.run_numeric(ob.fn, sample=smp, tol=ob.opts.get('tol', 1e-7), dtype=dtype, rng=rng)
            for cname, stt, det in r['clauses']:
                if stt == 'failed' and cname in failed and cname not in found:
                    found[cname] = dict(sample=_jsonable(r['sample']), dtype=dtype, detail=_jsonable(det))
            if r['outcome'] == 'raised' and 'no_unexpected_exception' in failed and 'no_unexpected_exception' not in found:
                found['no_unexpected_exception'] = dict(sample=_jsonable(r['sample']), dtype=dtype, detail=r['error'])
        if len(found) == len(failed): break
    return dict(found=found, tried=tried)


def replay(path):
    d = json.load(open(path))
    importlib.import_module(d['module'])
    if 'bounded' in d:
        ob = BOUNDED[d['bounded']]
        r = ob.fn(random.Random(0), 'quick')
        sig = (d.get('failure') or {}).get('signature')
        hit = [f for f in r.get('failures', []) if f.get('clause') == d.get('clause') and (sig is None or f.get('signature') == sig)]
        print(f"replay bounded stand-in {d['bounded']} clause {d.get('clause')} on the real code")
        if hit:
            print(f"  REPRODUCED: {json.dumps(hit[0], default=str)[:800]}"); return 1
        print("  not reproduced"); return 0
    ob = OBLIGATIONS[d['obligation']]
    if not d.get('sample'):
        print(f"replay: obligation {d['obligation']} clause {d['clause']}: no failing input recorded "
              f"(no-failing-input-found); solver output:\n{json.dumps(d.get('detail'), indent=1)[:2000]}")
        return 1
    r = E.run_numeric(ob.fn, sample=d['sample'], tol=ob.opts.get('tol', 1e-7), dtype=d.get('dtype', 'float64'))
    bad = [(c, s, det) for c, s, det in r['clauses'] if c == d['clause'] and s == 'failed']
    if d['clause'] == 'no_unexpected_exception' and r['outcome'] == 'raised':
        bad = [('no_unexpected_exception', 'failed', r['error'])]
    print(f"replay {d['obligation']}:{d['clause']} on the real code (torch {d.get('dtype', 'float64')})")
    print(f"  input: {json.dumps(d['sample'])[:800]}")
    if bad:
        print(f"  REPRODUCED: {json.dumps(_jsonable(bad[0][2]))[:800]}")
        return 1
    print("  not reproduced (clause holds on this input now)")
    return 0
