"""Exact scalar domain of the verifier.

Scalars are fractions  N / (f1^e1 ... fk^ek)  of sparse polynomials over Q in
*input symbols* and *atoms* (transcendental/algebraic function values).  Atoms
carry polynomial relations  v^k -> tail  (a Groebner basis with pairwise coprime
pure-power leading monomials), sign facts and derivation rules.  Reduction to
normal form modulo the relations decides identities.

Everything here is context-relative: `CTX` is the current `Ctx` (one per traced
path of one obligation).
"""
from __future__ import annotations
from fractions import Fraction as Q
import math, itertools
from mpmath import mpf, mp
mp.dps = 60

# --------------------------------------------------------------------------
# context
# --------------------------------------------------------------------------

class Ctx:
    def __init__(self):
        self.names = []          # vid -> name
        self.kind = []           # vid -> 'sym' | atom kind
        self.info = []           # vid -> dict (atom payload)
        self.rules = {}          # vid -> (k, tail Poly):  v^k -> tail
        self.facts = []          # list[Cond] true in every state (type invariants, atom ranges)
        self.deriv = {}          # vid -> callable(wrt_vid)->Frac   (atoms only)
        self.numeric = {}        # vid -> callable(valuation dict)->mp number  (atoms only)
        self.angle_bases = []    # list of (base Frac, svid, cvid)
        self.exp_bases = []      # list of (base Frac, vid)
        self.atom_tab = []       # list of (kind, arg Frac, value) for lookup
        self.byname = {}
        self.lazy = False        # True: no eager reduction (certificate mode)
        self.eps = None
        self.pending = []        # side obligations generated while tracing (safety etc.)

    def newvar(self, name, kind='sym', **info):
        if name in self.byname:
            i = 1
            while f"{name}_{i}" in self.byname:
                i += 1
            name = f"{name}_{i}"
        vid = len(self.names)
        self.names.append(name); self.kind.append(kind); self.info.append(info)
        self.byname[name] = vid
        return vid

    def sym(self, name, **info):
        return Frac.var(self.newvar(name, 'sym', **info))

    def add_rule(self, vid, k, tail):
        """v^k -> tail ; tail must not contain v^j, j>=k"""
        assert isinstance(tail, Poly)
        self.rules[vid] = (k, tail)

    def add_fact(self, cond):
        if isinstance(cond, bool):
            assert cond, "contradictory fact"
            return
        self.facts.append(cond)


CTX: Ctx = Ctx()

def set_ctx(c):
    global CTX
    CTX = c
    return c

def ctx():
    return CTX

# --------------------------------------------------------------------------
# monomials / polynomials
# --------------------------------------------------------------------------

def mono_mul(a, b):
    if not a: return b
    if not b: return a
    out = []; i = j = 0; la = len(a); lb = len(b)
    while i < la and j < lb:
        va, ea = a[i]; vb, eb = b[j]
        if va == vb:
            out.append((va, ea + eb)); i += 1; j += 1
        elif va < vb:
            out.append(a[i]); i += 1
        else:
            out.append(b[j]); j += 1
    if i < la: out.extend(a[i:])
    if j < lb: out.extend(b[j:])
    return tuple(out)

def mono_div(a, b):
    """a / b or None"""
    d = dict(a)
    for v, e in b:
        k = d.get(v, 0) - e
        if k < 0: return None
        if k == 0: d.pop(v)
        else: d[v] = k
    return tuple(sorted(d.items()))

def mono_gcd(a, b):
    db = dict(b)
    return tuple((v, min(e, db[v])) for v, e in a if v in db)

def _cnorm(c):
    if isinstance(c, Q) and c.denominator == 1:
        return c.numerator
    return c

def toQ(x):
    if isinstance(x, (int, Q)): return x
    if isinstance(x, bool): return int(x)
    if isinstance(x, float):
        if x != x or x in (float('inf'), float('-inf')):
            raise ValueError("non-finite float constant")
        q = Q(x).limit_denominator(10 ** 9)
        if float(q) == x: return _cnorm(q)
        return _cnorm(Q(repr(x)))
    raise TypeError(type(x))


class Poly:
    __slots__ = ('t', '_h', '_key')

    def __init__(self, t):
        self.t = t
        self._h = None
        self._key = None

    # constructors
    @staticmethod
    def const(c):
        c = toQ(c)
        return Poly({(): c}) if c else Poly({})

    @staticmethod
    def var(vid, e=1):
        return Poly({((vid, e),): 1})

    def is_zero(self): return not self.t
    def is_const(self): return not self.t or (len(self.t) == 1 and () in self.t)
    def cval(self): return self.t.get((), 0)
    def nterms(self): return len(self.t)

    def vars(self):
        s = set()
        for m in self.t:
            for v, _ in m: s.add(v)
        return s

    def key(self):
        if self._key is None:
            self._key = tuple(sorted(self.t.items()))
        return self._key

    def __hash__(self):
        if self._h is None:
            self._h = hash(self.key())
        return self._h

    def __eq__(self, o):
        return isinstance(o, Poly) and self.t == o.t

    # arithmetic (raw, then reduce)
    def __neg__(self):
        return Poly({m: -c for m, c in self.t.items()})

    def __add__(self, o):
        if not o.t: return self
        if not self.t: return o
        a, b = (self.t, o.t) if len(self.t) >= len(o.t) else (o.t, self.t)
        r = dict(a)
        for m, c in b.items():
            s = r.get(m)
            if s is None: r[m] = c
            else:
                s = s + c
                if s: r[m] = _cnorm(s)
                else: del r[m]
        return Poly(r)

    def __sub__(self, o):
        return self + (-o)

    def scale(self, c):
        if not c: return Poly({})
        if c == 1: return self
        return Poly({m: _cnorm(k * c) for m, k in self.t.items()})

    def mul_mono(self, mono, c=1):
        if not c: return Poly({})
        return Poly({mono_mul(m, mono): _cnorm(k * c) for m, k in self.t.items()})

    def rawmul(self, o):
        if not self.t or not o.t: return Poly({})
        a, b = (self.t, o.t) if len(self.t) <= len(o.t) else (o.t, self.t)
        r = {}
        for m1, c1 in a.items():
            if not m1:
                for m2, c2 in b.items():
                    c = c1 * c2
                    s = r.get(m2)
                    if s is None: r[m2] = c
                    else:
                        s += c
                        if s: r[m2] = s
                        else: del r[m2]
                continue
            for m2, c2 in b.items():
                m = mono_mul(m1, m2); c = c1 * c2
                s = r.get(m)
                if s is None: r[m] = c
                else:
                    s += c
                    if s: r[m] = s
                    else: del r[m]
        return Poly({m: _cnorm(c) for m, c in r.items()})

    def __mul__(self, o):
        p = self.rawmul(o)
        if CTX.rules and not CTX.lazy:
            p = reduce_poly(p)
        return p

    def __pow__(self, n):
        assert isinstance(n, int) and n >= 0
        r = Poly.const(1); b = self
        while n:
            if n & 1: r = r * b
            n >>= 1
            if n: b = b * b
        return r

    # structure
    def content(self):
        """(coefficient c, monomial g, primitive rest) with self = c*g*rest, rest has
        coprime integer coefficients, no common monomial factor, and positive leading coeff"""
        if not self.t:
            return 0, (), self
        monos = list(self.t)
        g = monos[0]
        for m in monos[1:]:
            if not g: break
            g = mono_gcd(g, m)
        cs = [Q(c) for c in self.t.values()]
        num = 0; den = 1
        for c in cs:
            num = math.gcd(num, c.numerator)
            den = den * c.denominator // math.gcd(den, c.denominator)
        c0 = Q(num, den)
        lead = max(self.t)           # deterministic leading monomial
        if self.t[lead] < 0: c0 = -c0
        rest = Poly({mono_div(m, g): _cnorm(Q(c) / c0) for m, c in self.t.items()})
        return _cnorm(c0), g, rest

    def degree_in(self, vid):
        d = 0
        for m in self.t:
            for v, e in m:
                if v == vid and e > d: d = e
        return d

    def coeffs_in(self, vid):
        """dict exp -> Poly (coefficient polynomials wrt variable vid)"""
        out = {}
        for m, c in self.t.items():
            e = 0; rest = []
            for v, k in m:
                if v == vid: e = k
                else: rest.append((v, k))
            out.setdefault(e, {})[tuple(rest)] = c
        return {e: Poly(t) for e, t in out.items()}

    def total_degree_in(self, vids):
        d = 0
        for m in self.t:
            k = sum(e for v, e in m if v in vids)
            d = max(d, k)
        return d

    def min_degree_in(self, vids):
        if not self.t: return None
        return min(sum(e for v, e in m if v in vids) for m in self.t)

    def pdiff(self, vid):
        r = {}
        for m, c in self.t.items():
            for i, (v, e) in enumerate(m):
                if v == vid:
                    nm = m[:i] + (((v, e - 1),) if e > 1 else ()) + m[i + 1:]
                    r[nm] = _cnorm(r.get(nm, 0) + c * e)
                    if not r[nm]: del r[nm]
                    break
        return Poly(r)

    def subs(self, mapping):
        """mapping vid -> Poly ; simultaneous substitution"""
        if not any(v in mapping for v in self.vars()):
            return self
        res = Poly({})
        for m, c in self.t.items():
            term = Poly.const(c)
            keep = []
            for v, e in m:
                if v in mapping:
                    term = term * (mapping[v] ** e)
                else:
                    keep.append((v, e))
            if keep:
                term = Poly(dict((mono_mul(mm, tuple(keep)), cc) for mm, cc in term.t.items()))
                if CTX.rules and not CTX.lazy:
                    term = reduce_poly(term)
            res = res + term
        return res

    def truncate(self, vids, maxdeg):
        """drop terms of total degree > maxdeg in the given variables"""
        return Poly({m: c for m, c in self.t.items()
                     if sum(e for v, e in m if v in vids) <= maxdeg})

    def evalf(self, val):
        """numeric evaluation: val maps vid -> mpmath number"""
        s = mpf(0)
        for m, c in self.t.items():
            t = mpf(c) if isinstance(c, int) else mpf(c.numerator) / c.denominator
            for v, e in m:
                t = t * val[v] ** e
            s = s + t
        return s

    def __repr__(self):
        if not self.t: return '0'
        out = []
        for m, c in sorted(self.t.items()):
            ms = '*'.join((CTX.names[v] if v < len(CTX.names) else f'v{v}') + (f'^{e}' if e > 1 else '')
                          for v, e in m)
            if not ms: out.append(str(c))
            elif c == 1: out.append(ms)
            elif c == -1: out.append('-' + ms)
            else: out.append(f'{c}*{ms}')
        return ' + '.join(out).replace('+ -', '- ')


def reduce_poly(p, cert=None):
    """normal form modulo CTX.rules.  cert: optional dict vid -> Poly accumulating
    cofactors q with  p = nf + sum_v q_v * (v^k - tail_v)."""
    rules = CTX.rules
    if not rules: return p
    t = p.t
    # quick scan
    need = False
    for m in t:
        for v, e in m:
            r = rules.get(v)
            if r is not None and e >= r[0]:
                need = True; break
        if need: break
    if not need: return p
    work = dict(t)
    out = {}
    while work:
        m, c = work.popitem()
        hit = None
        for i, (v, e) in enumerate(m):
            r = rules.get(v)
            if r is not None and e >= r[0]:
                hit = (i, v, e, r); break
        if hit is None:
            s = out.get(m)
            if s is None: out[m] = c
            else:
                s += c
                if s: out[m] = s
                else: del out[m]
            continue
        i, v, e, (k, tail) = hit
        rest = m[:i] + (((v, e - k),) if e > k else ()) + m[i + 1:]
        if cert is not None:
            q = cert.get(v, Poly({}))
            cert[v] = q + Poly({rest: c})
        for tm, tc in tail.t.items():
            nm = mono_mul(rest, tm); nc = c * tc
            s = work.get(nm)
            if s is None: work[nm] = nc
            else:
                s += nc
                if s: work[nm] = s
                else: del work[nm]
    return Poly({m: _cnorm(c) for m, c in out.items()})


def poly_divexact(a: Poly, b: Poly):
    """exact division a / b (multivariate, lex order on the monomial tuples) or None"""
    if not b.t: return None
    if not a.t: return a
    if b.is_const():
        return a.scale(Q(1) / Q(b.cval()))
    # leading monomial by a total order compatible with multiplication: use (degree vector as dict) lex by vid
    def lm(p):
        return max(p.t, key=_lexkey)
    lb = lm(b); cb = b.t[lb]
    rem = dict(a.t); quo = {}
    steps = 0
    while rem:
        la = max(rem, key=_lexkey)
        d = mono_div(la, lb)
        if d is None: return None
        c = Q(rem[la]) / Q(cb)
        quo[d] = _cnorm(c)
        for m, k in b.t.items():
            nm = mono_mul(m, d)
            s = rem.get(nm, 0) - c * k
            if s: rem[nm] = s
            else: rem.pop(nm, None)
        steps += 1
        if steps > 20000: return None
    return Poly(quo)

def _lexkey(m):
    # lex order with higher vid more significant; represent as sorted descending list of (vid, exp)
    return tuple(sorted(m, reverse=True))


# --------------------------------------------------------------------------
# fractions
# --------------------------------------------------------------------------

class Frac:
    """num / prod(f^e) ; den factors are primitive polys (see Poly.content).
    guards: frozenset of Polys whose non-vanishing is required for the value to be
    defined in the real code (safety obligations); nn: produced by nan_to_num."""
    __slots__ = ('num', 'den', 'guards', 'nn')

    def __init__(self, num, den=None, guards=frozenset(), nn=False):
        self.num = num
        self.den = den or {}
        self.guards = guards
        self.nn = nn

    # ---- constructors
    @staticmethod
    def const(c): return Frac(Poly.const(c))
    @staticmethod
    def var(vid): return Frac(Poly.var(vid))
    @staticmethod
    def of(x):
        if isinstance(x, Frac): return x
        if isinstance(x, Poly): return Frac(x)
        if isinstance(x, SymBool):
            return Frac.const(1 if decide(x) else 0)
        if isinstance(x, (bool,)) or type(x).__name__ == 'bool_':
            return Frac.const(int(x))
        if isinstance(x, Inf): return x
        return Frac.const(x)

    def is_const(self): return not self.den and self.num.is_const()
    def cval(self):
        assert self.is_const()
        return self.num.cval()
    def is_zero(self): return self.num.is_zero()

    # ---- helpers
    def _den_poly(self, den=None):
        p = Poly.const(1)
        for f, e in (self.den if den is None else den).items():
            p = p * (f ** e)
        return p

    @staticmethod
    def _lcm(d1, d2):
        if not d1: return d2
        if not d2: return d1
        L = dict(d1)
        for f, e in d2.items():
            if L.get(f, 0) < e: L[f] = e
        return L

    @staticmethod
    def _cofactor(L, d):
        p = Poly.const(1)
        for f, e in L.items():
            k = e - d.get(f, 0)
            if k: p = p * (f ** k)
        return p

    def _with(self, num, den, o=None):
        g = self.guards if o is None else (self.guards | o.guards)
        return _normalize(num, den, g)

    # ---- arithmetic
    def __neg__(self): return Frac(-self.num, self.den, self.guards, self.nn)
    def __pos__(self): return self

    def __add__(self, o):
        if isinstance(o, Inf): return o
        o = _coerce(o)
        if o is NotImplemented: return o
        if self.den == o.den:
            return self._with(self.num + o.num, self.den, o)
        L = Frac._lcm(self.den, o.den)
        n = self.num * Frac._cofactor(L, self.den) + o.num * Frac._cofactor(L, o.den)
        return self._with(n, L, o)
    __radd__ = __add__

    def __sub__(self, o):
        if isinstance(o, Inf): return -o
        o = _coerce(o)
        if o is NotImplemented: return o
        return self + (-o)
    def __rsub__(self, o):
        if isinstance(o, Inf): return o
        o = _coerce(o)
        if o is NotImplemented: return o
        return o + (-self)

    def __mul__(self, o):
        if isinstance(o, Inf): return o.__mul__(self)
        o = _coerce(o)
        if o is NotImplemented: return o
        # exact zero kills a nan_to_num'ed value's guards
        if self.num.is_zero() and not self.den and not self.guards and o.nn:
            return Frac(Poly({}))
        if o.num.is_zero() and not o.den and not o.guards and self.nn:
            return Frac(Poly({}))
        if not self.den and not o.den:
            return self._with(self.num * o.num, {}, o)
        den = dict(self.den)
        for f, e in o.den.items():
            den[f] = den.get(f, 0) + e
        return self._with(self.num * o.num, den, o)
    __rmul__ = __mul__

    def inv(self):
        if self.num.is_zero():
            # 1/0: undefined in the real code (inf/nan).  Value 0 with an unsatisfiable guard: harmless
            # if a nan_to_num'ed copy is multiplied by an exact zero mask, reported by safety otherwise.
            return Frac(Poly({}), {}, self.guards | frozenset([ZERO_GUARD]))
        c, g, rest = self.num.content()
        # new numerator: den / c ; new denominator factors: monomial g vars + rest
        num = self._den_poly().scale(Q(1) / Q(c))
        den = {}
        newg = set(self.guards)
        for v, e in g:
            f = Poly.var(v); den[f] = den.get(f, 0) + e; newg.add(f)
        if not rest.is_const():
            den[rest] = den.get(rest, 0) + 1; newg.add(rest)
        return _normalize(num, den, frozenset(newg))

    def __truediv__(self, o):
        if isinstance(o, Inf): return Frac.const(0)
        o = _coerce(o)
        if o is NotImplemented: return o
        return self * o.inv()
    def __rtruediv__(self, o):
        o = _coerce(o)
        if o is NotImplemented: return o
        return o * self.inv()

    def __pow__(self, n):
        if isinstance(n, Frac) and n.is_const(): n = n.cval()
        if isinstance(n, float): n = toQ(n)
        if isinstance(n, float) and n == int(n): n = int(n)
        if isinstance(n, Q) and n.denominator == 1: n = n.numerator
        if isinstance(n, int):
            if n >= 0:
                return _normalize(self.num ** n, {f: e * n for f, e in self.den.items()}, self.guards)
            return (self ** (-n)).inv()
        if n == Q(1, 2) or n == 0.5:
            from . import atoms
            return atoms.sqrt(self)
        if n == Q(1, 3):
            from . import atoms
            # torch.pow of a NEGATIVE base with a fractional exponent is nan, not the real cube root; the model has no nan values, so that
            # side of the fork is an engine gap (decided by the concrete twin on the real code), never silently the real root
            if not self.is_const() and not decide(mkcond('ge', _strip_guards(self))):
                raise atoms.EngineGap("pow(x, 1/3) of a negative base is nan in torch (no nan values in the model)")
            return atoms.cbrt(self)
        if isinstance(n, Q) and n.denominator in (4, 8) and n > 0:
            from . import atoms
            r = self
            d = n.denominator
            while d > 1:
                r = atoms.sqrt(r); d //= 2
            return r ** n.numerator
        if isinstance(n, Q) and n.denominator == 2:
            from . import atoms
            r = atoms.sqrt(self)
            return r ** n.numerator if n > 0 else (r ** (-n.numerator)).inv()
        from .atoms import EngineGap
        raise EngineGap(f"power {n!r} of a symbolic value")

    def __rpow__(self, b):
        from .atoms import EngineGap
        raise EngineGap("symbolic exponent")

    def __abs__(self):
        from . import atoms
        return atoms.absval(self)

    # ---- comparisons -> SymBool / bool
    def _cmp(self, o, kind, swap=False):
        if isinstance(o, Inf):
            r = {'gt': o.sign < 0, 'ge': o.sign < 0, 'lt': o.sign > 0, 'le': o.sign > 0,
                 'eq': False, 'ne': True}[kind]
            return r
        o = _coerce(o)
        if o is NotImplemented: return o
        d = (o - self) if swap else (self - o)
        return mkcond(kind, d)

    def __gt__(self, o): return self._cmp(o, 'gt')
    def __ge__(self, o): return self._cmp(o, 'ge')
    def __lt__(self, o): return self._cmp(o, 'gt', swap=True)
    def __le__(self, o): return self._cmp(o, 'ge', swap=True)
    def __eq__(self, o):
        r = self._cmp(o, 'eq')
        return False if r is NotImplemented else r
    def __ne__(self, o):
        r = self._cmp(o, 'eq')
        if r is NotImplemented: return True
        return (not r) if isinstance(r, bool) else ~r
    __hash__ = None

    def __bool__(self):
        r = (self == 0)
        if isinstance(r, bool): return not r
        return not decide(r)

    def __float__(self):
        if self.is_const(): return float(self.cval())
        raise TypeError("symbolic value has no float")
    def __int__(self):
        if self.is_const(): return int(self.cval())
        raise TypeError("symbolic value has no int")
    def __index__(self):
        if self.is_const() and Q(self.cval()).denominator == 1: return int(self.cval())
        raise TypeError("symbolic value used as index")
    def __round__(self, n=None):
        return round(float(self), n)

    # ---- queries
    def same(self, o):
        """decided equality (normal forms)"""
        o = Frac.of(o)
        if self.den == o.den:
            d = self.num - o.num
        else:
            L = Frac._lcm(self.den, o.den)
            d = self.num * Frac._cofactor(L, self.den) - o.num * Frac._cofactor(L, o.den)
        if d.is_zero(): return True
        return reduce_poly(d).is_zero() if CTX.rules else False

    def vars(self):
        s = self.num.vars()
        for f in self.den: s |= f.vars()
        return s

    def key(self):
        return (self.num.key(), tuple(sorted((f.key(), e) for f, e in self.den.items())))

    def evalf(self, val):
        n = self.num.evalf(val)
        for f, e in self.den.items():
            n = n / f.evalf(val) ** e
        return n

    def subs(self, mapping):
        """mapping vid -> Frac (or Poly); returns Frac"""
        pm = {}; fm = {}
        for v, x in mapping.items():
            x = Frac.of(x)
            if x.den: fm[v] = x
            else: pm[v] = x.num
        if not fm:
            r = Frac(self.num.subs(pm), None, self.guards)
            if self.den:
                for f, e in self.den.items():
                    r = r / (Frac(f.subs(pm)) ** e)
            return r
        # general: rebuild term by term
        full = dict(mapping)
        def sub_poly(p):
            res = Frac.const(0)
            for m, c in p.t.items():
                t = Frac.const(c)
                for v, e in m:
                    t = t * ((Frac.of(full[v]) if v in full else Frac.var(v)) ** e)
                res = res + t
            return res
        r = sub_poly(self.num)
        for f, e in self.den.items():
            r = r / (sub_poly(f) ** e)
        return r

    def __repr__(self):
        if not self.den: return f'{self.num!r}'
        d = '*'.join(f'({f!r})' + (f'^{e}' if e > 1 else '') for f, e in self.den.items())
        return f'({self.num!r})/{d}'


ZERO_GUARD = Poly({})

def _strip_guards(f):
    return Frac(f.num, f.den)


def _coerce(o):
    if isinstance(o, Frac): return o
    if isinstance(o, (int, Q)): return Frac(Poly.const(o))
    if isinstance(o, float): return Frac(Poly.const(toQ(o)))
    if isinstance(o, SymBool): return Frac.const(1 if decide(o) else 0)
    if type(o).__name__ in ('bool_', 'bool'): return Frac.const(int(o))
    if type(o).__name__ in ('int64', 'int32'): return Frac.const(int(o))
    return NotImplemented


def _normalize(num, den, guards=frozenset(), nn=False):
    if num.is_zero():
        return Frac(num, {}, guards, nn)
    if den:
        den = dict(den)
        # cancel single-variable factors and try exact division by polynomial factors
        for f in list(den):
            e = den[f]
            if len(f.t) == 1:
                (m, c), = f.t.items()
                if len(m) == 1 and m[0][1] == 1 and c == 1:
                    v = m[0][0]
                    k = min(e, min((dict(mm).get(v, 0) for mm in num.t), default=0))
                    if k:
                        mv = ((v, k),)
                        num = Poly({mono_div(mm, mv): c for mm, c in num.t.items()})
                        if e == k: del den[f]
                        else: den[f] = e - k
                    continue
            while e > 0 and len(num.t) >= len(f.t) and num.nterms() <= 4000:
                q = poly_divexact(num, f)
                if q is None: break
                num = q; e -= 1
            if e == 0: del den[f]
            else: den[f] = e
    return Frac(num, den, guards, nn)


class Inf:
    """+-infinity constant (only what the control code needs: comparisons, unary minus)"""
    def __init__(self, sign=1): self.sign = sign
    def __neg__(self): return Inf(-self.sign)
    def _c(self, o, kind):
        if isinstance(o, Inf):
            a, b = self.sign, o.sign
            return {'gt': a > b, 'ge': a >= b, 'lt': a < b, 'le': a <= b, 'eq': a == b}[kind]
        return {'gt': self.sign > 0, 'ge': self.sign > 0, 'lt': self.sign < 0, 'le': self.sign < 0,
                'eq': False}[kind]
    def __gt__(self, o): return self._c(o, 'gt')
    def __ge__(self, o): return self._c(o, 'ge')
    def __lt__(self, o): return self._c(o, 'lt')
    def __le__(self, o): return self._c(o, 'le')
    def __eq__(self, o): return self._c(o, 'eq')
    __hash__ = None
    def __add__(self, o): return self
    __radd__ = __add__
    def __sub__(self, o): return self
    def __rsub__(self, o): return Inf(-self.sign)
    def __mul__(self, o):
        o = Frac.of(o)
        if isinstance(o, Inf): return Inf(self.sign * o.sign)
        if o.is_const():
            c = o.cval()
            if c == 0: raise ValueError("inf*0")
            return Inf(self.sign if c > 0 else -self.sign)
        return Inf(self.sign if decide(o > 0) else -self.sign)
    __rmul__ = __mul__
    def __truediv__(self, o): return self.__mul__(o)
    def __rtruediv__(self, o): return Frac.const(0)
    def __float__(self): return float('inf') * self.sign
    def is_const(self): return True
    guards = frozenset(); nn = False
    def __repr__(self): return ('+' if self.sign > 0 else '-') + 'inf'


# --------------------------------------------------------------------------
# symbolic booleans and the path oracle
# --------------------------------------------------------------------------

class SymBool:
    """op in {'gt','ge','eq'} over a Frac d meaning d>0 / d>=0 / d==0 ; or 'not','and','or'"""
    __slots__ = ('op', 'a', 'b', '_k')

    def __init__(self, op, a, b=None):
        self.op, self.a, self.b = op, a, b
        self._k = None

    def key(self):
        if self._k is None:
            if self.op in ('gt', 'ge', 'eq'):
                self._k = (self.op, self.a.key())
            elif self.op == 'not':
                self._k = ('not', self.a.key())
            else:
                self._k = (self.op, self.a.key(), self.b.key())
        return self._k

    def __invert__(self):
        if self.op == 'not': return self.a
        return SymBool('not', self)

    def __and__(self, o):
        if isinstance(o, SymBool): return SymBool('and', self, o)
        if isinstance(o, Frac): o = bool(o)
        return self if bool(o) else False
    __rand__ = __and__

    def __or__(self, o):
        if isinstance(o, SymBool): return SymBool('or', self, o)
        if isinstance(o, Frac): o = bool(o)
        return True if bool(o) else self
    __ror__ = __or__

    def __xor__(self, o):
        return (self & ~_sb(o)) | (~self & _sb(o)) if isinstance(o, SymBool) else (~self if o else self)

    def __bool__(self):
        return decide(self)

    def __eq__(self, o):
        if isinstance(o, SymBool): return decide(self) == decide(o)
        return decide(self) == bool(o)
    def __ne__(self, o): return not self.__eq__(o)
    __hash__ = None

    # arithmetic use of masks: idx * value
    def __mul__(self, o):
        return Frac.const(1 if decide(self) else 0) * o
    __rmul__ = __mul__
    def __add__(self, o):
        return Frac.const(1 if decide(self) else 0) + o
    __radd__ = __add__
    def __neg__(self): return -Frac.const(1 if decide(self) else 0)
    def __sub__(self, o): return Frac.const(1 if decide(self) else 0) - o
    def __rsub__(self, o): return o - Frac.const(1 if decide(self) else 0)
    def __int__(self): return int(decide(self))
    def __index__(self): return int(decide(self))
    def __float__(self): return float(decide(self))

    def atoms(self):
        if self.op in ('gt', 'ge', 'eq'): return [self]
        if self.op == 'not': return self.a.atoms()
        return self.a.atoms() + self.b.atoms()

    def evalf(self, val, tol=0, eq_only=False):
        """eq_only: the tolerance applies to equalities only; inequalities are evaluated as they stand (a sample with z = 0 must not
        pass for the assumed fact z >= eps^4 because eps^4 is below the tolerance)"""
        if self.op in ('gt', 'ge', 'eq'):
            x = self.a.evalf(val)
            if x != x: raise ValueError("condition depends on a value that is undefined at this point")
            if self.op == 'gt': return x > (0 if eq_only else tol)
            if self.op == 'ge': return x >= (0 if eq_only else -tol)
            return abs(x) <= tol
        if self.op == 'not': return not self.a.evalf(val, tol, eq_only)
        if self.op == 'and': return self.a.evalf(val, tol, eq_only) and self.b.evalf(val, tol, eq_only)
        return self.a.evalf(val, tol, eq_only) or self.b.evalf(val, tol, eq_only)

    def __repr__(self):
        if self.op == 'gt': return f'[{self.a!r} > 0]'
        if self.op == 'ge': return f'[{self.a!r} >= 0]'
        if self.op == 'eq': return f'[{self.a!r} == 0]'
        if self.op == 'not': return f'~{self.a!r}'
        return f'({self.a!r} {self.op} {self.b!r})'


def _sb(o):
    return o


def mkcond(kind, d: Frac):
    """d (kind) 0 with syntactic simplification to bool when d is constant"""
    if isinstance(d, Inf):
        return {'gt': d.sign > 0, 'ge': d.sign > 0, 'eq': False}[kind]
    if d.is_const():
        c = d.cval()
        return {'gt': c > 0, 'ge': c >= 0, 'eq': c == 0}[kind]
    if d.num.is_zero():
        return {'gt': False, 'ge': True, 'eq': True}[kind]
    # positive constant multiples normalised away
    c, g, rest = d.num.content()
    if c != 1 and c != -1:
        s = 1 if c > 0 else -1
        d = Frac(d.num.scale(Q(s) / Q(c)), d.den, d.guards)
    return SymBool(kind, d)


class Oracle:
    """decision oracle; replaced by the path engine"""
    def decide(self, cond): raise RuntimeError("symbolic branch outside a path engine")

ORACLE = Oracle()

def set_oracle(o):
    global ORACLE
    ORACLE = o

def decide(c):
    if isinstance(c, bool): return c
    if isinstance(c, int): return c != 0
    if type(c).__name__ == 'bool_': return bool(c)
    if isinstance(c, Frac): return bool(c)
    if c.op == 'not': return not decide(c.a)
    if c.op == 'and': return decide(c.a) and decide(c.b)
    if c.op == 'or': return decide(c.a) or decide(c.b)
    return ORACLE.decide(c)
