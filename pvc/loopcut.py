"""Mechanical loop cutting (DESIGN 1.1(5)).

Where (and only where) a sidecar loop contract exists for the k-th `while`/`for` loop of a function,

    while C: B          becomes        __pvc_loop__.enter(key, locals-frame)     # assert Inv; havoc frame; assume Inv
                                        <havoc of every local assigned in B>
                                        if C:
                                            for __pvc_once in (0,):
                                                B                                  # break -> code after the loop
                                            else:
                                                __pvc_loop__.back(key, frame)     # assert Inv at the back edge; stop path
                                        # fall through: loop exit (C false under Inv, or break)

The set of local names assigned in B and of attribute/subscript targets written in B is computed from
the AST; it must be covered by the contract's declared `modifies`, else the check refuses (EngineGap).
"""
from __future__ import annotations
import ast


class StopPath(BaseException):
    """end of the cut loop body (the back edge has been checked)"""


class LoopContract:
    """override enter/back.  frame: dict of current local values (read-only snapshot)"""
    modifies = ()          # names / attribute paths the loop may write (declared frame)
    def enter(self, frame): raise NotImplementedError
    def back(self, frame): raise NotImplementedError
    def havoc(self, name, old): return old


class _Dispatcher:
    def __init__(self): self.contracts = {}; self.log = []
    def enter(self, key, frame):
        self.log.append(('enter', key)); return self.contracts[key].enter(frame)
    def back(self, key, frame):
        self.log.append(('back', key)); self.contracts[key].back(frame); raise StopPath()
    def havoc(self, key, name, frame):
        return self.contracts[key].havoc(name, frame.get(name))
    def cond(self, key, frame):
        return self.contracts[key].cond(frame)

DISPATCH = _Dispatcher()


def written_targets(body):
    names, attrs = set(), set()
    for node in body:
        for n in ast.walk(node):
            tgts = []
            if isinstance(n, ast.Assign): tgts = n.targets
            elif isinstance(n, (ast.AugAssign, ast.AnnAssign)): tgts = [n.target]
            elif isinstance(n, (ast.For,)): tgts = [n.target]
            elif isinstance(n, ast.With):
                tgts = [i.optional_vars for i in n.items if i.optional_vars is not None]
            elif isinstance(n, ast.ExceptHandler) and n.name: names.add(n.name)
            for t in tgts:
                for e in ast.walk(t):
                    if isinstance(e, ast.Name) and isinstance(e.ctx, ast.Store): names.add(e.id)
                    elif isinstance(e, (ast.Attribute, ast.Subscript)) and isinstance(e.ctx, ast.Store):
                        attrs.add(ast.unparse(e))
    return names, attrs


def loop_temporaries(fn, loop, names):
    """names written by the loop body that are plain block-local temporaries: every occurrence lies in one statement list inside the
    loop body whose first statement mentioning the name is a plain assignment to it (not reading it), and the name is never mentioned
    outside the loop body in the enclosing function.  Such a name carries nothing across iterations or out of the loop, so it needs no
    place in the contract's frame."""
    def mentions(node, nm):
        return [n for n in ast.walk(node) if isinstance(n, ast.Name) and n.id == nm]
    def blocks(stmts):
        yield stmts
        for st_ in stmts:
            for fld in ('body', 'orelse', 'finalbody'):
                sub = getattr(st_, fld, None)
                if isinstance(sub, list) and sub and isinstance(sub[0], ast.stmt): yield from blocks(sub)
            for h in getattr(st_, 'handlers', []) or []: yield from blocks(h.body)
    temps = set()
    inside = {id(n) for st_ in loop.body for n in ast.walk(st_)}
    for nm in names:
        if [n for n in ast.walk(fn) if isinstance(n, ast.Name) and n.id == nm and id(n) not in inside]: continue
        total = sum(len(mentions(st_, nm)) for st_ in loop.body)
        for blk in blocks(loop.body):
            if sum(len(mentions(st_, nm)) for st_ in blk) != total: continue
            first = next(st_ for st_ in blk if mentions(st_, nm))
            if isinstance(first, ast.Assign) and not mentions(first.value, nm) and \
               all(isinstance(t, ast.Name) or not mentions(t, nm) or all(isinstance(e, ast.Name) for e in ast.walk(t) if isinstance(e, (ast.Name, ast.Tuple, ast.List)) or True) for t in first.targets) and \
               any(isinstance(e, ast.Name) and e.id == nm and isinstance(e.ctx, ast.Store) for t in first.targets for e in ast.walk(t)):
                temps.add(nm)
        # (the innermost qualifying block decides; outer blocks containing it qualify only if their first mention is that assignment too)
    return temps


def make_transform(funcs):
    """funcs: {(qualified function name, loop ordinal): key}.  returns tree -> tree"""
    class Tr(ast.NodeTransformer):
        def __init__(self): self.stack = []; self.found = set()
        def visit_ClassDef(self, node):
            self.stack.append(node.name); self.generic_visit(node); self.stack.pop(); return node
        def visit_FunctionDef(self, node):
            self.stack.append(node.name)
            qn = '.'.join(self.stack)
            if any(f == qn for (f, _) in funcs):
                counter = [0]
                self._fn = node
                node.body = self._cut_block(node.body, qn, counter)
            else:
                self.generic_visit(node)
            self.stack.pop()
            return node

        def _cut_block(self, body, qn, counter):
            out = []
            for st_ in body:
                if isinstance(st_, (ast.While, ast.For)):
                    k = counter[0]; counter[0] += 1
                    key = funcs.get((qn, k))
                    if key is not None and isinstance(st_, ast.While):
                        self.found.add((qn, k))
                        out.extend(self._cut_while(st_, key))
                        continue
                    if key is not None and isinstance(st_, ast.For):
                        self.found.add((qn, k))
                        out.extend(self._cut_for(st_, key))
                        continue
                    st_.body = self._cut_block(st_.body, qn, counter)
                    st_.orelse = self._cut_block(st_.orelse, qn, counter)
                    out.append(st_)
                elif isinstance(st_, (ast.If,)):
                    st_.body = self._cut_block(st_.body, qn, counter)
                    st_.orelse = self._cut_block(st_.orelse, qn, counter)
                    out.append(st_)
                elif isinstance(st_, (ast.With,)):
                    st_.body = self._cut_block(st_.body, qn, counter)
                    out.append(st_)
                elif isinstance(st_, ast.Try):
                    st_.body = self._cut_block(st_.body, qn, counter)
                    out.append(st_)
                else:
                    out.append(st_)
            return out

        def _cut_while(self, w, key):
            names, attrs = written_targets(w.body)
            names -= loop_temporaries(self._fn, w, names)
            k = ast.Constant(value=key)
            frame = ast.Call(func=ast.Name(id='locals', ctx=ast.Load()), args=[], keywords=[])
            disp = lambda m: ast.Attribute(value=ast.Name(id='__pvc_loop__', ctx=ast.Load()), attr=m, ctx=ast.Load())
            stmts = [ast.Expr(ast.Call(func=disp('declare'), args=[k, ast.Tuple(elts=[ast.Constant(value=x) for x in sorted(names)], ctx=ast.Load()), ast.Tuple(elts=[ast.Constant(value=x) for x in sorted(attrs)], ctx=ast.Load())], keywords=[])),
                     ast.Expr(ast.Call(func=disp('enter'), args=[k, frame], keywords=[]))]
            for n in sorted(names):
                stmts.append(ast.Assign(targets=[ast.Name(id=n, ctx=ast.Store())],
                                        value=ast.Call(func=disp('havoc'), args=[k, ast.Constant(value=n), frame], keywords=[])))
            once = ast.For(target=ast.Name(id='__pvc_once', ctx=ast.Store()),
                           iter=ast.Tuple(elts=[ast.Constant(value=0)], ctx=ast.Load()),
                           body=w.body,
                           orelse=[ast.Expr(ast.Call(func=disp('back'), args=[k, frame], keywords=[]))])
            stmts.append(ast.If(test=w.test, body=[once], orelse=[]))
            return stmts

        def _cut_for(self, w, key):
            """for v in it: B   ->   enter; havoc(names + loop variable); if cond(): once(B) else-back
            (the contract's cond() models `iterator not exhausted`; the loop variable is havoc'd by the contract)"""
            names, attrs = written_targets(w.body)
            names -= loop_temporaries(self._fn, w, names)
            for e in ast.walk(w.target):
                if isinstance(e, ast.Name): names.add(e.id)
            k = ast.Constant(value=key)
            frame = ast.Call(func=ast.Name(id='locals', ctx=ast.Load()), args=[], keywords=[])
            disp = lambda m: ast.Attribute(value=ast.Name(id='__pvc_loop__', ctx=ast.Load()), attr=m, ctx=ast.Load())
            stmts = [ast.Expr(ast.Call(func=disp('declare'), args=[k, ast.Tuple(elts=[ast.Constant(value=x) for x in sorted(names)], ctx=ast.Load()),
                                                                      ast.Tuple(elts=[ast.Constant(value=x) for x in sorted(attrs)], ctx=ast.Load())], keywords=[])),
                     ast.Expr(ast.Call(func=disp('enter'), args=[k, frame], keywords=[]))]
            for n in sorted(names):
                stmts.append(ast.Assign(targets=[ast.Name(id=n, ctx=ast.Store())],
                                        value=ast.Call(func=disp('havoc'), args=[k, ast.Constant(value=n), frame], keywords=[])))
            once = ast.For(target=ast.Name(id='__pvc_once', ctx=ast.Store()),
                           iter=ast.Tuple(elts=[ast.Constant(value=0)], ctx=ast.Load()),
                           body=w.body,
                           orelse=[ast.Expr(ast.Call(func=disp('back'), args=[k, frame], keywords=[]))])
            stmts.append(ast.If(test=ast.Call(func=disp('cond'), args=[k, frame], keywords=[]), body=[once], orelse=w.orelse))
            return stmts

    def transform(tree):
        t = Tr()
        tree = t.visit(tree)
        missing = set(funcs) - t.found
        if missing:
            from .atoms import EngineGap
            raise EngineGap(f"loop contract refers to loops that no longer exist: {sorted(missing)}")
        return tree
    return transform


def _declare(self, key, names, attrs):
    c = self.contracts[key]
    decl = set(c.modifies)
    extra = [x for x in list(names) + list(attrs) if x not in decl]
    if extra:
        from .atoms import EngineGap
        raise EngineGap(f"loop {key}: body writes {extra} outside the declared frame {sorted(decl)}")
_Dispatcher.declare = _declare
