"""z3 / cvc5 back end: path feasibility, side conditions, certificate re-checks."""
from __future__ import annotations
from fractions import Fraction as Q
import time
import z3
from . import algebra as A
from .algebra import Poly, Frac, SymBool

STATS = {'queries': 0, 'time': 0.0, 'unknown': 0}
DEFAULT_TIMEOUT_MS = 20000


class Z3Tr:
    """translation of the current context to z3"""
    def __init__(self, ctx=None):
        self.c = ctx or A.CTX
        self.vars = {}
        self.ivars = {}
        self.used = set()

    def is_int(self, vid):
        return bool(self.c.info[vid].get('integer'))

    def int_poly(self, p: Poly):
        """integer-sorted translation of L*p (L = lcm of coefficient denominators) for polynomials over
        integer symbols only; None otherwise.  (z3 5.1 loops on to_real in linear mixed problems.)"""
        if not p.t or not all(self.is_int(v) for v in p.vars()): return None
        import math
        L = 1
        for c in p.t.values():
            d = Q(c).denominator; L = L * d // math.gcd(L, d)
        terms = []
        for m, c in p.t.items():
            t = z3.IntVal(int(Q(c) * L))
            for v, e in m:
                self.used.add(v)
                x = self.ivars.setdefault(v, z3.Int(f'{self.c.names[v]}__{v}'))
                for _ in range(e): t = t * x
            terms.append(t)
        return z3.Sum(terms) if len(terms) > 1 else terms[0]

    def var(self, vid):
        x = self.vars.get(vid)
        if x is None:
            if self.c.info[vid].get('integer'):
                x = z3.ToReal(self.ivars.setdefault(vid, z3.Int(f'{self.c.names[vid]}__{vid}')))
            else:
                x = z3.Real(f'{self.c.names[vid]}__{vid}')
            self.vars[vid] = x
        self.used.add(vid)
        return x

    def poly(self, p: Poly):
        if not p.t: return z3.RealVal(0)
        terms = []
        for m, c in p.t.items():
            c = Q(c)
            t = z3.RealVal(f'{c.numerator}/{c.denominator}') if c.denominator != 1 else z3.RealVal(c.numerator)
            for v, e in m:
                x = self.var(v)
                for _ in range(e): t = t * x
            terms.append(t)
        return z3.Sum(terms) if len(terms) > 1 else terms[0]

    def signed_num(self, d: Frac):
        """N * prod f^(e mod 2): same sign as d wherever d is defined"""
        t = self.poly(d.num)
        for f, e in d.den.items():
            if e % 2: t = t * self.poly(f)
        return t

    def den_nonzero(self, d: Frac):
        return [self.poly(f) != 0 for f in d.den]

    def cond(self, c):
        if isinstance(c, bool): return z3.BoolVal(c)
        if c.op == 'not': return z3.Not(self.cond(c.a))
        if c.op == 'and': return z3.And(self.cond(c.a), self.cond(c.b))
        if c.op == 'or': return z3.Or(self.cond(c.a), self.cond(c.b))
        if not c.a.den:
            ip = self.int_poly(c.a.num)
            if ip is not None:
                return {'gt': ip > 0, 'ge': ip >= 0, 'eq': ip == 0}[c.op]
        s = self.signed_num(c.a)
        if c.op == 'gt': return s > 0
        if c.op == 'ge': return s >= 0
        if c.op == 'eq': return self.poly(c.a.num) == 0
        raise ValueError(c.op)

    def background(self):
        """relations and facts of every variable used so far (transitively)"""
        out = []
        done = set()
        changed = True
        facts_done = set()
        while changed:
            changed = False
            for v in list(self.used):
                if v in done: continue
                done.add(v); changed = True
                r = self.c.rules.get(v)
                if r is not None:
                    k, tail = r
                    x = self.var(v); t = x
                    for _ in range(k - 1): t = t * x
                    out.append(t == self.poly(tail))
            for i, f in enumerate(self.c.facts):
                if i in facts_done: continue
                fv = set()
                for a in f.atoms(): fv |= a.a.vars()
                if fv & self.used and fv <= (self.used | self._closure(fv)):
                    facts_done.add(i)
                    out.append(self.cond(f)); changed = True
        return out

    def _closure(self, vs):
        # allow facts that mention variables not used yet only if those are syms/atoms' args; keep simple
        return vs


def _solver(timeout_ms):
    s = z3.Solver()
    s.set('timeout', int(timeout_ms))
    return s


def check_sat(conds, timeout_ms=2000, extra=None):
    """'sat' | 'unsat' | 'unknown' for facts /\\ relations /\\ conds"""
    t0 = time.time()
    tr = Z3Tr()
    s = _solver(timeout_ms)
    for c in conds:
        s.add(tr.cond(c))
        for a in (c.atoms() if isinstance(c, SymBool) else []):
            for d in tr.den_nonzero(a.a): s.add(d)
    if extra is not None:
        for e in extra(tr): s.add(e)
    for b in tr.background(): s.add(b)
    r = s.check()
    STATS['queries'] += 1; STATS['time'] += time.time() - t0
    if r == z3.unknown: STATS['unknown'] += 1
    return str(r)


def _vars_of(c):
    vs = set()
    if isinstance(c, bool): return vs
    for a in c.atoms(): vs |= a.a.vars()
    return vs


def relevant(path, goal):
    """path literals connected to the goal through shared variables (cone of influence)"""
    ctx = A.CTX
    seen = set(_vars_of(goal))
    # atoms drag in the variables of their defining relations
    def close(vs):
        out = set(vs); changed = True
        while changed:
            changed = False
            for v in list(out):
                r = ctx.rules.get(v)
                if r is not None:
                    nv = r[1].vars() - out
                    if nv: out |= nv; changed = True
        return out
    seen = close(seen)
    items = [(c, _vars_of(c)) for c in path]
    used = [False] * len(items)
    changed = True
    while changed:
        changed = False
        for i, (c, vs) in enumerate(items):
            if not used[i] and vs & seen:
                used[i] = True
                nv = close(vs) - seen
                if nv: seen |= nv
                changed = True
    return [c for (c, _), u in zip(items, used) if u]


def prove(path, goal, timeout_ms=DEFAULT_TIMEOUT_MS):
    """path /\\ facts /\\ relations => goal ?   returns 'proved' | 'refuted' | 'unknown'
    ('refuted' = the negation is satisfiable in the relational abstraction: a candidate only)"""
    if isinstance(goal, bool):
        if goal: return 'proved'
        r = check_sat(list(path), timeout_ms)
        return {'unsat': 'proved', 'sat': 'refuted'}.get(r, 'unknown')
    rel = relevant(list(path), goal)
    r = check_sat(rel + [~goal], min(timeout_ms, 5000))
    if r not in ('sat', 'unsat') and len(rel) == len(path) and timeout_ms > 5000:
        # the 5 s cap is a shortcut for the cone-of-influence query; when there is no larger query to fall back on, a timeout under machine load
        # must not decide the clause: ask again with the whole budget
        r = check_sat(rel + [~goal], timeout_ms)
    if r == 'unsat': return 'proved'
    if len(rel) < len(path):
        r2 = check_sat(list(path) + [~goal], timeout_ms)
        if r2 == 'unsat': return 'proved'
        if r2 == 'sat': return 'refuted'
        return 'refuted' if r == 'sat' and False else 'unknown'
    if r == 'sat': return 'refuted'
    return 'unknown'


def check_certificate(p: Poly, cert: dict, nf: Poly, timeout_ms=DEFAULT_TIMEOUT_MS):
    """ring identity  p - nf - sum_v q_v (v^k - tail_v) == 0  re-checked by z3 (no search:
    the negation must simplify to false)."""
    t0 = time.time()
    tr = Z3Tr()
    lhs = tr.poly(p) - tr.poly(nf)
    for v, q in cert.items():
        k, tail = tr.c.rules[v]
        x = tr.var(v); t = x
        for _ in range(k - 1): t = t * x
        lhs = lhs - tr.poly(q) * (t - tr.poly(tail))
    e = z3.simplify(lhs, som=True, flat=True, mul_to_power=False)
    ok = z3.is_rational_value(e) and e.numerator_as_long() == 0
    if not ok:
        s = _solver(timeout_ms)
        s.add(lhs != 0)
        ok = s.check() == z3.unsat
    STATS['queries'] += 1; STATS['time'] += time.time() - t0
    return ok


def model(conds, timeout_ms=5000):
    """a rational model vid -> Fraction of facts /\\ relations /\\ conds, or None"""
    tr = Z3Tr()
    s = _solver(timeout_ms)
    for c in conds:
        s.add(tr.cond(c))
        for a in (c.atoms() if isinstance(c, SymBool) else []):
            for d in tr.den_nonzero(a.a): s.add(d)
    for b in tr.background(): s.add(b)
    if s.check() != z3.sat: return None
    m = s.model()
    out = {}
    for vid, x in tr.vars.items():
        v = m.eval(x, model_completion=True)
        if z3.is_rational_value(v):
            out[vid] = Q(v.numerator_as_long(), v.denominator_as_long())
        elif z3.is_algebraic_value(v):
            a = v.approx(30)
            out[vid] = Q(a.numerator_as_long(), a.denominator_as_long())
        else:
            return None
    return out
