"""storch: the assumed mathematical meaning of the torch subset used by the code under contract.

A Tensor wraps a numpy object array whose entries are exact scalars (algebra.Frac), symbolic or
concrete booleans, or Python ints.  Views alias like torch views (numpy basic indexing).
Everything not modelled raises EngineGap (never a verdict).
"""
from __future__ import annotations
import builtins, itertools, math, types, functools, contextlib
from fractions import Fraction as Q
import numpy as np
from . import algebra as A
from . import atoms as AT
from .algebra import Frac, Poly, SymBool, Inf, decide
from .atoms import EngineGap

# --------------------------------------------------------------------------
# dtypes / devices
# --------------------------------------------------------------------------

class dtype:
    def __init__(self, name, kind): self.name, self.kind = name, kind
    def __repr__(self): return f'storch.{self.name}'
    @property
    def is_floating_point(self): return self.kind == 'f'

float32 = dtype('float32', 'f'); float64 = dtype('float64', 'f'); float16 = dtype('float16', 'f')
float = float32; double = float64; half = float16
int64 = dtype('int64', 'i'); int32 = dtype('int32', 'i'); long = int64; int = int64
bool = dtype('bool', 'b'); uint8 = dtype('uint8', 'i')
_DEFAULT = float64
_pybool = builtins.bool; _pyint = builtins.int; _pyfloat = builtins.float

class device:
    def __init__(self, *a, **k): self.type = 'cpu'; self.index = None
    def __eq__(self, o): return True
    def __hash__(self): return 0
    def __repr__(self): return "device(type='cpu')"
_CPU = device()

class _Finfo:
    def __init__(self, dt=None):
        c = A.CTX
        if c.eps is None:
            e = c.sym('eps')
            c.add_fact(e > 0); c.add_fact(e <= Q(1, 1024))
            c.eps = e
        self.eps = c.eps
        self.tiny = c.eps * c.eps * c.eps * c.eps
        self.max = Inf(1); self.min = Inf(-1)
def finfo(dt=None): return _Finfo(dt)

pi = None  # replaced by property on module (see __getattr__ at the end)
inf = Inf(1)
nan = None

class Size(tuple):
    def numel(self):
        n = 1
        for k in self: n *= k
        return n
    def __add__(self, o): return Size(tuple(self) + tuple(o))
    def __radd__(self, o): return Size(tuple(o) + tuple(self))
    def __getitem__(self, i):
        r = tuple.__getitem__(self, i)
        return Size(r) if isinstance(i, slice) else r
    def __repr__(self): return f'torch.Size({list(self)})'

def broadcast_shapes(*shapes):
    return Size(np.broadcast_shapes(*[tuple(s) for s in shapes]))

# --------------------------------------------------------------------------
# dispatch emulation of __torch_function__
# --------------------------------------------------------------------------

_DISPATCH = [True]

def _flat_tensors(x, out):
    if isinstance(x, Tensor): out.append(x)
    elif isinstance(x, (list, tuple)):
        for y in x: _flat_tensors(y, out)
    elif isinstance(x, dict):
        for y in x.values(): _flat_tensors(y, out)

def api(fn=None, *, name=None):
    def deco(fn):
        nm = name or fn.__name__
        @functools.wraps(fn)
        def wrapper(*args, **kwargs):
            if kwargs.get('out') is not None:
                # torch's out= : compute the result, write it into the given tensor in place, return that tensor
                out_t = kwargs.pop('out')
                res = wrapper(*args, **kwargs)
                if not isinstance(out_t, Tensor) or not isinstance(res, Tensor):
                    raise EngineGap(f"out= of {nm} with a non-tensor result")
                copy_(out_t, res)
                return out_t
            kwargs.pop('out', None)
            if _DISPATCH[0]:
                ts = []
                _flat_tensors(args, ts); _flat_tensors(kwargs, ts)
                for a in ts:
                    tf = type(a).__dict__.get('__torch_function__') or _find_tf(type(a))
                    if tf is not None:
                        types_ = tuple({type(t) for t in ts})
                        return type(a).__torch_function__(wrapper, types_, args, kwargs)
            return fn(*args, **kwargs)
        wrapper.__name__ = nm
        wrapper._impl = fn
        return wrapper
    return deco(fn) if fn is not None else deco

def _find_tf(cls):
    for k in cls.__mro__:
        if k is Tensor: return None
        if '__torch_function__' in k.__dict__: return k.__dict__['__torch_function__']
    return None

# --------------------------------------------------------------------------
# scalar helpers
# --------------------------------------------------------------------------

def _sc(x):
    """python/numpy scalar -> canonical entry"""
    if isinstance(x, (Frac, SymBool, Inf)): return x
    if isinstance(x, (_pybool, np.bool_)): return _pybool(x)
    if isinstance(x, (_pyint, np.integer)): return _pyint(x)
    if isinstance(x, Q): return Frac.const(x)
    if isinstance(x, _pyfloat):
        if x == _pyfloat('inf'): return Inf(1)
        if x == _pyfloat('-inf'): return Inf(-1)
        return Frac.const(A.toQ(x))
    if isinstance(x, Tensor) and x._a.ndim == 0: return x._a.item()
    raise TypeError(f"cannot use {type(x)} as tensor entry")

def _kind_of_entry(x):
    if isinstance(x, (_pybool, SymBool)): return 'b'
    if isinstance(x, _pyint): return 'i'
    return 'f'

def _mk(a, kind=None):
    t = object.__new__(Tensor)
    t._a = a
    if kind is None:
        kind = 'f'
        for x in a.flat:
            kind = _kind_of_entry(x); break
    t._k = kind
    t.requires_grad = False
    t.grad = None
    return t

def _arr(x, kind=None):
    """anything -> (numpy object array, kind)"""
    if isinstance(x, Tensor): return x._a, x._k
    if isinstance(x, np.ndarray):
        a = np.empty(x.shape, dtype=object)
        for idx in np.ndindex(x.shape): a[idx] = _sc(x[idx])
        return a, kind or (_kind_of_entry(a.flat[0]) if a.size else 'f')
    if isinstance(x, (list, tuple)):
        if len(x) and builtins.all(isinstance(y, Tensor) for y in x):
            return np.stack([y._a for y in x]) if len(x) else np.empty((0,), object), x[0]._k
        def conv(y):
            if isinstance(y, (list, tuple)): return [conv(z) for z in y]
            if isinstance(y, Tensor): return y._a.tolist() if y._a.ndim else y._a.item()
            return _sc(y)
        nested = conv(x)
        shape = []
        p = nested
        while isinstance(p, list):
            shape.append(len(p)); p = p[0] if p else None
        a = np.empty(tuple(shape), dtype=object)
        def fill(p, idx):
            if isinstance(p, list):
                for i, q in enumerate(p): fill(q, idx + (i,))
            else: a[idx] = p
        fill(nested, ())
        k = kind or (_kind_of_entry(a.flat[0]) if a.size else 'f')
        return a, k
    s = _sc(x)
    a = np.empty((), dtype=object); a[()] = s
    return a, kind or _kind_of_entry(s)

def _as_float_entries(a):
    out = np.empty(a.shape, dtype=object)
    for idx in np.ndindex(a.shape):
        x = a[idx]
        out[idx] = x if isinstance(x, (Frac, Inf)) else Frac.of(x)
    return out

def _T(x):
    """coerce to Tensor"""
    if isinstance(x, Tensor): return x
    a, k = _arr(x)
    return _mk(a, k)

def _ew2(f, x, y, kind=None):
    """elementwise binary with broadcasting"""
    xa, xk = _arr(x); ya, yk = _arr(y)
    shape = np.broadcast_shapes(xa.shape, ya.shape)
    out = np.empty(shape, dtype=object)
    if out.size:
        xb = np.broadcast_to(xa, shape); yb = np.broadcast_to(ya, shape)
        for idx in np.ndindex(shape):
            out[idx] = f(xb[idx], yb[idx])
    if kind is None:
        kind = 'f' if 'f' in (xk, yk) else ('i' if 'i' in (xk, yk) else 'b')
    return _mk(out, kind)

def _ew1(f, x, kind=None):
    xa, xk = _arr(x)
    out = np.empty(xa.shape, dtype=object)
    for idx in np.ndindex(xa.shape):
        out[idx] = f(xa[idx])
    return _mk(out, kind or xk)

def _num(x):
    """entry as Frac for arithmetic (ints stay ints when both ints)"""
    return x

def _add(a, b):
    if isinstance(a, (_pybool, SymBool)): a = Frac.of(a) if isinstance(a, SymBool) else _pyint(a)
    if isinstance(b, (_pybool, SymBool)): b = Frac.of(b) if isinstance(b, SymBool) else _pyint(b)
    return a + b
def _sub(a, b):
    if isinstance(a, (_pybool, SymBool)): a = Frac.of(a) if isinstance(a, SymBool) else _pyint(a)
    if isinstance(b, (_pybool, SymBool)): b = Frac.of(b) if isinstance(b, SymBool) else _pyint(b)
    return a - b
def _mul(a, b):
    if isinstance(a, _pybool): a = _pyint(a)
    if isinstance(b, _pybool): b = _pyint(b)
    if isinstance(a, SymBool): a = Frac.of(a)
    if isinstance(b, SymBool): b = Frac.of(b)
    if isinstance(a, _pyint) and not isinstance(b, _pyint): a = Frac.const(a)
    if isinstance(b, _pyint) and not isinstance(a, _pyint): b = Frac.const(b)
    return a * b
def _div(a, b):
    return Frac.of(a) / Frac.of(b)

def _norm_dim(d, nd):
    return d + nd if d < 0 else d

# --------------------------------------------------------------------------
# Tensor
# --------------------------------------------------------------------------

class Tensor:
    __array_priority__ = 1000

    def __new__(cls, *args, **kwargs):
        t = object.__new__(cls)
        if len(args) == 1 and isinstance(args[0], Tensor):
            t._a, t._k = args[0]._a, args[0]._k
        elif len(args) == 1 and isinstance(args[0], (list, tuple, np.ndarray)):
            t._a, t._k = _arr(args[0], 'f'); t._a = _as_float_entries(t._a)
        elif len(args) >= 1 and builtins.all(isinstance(a, _pyint) for a in args):
            a = np.empty(tuple(args), dtype=object)
            for idx in np.ndindex(a.shape): a[idx] = Frac.const(0)
            t._a, t._k = a, 'f'
        elif not args:
            t._a, t._k = np.empty((0,), dtype=object), 'f'
        else:
            raise EngineGap(f"Tensor constructor {args!r}")
        t.requires_grad = False; t.grad = None
        return t

    def __getattr__(self, name):
        # only reached when the model has no such attribute: a real torch.Tensor attribute that is not modelled is an
        # engine gap (undecided / bounded fallback), never a verdict on the code; anything else is a genuine AttributeError
        if not (name.startswith('__') and name.endswith('__')):
            try:
                import torch as _rt
                real = hasattr(_rt.Tensor, name)
            except Exception:
                real = False
            if real: raise EngineGap(f"torch.Tensor.{name} not modelled")
        raise AttributeError(f"'{type(self).__name__}' object has no attribute '{name}'")
    def __init__(self, *args, **kwargs):
        pass

    @classmethod
    def __torch_function__(cls, func, types, args=(), kwargs=None):
        kwargs = kwargs or {}
        old = _DISPATCH[0]; _DISPATCH[0] = False
        try:
            return func._impl(*args, **kwargs)
        finally:
            _DISPATCH[0] = old

    @staticmethod
    def as_subclass(t, cls):
        n = object.__new__(cls)
        n._a, n._k = t._a, t._k
        n.requires_grad = t.requires_grad; n.grad = None
        return n

    @staticmethod
    def _make_subclass(cls, data, requires_grad=False):
        n = Tensor.as_subclass(data, cls)
        n.requires_grad = requires_grad
        return n

    # ---- attributes
    @property
    def shape(self): return Size(self._a.shape)
    def size(self, dim=None):
        return Size(self._a.shape) if dim is None else self._a.shape[dim]
    @property
    def dtype(self): return {'f': _DEFAULT, 'i': int64, 'b': bool}[self._k]
    @property
    def device(self): return _CPU
    @property
    def layout(self): return 'strided'
    @property
    def ndim(self): return self._a.ndim
    def dim(self): return self._a.ndim
    def numel(self): return _pyint(self._a.size)
    nelement = numel
    @property
    def is_sparse(self): return False
    @property
    def is_leaf(self): return True
    @property
    def data(self): return _cut(self)
    def is_floating_point(self): return self._k == 'f'
    def __len__(self):
        if self._a.ndim == 0: raise TypeError("len() of a 0-d tensor")
        return self._a.shape[0]
    def __iter__(self):
        if self._a.ndim == 0: raise TypeError("iteration over a 0-d tensor")
        for i in range(self._a.shape[0]):
            yield self[i]
    def __repr__(self):
        return f'{type(self).__name__}({self._a.tolist()!r})'
    def __hash__(self): return id(self)

    def item(self):
        assert self._a.size == 1, "item() on non-scalar"
        x = self._a.reshape(-1)[0]
        if isinstance(x, Frac) and x.is_const():
            c = x.cval()
            return c
        return x
    def tolist(self):
        return self._a.tolist()
    def __bool__(self):
        assert self._a.size == 1, "Boolean value of Tensor with more than one value is ambiguous"
        x = self._a.reshape(-1)[0]
        if isinstance(x, SymBool): return decide(x)
        return _pybool(x)
    def __float__(self): return _pyfloat(self.item())
    def __int__(self): return _pyint(self.item())
    def __index__(self):
        x = self.item()
        return _pyint(x)

    # ---- no-op / trivial
    def contiguous(self, *a, **k): return contiguous(self)
    def is_contiguous(self, *a, **k): return bool(self._a.flags['C_CONTIGUOUS'])
    def cpu(self): return self
    def cuda(self, *a, **k): return self
    def requires_grad_(self, flag=True):
        self.requires_grad = flag; return self
    def numpy(self): raise EngineGap("numpy() of symbolic tensor")
    def float(self): return self.to(float32)
    def double(self): return self.to(float64)
    def long(self): return self.to(int64)
    def int(self): return self.to(int64)
    def bool(self): return self.to(bool)
    def type(self, dt=None, **k):
        if dt is None: return 'torch.DoubleTensor'
        return self.to(dt)
    def to(self, *args, **kwargs):
        dt = kwargs.get('dtype')
        for a in args:
            if isinstance(a, dtype): dt = a
            elif isinstance(a, Tensor): dt = a.dtype
        if dt is None or dt.kind == self._k: return self
        if dt.kind == 'f': return _mk(_as_float_entries(self._a), 'f')
        if dt.kind == 'i':
            def cv(x):
                if isinstance(x, (_pybool, _pyint)): return _pyint(x)
                if isinstance(x, SymBool): return _pyint(decide(x))
                if isinstance(x, Frac) and x.is_const():
                    return _pyint(math.trunc(x.cval()))
                raise EngineGap("symbolic float -> int conversion")
            return _ew1(cv, self, 'i')
        if dt.kind == 'b':
            def cb(x):
                if isinstance(x, (_pybool, SymBool)): return x
                r = (Frac.of(x) == 0)
                return (not r) if isinstance(r, _pybool) else ~r
            return _ew1(cb, self, 'b')
        raise EngineGap(f"to({dt})")
    def type_as(self, o): return self.to(o.dtype)

    def detach(self): return _detach(self)
    def detach_(self): return self
    def clone(self, *a, **k): return _clone(self)
    def tensor(self): return Tensor.as_subclass(self, Tensor)

    # ---- arithmetic
    def __add__(self, o): return add(self, o)
    def __radd__(self, o): return add(o, self)
    def __sub__(self, o): return sub(self, o)
    def __rsub__(self, o): return sub(o, self)
    def __mul__(self, o): return mul(self, o)
    def __rmul__(self, o): return mul(o, self)
    def __truediv__(self, o): return div(self, o)
    def __rtruediv__(self, o): return div(o, self)
    def __floordiv__(self, o): return floor_divide(self, o)
    def __mod__(self, o): return remainder(self, o)
    def __neg__(self): return neg(self)
    def __pos__(self): return self
    def __pow__(self, o): return pow(self, o)
    def __rpow__(self, o): return pow(o, self)
    def __matmul__(self, o): return matmul(self, o)
    def __rmatmul__(self, o): return matmul(o, self)
    def __abs__(self): return abs(self)
    def __iadd__(self, o): return self.add_(o)
    def __isub__(self, o): return self.sub_(o)
    def __imul__(self, o): return self.mul_(o)
    def __itruediv__(self, o): return self.div_(o)
    def __gt__(self, o): return gt(self, o)
    def __ge__(self, o): return ge(self, o)
    def __lt__(self, o): return lt(self, o)
    def __le__(self, o): return le(self, o)
    def __eq__(self, o): return eq(self, o)
    def __ne__(self, o): return ne(self, o)
    def __invert__(self): return logical_not(self)
    def __and__(self, o): return logical_and(self, o)
    def __rand__(self, o): return logical_and(o, self)
    def __or__(self, o): return logical_or(self, o)
    def __ror__(self, o): return logical_or(o, self)
    def __xor__(self, o): return logical_xor(self, o)

    # in-place (write through the shared array => views see it)
    def _assign(self, r):
        ra = r._a if isinstance(r, Tensor) else _arr(r)[0]
        self._a[...] = np.broadcast_to(ra, self._a.shape)
        return self
    def add_(self, o, alpha=1, **kw):
        alpha = kw.get('alpha', alpha)
        return _inplace(self, add._impl(self, o if alpha == 1 else mul._impl(o, alpha)))
    def sub_(self, o, alpha=1): return _inplace(self, sub._impl(self, o if alpha == 1 else mul._impl(o, alpha)))
    def mul_(self, o): return _inplace(self, mul._impl(self, o))
    def div_(self, o): return _inplace(self, div._impl(self, o))
    def neg_(self): return _inplace(self, neg._impl(self))
    def clamp_(self, min=None, max=None): return _inplace(self, clamp._impl(self, min, max))
    def zero_(self): return self.fill_(0)
    def fill_(self, v):
        v = _sc(v)
        if self._k == 'f': v = Frac.of(v)
        for idx in np.ndindex(self._a.shape): self._a[idx] = v
        return self
    def copy_(self, src, *a, **k): return copy_(self, src)
    def squeeze_(self, dim=None):
        self._a = squeeze._impl(self, dim)._a if dim is not None else squeeze._impl(self)._a
        return self
    def unsqueeze_(self, dim):
        self._a = unsqueeze._impl(self, dim)._a; return self
    def index_fill_(self, dim, index, value):
        idx = [slice(None)] * self._a.ndim
        ii = [(_pyint(i) % self._a.shape[dim]) for i in _T(index)._a.reshape(-1)]
        idx[dim] = ii
        v = _sc(value)
        if self._k == 'f': v = Frac.of(v)
        sub_ = self._a[tuple(idx)]
        for k in np.ndindex(sub_.shape): sub_[k] = v
        self._a[tuple(idx)] = sub_
        return self
    def index_copy_(self, dim, index, source): return index_copy_(self, dim, index, source)
    def index_add_(self, dim, index, source, alpha=1): return index_add_(self, dim, index, source, alpha=alpha)
    def masked_fill_(self, mask, value):
        m = _concrete_mask(mask)
        v = _sc(value)
        if self._k == 'f': v = Frac.of(v)
        mb = np.broadcast_to(m, self._a.shape)
        for idx in np.ndindex(self._a.shape):
            if mb[idx]: self._a[idx] = v
        return self
    def masked_fill(self, mask, value): return _clone(self).masked_fill_(mask, value)

    def __getitem__(self, idx): return getitem(self, idx)
    def __setitem__(self, idx, val): return setitem(self, idx, val)

    def backward(self, *a, **k): raise EngineGap("autograd engine is not modelled (see deriv contracts)")


def _inplace(t, r):
    t._a[...] = np.broadcast_to(r._a, t._a.shape)
    return t

CUTS = None      # autograd-cut tracking (Env.no_graph_cut): {marker Poly: detached value} while a plain-autograd segment runs
def _cut(x):
    """value of x with the autograd graph cut.  Outside a tracked segment: the value itself.  Inside: the same value, each
    non-constant entry tagged with a fresh marker carried in Frac.guards (guards are propagated by every arithmetic operation and
    atom, never by comparisons), so that the entries of the result computed FROM a detached value are known afterwards."""
    if CUTS is None or x._k != 'f': return _mk(x._a, x._k)
    from . import algebra as _A
    out = np.empty(x._a.shape, dtype=object)
    for idx in np.ndindex(x._a.shape):
        v = x._a[idx]
        if isinstance(v, Frac) and not v.is_const():
            mk_ = _A.CTX.sym(f'cut{len(CUTS)}', aux=True).num
            CUTS[mk_] = v
            out[idx] = Frac(v.num, v.den, v.guards | frozenset([mk_]), v.nn)
        else:
            out[idx] = v
    return _mk(out, x._k)
@api
def _detach(x): return _cut(x)
_detach.__name__ = 'detach'
@api
def _clone(x): return _mk(x._a.copy(), x._k)
@api
def contiguous(x, *a, **k):
    """the tensor itself when it is dense in memory, otherwise a dense COPY (views made by transpose / permute / expand / strided slices
    share the storage of their base: numpy's flags are torch's is_contiguous for these layouts)"""
    return x if x._a.flags['C_CONTIGUOUS'] else _mk(np.ascontiguousarray(x._a), x._k)
_clone.__name__ = 'clone'
def clone(x, **k): return _clone(x)
def detach(x): return _detach(x)

@api
def copy_(dst, src, *a, **k):
    s = _T(src)
    sa = s._a
    if dst._k == 'f' and s._k != 'f': sa = _as_float_entries(sa)
    dst._a[...] = np.broadcast_to(sa, dst._a.shape)
    return dst

# --------------------------------------------------------------------------
# indexing
# --------------------------------------------------------------------------

def _concrete_mask(m):
    ma = _T(m)._a
    out = np.empty(ma.shape, dtype=np.bool_)
    for idx in np.ndindex(ma.shape):
        x = ma[idx]
        out[idx] = decide(x) if isinstance(x, (SymBool, Frac)) else _pybool(x)
    return out

def _conv_index(idx):
    if not isinstance(idx, tuple): idx = (idx,)
    out = []
    for i in idx:
        if isinstance(i, Tensor):
            if i._k == 'b': out.append(_concrete_mask(i))
            else:
                out.append(np.array(_ew1(lambda x: _pyint(x) if not isinstance(x, Frac) else _pyint(x.cval()), i, 'i')._a.tolist(), dtype=np.int64).reshape(i._a.shape))
        elif isinstance(i, (list,)):
            if len(i) and isinstance(i[0], (_pybool, np.bool_)): out.append(np.array(i, dtype=np.bool_))
            else: out.append(np.array([_pyint(j) for j in i], dtype=np.int64))
        elif isinstance(i, (SymBool,)):
            out.append(np.array(decide(i)))
        elif isinstance(i, Frac):
            out.append(_pyint(i.cval()))
        elif isinstance(i, slice):
            def cv(v):
                if v is None: return None
                if isinstance(v, Tensor): v = v.item()
                if isinstance(v, Frac): v = v.cval()
                return _pyint(v)
            out.append(slice(cv(i.start), cv(i.stop), cv(i.step)))
        else:
            out.append(i)
    return tuple(out)

@api(name='__getitem__')
def getitem(x, idx):
    r = x._a[_conv_index(idx)]
    if not isinstance(r, np.ndarray):
        a = np.empty((), dtype=object); a[()] = r; r = a
    return _mk(r, x._k)

@api(name='__setitem__')
def setitem(x, idx, val):
    ci = _conv_index(idx)
    if isinstance(val, Tensor):
        va = val._a
        if x._k == 'f' and val._k != 'f': va = _as_float_entries(va)
    else:
        va, vk = _arr(val)
        if x._k == 'f': va = _as_float_entries(va)
    if x._k == 'i':
        # writing into an integer tensor truncates toward zero (torch copies with a cast): exact for constants, a gap for symbolic values
        def _trunc(e):
            if isinstance(e, (_pybool, _pyint)): return _pyint(e)
            if isinstance(e, Frac):
                if e.is_const(): return _pyint(math.trunc(e.cval()))
                raise EngineGap("a symbolic real is stored into an integer tensor (truncation)")
            return e
        vt = np.empty(va.shape, dtype=object)
        for i_ in np.ndindex(va.shape): vt[i_] = _trunc(va[i_])
        va = vt
    tgt = x._a[ci]
    if isinstance(tgt, np.ndarray):
        if tgt.size == 0: return
        # torch allows a (k,)-shaped value for a boolean-mask selection etc.: numpy semantics agree
        x._a[ci] = np.broadcast_to(va, tgt.shape) if va.shape != tgt.shape else va
    else:
        x._a[ci] = va.reshape(-1)[0] if va.size == 1 else va

# --------------------------------------------------------------------------
# creation
# --------------------------------------------------------------------------

def _shape_args(size):
    if len(size) == 1 and isinstance(size[0], (tuple, list, Size)): size = tuple(size[0])
    return tuple(_pyint(s) if not isinstance(s, Tensor) else _pyint(s.item()) for s in size)

def _filled(shape, v, kind):
    a = np.empty(shape, dtype=object)
    for idx in np.ndindex(a.shape): a[idx] = v
    return _mk(a, kind)

def _kind_from(dt, default='f'):
    return default if dt is None else dt.kind

def zeros(*size, dtype=None, device=None, requires_grad=False, **k):
    kd = _kind_from(dtype)
    return _filled(_shape_args(size), {'f': Frac.const(0), 'i': 0, 'b': False}[kd], kd)
def ones(*size, dtype=None, device=None, requires_grad=False, **k):
    kd = _kind_from(dtype)
    return _filled(_shape_args(size), {'f': Frac.const(1), 'i': 1, 'b': True}[kd], kd)
def empty(*size, dtype=None, **k): return zeros(*size, dtype=dtype)
def full(size, fill_value, dtype=None, **k):
    v = _sc(fill_value)
    kd = _kind_from(dtype, _kind_of_entry(v) if not isinstance(v, _pyint) else 'f')
    if kd == 'f': v = Frac.of(v)
    return _filled(tuple(size), v, kd)
def zeros_like(x, dtype=None, requires_grad=False, **k):
    kd = _kind_from(dtype, x._k); return _filled(x._a.shape, {'f': Frac.const(0), 'i': 0, 'b': False}[kd], kd)
def ones_like(x, dtype=None, requires_grad=False, **k):
    kd = _kind_from(dtype, x._k); return _filled(x._a.shape, {'f': Frac.const(1), 'i': 1, 'b': True}[kd], kd)
def empty_like(x, **k): return zeros_like(x)
def full_like(x, v, **k): return full(x._a.shape, v)
def eye(n, m=None, dtype=None, device=None, requires_grad=False, **k):
    m = n if m is None else m
    a = np.empty((n, m), dtype=object)
    for i in range(n):
        for j in range(m): a[i, j] = Frac.const(1 if i == j else 0)
    return _mk(a, 'f')
def tensor(data, dtype=None, device=None, requires_grad=False, **k):
    if isinstance(data, Tensor): return _mk(data._a.copy(), data._k)
    a, kd = _arr(data)
    if dtype is not None: kd = dtype.kind
    elif kd == 'i' and builtins.any(isinstance(x, (Frac,)) for x in a.flat): kd = 'f'
    if kd == 'f': a = _as_float_entries(a)
    t = _mk(a.copy() if a.ndim else a, kd)
    t.requires_grad = requires_grad
    return t
def as_tensor(data, dtype=None, **k):
    if isinstance(data, Tensor): return data if dtype is None else data.to(dtype)
    return tensor(data, dtype=dtype)
def from_numpy(a): return tensor(a.tolist())
def is_tensor(x): return isinstance(x, Tensor)
def arange(*args, dtype=None, device=None, **k):
    vals = []
    for v in args:
        if isinstance(v, Tensor): v = v.item()
        if isinstance(v, Frac): v = v.cval()
        vals.append(v)
    if len(vals) == 1: start, end, step = 0, vals[0], 1
    elif len(vals) == 2: start, end, step = vals[0], vals[1], 1
    else: start, end, step = vals
    isint = builtins.all(isinstance(v, _pyint) for v in (start, end, step)) and (dtype is None or dtype.kind == 'i')
    n = builtins.max(0, math.ceil(Q(end - start) / Q(step))) if not isinstance(end, _pyfloat) else builtins.max(0, math.ceil((end - start) / step))
    if (end - start) * step < 0 and n == 0 and start != end:
        raise RuntimeError("upper bound and lower bound inconsistent with step sign")
    if dtype is not None and dtype.kind == 'i':
        items = [_pyint(start + i * step) for i in range(n)]
        return tensor(items, dtype=int64) if items else _mk(np.empty((0,), object), 'i')
    items = [start + i * step for i in range(n)]
    if isint: return tensor(items, dtype=int64) if items else _mk(np.empty((0,), object), 'i')
    return tensor([Frac.const(A.toQ(x)) for x in items]) if items else _mk(np.empty((0,), object), 'f')
def linspace(start, end, steps, **k):
    s, e = Q(A.toQ(start)), Q(A.toQ(end))
    return tensor([Frac.const(s + (e - s) * i / (steps - 1)) for i in range(steps)])

# --------------------------------------------------------------------------
# elementwise
# --------------------------------------------------------------------------

@api
def add(x, y, alpha=1, out=None):
    if alpha != 1: y = mul._impl(y, alpha)
    return _ew2(_add, x, y)
@api
def sub(x, y, alpha=1):
    if alpha != 1: y = mul._impl(y, alpha)
    return _ew2(_sub, x, y)
@api
def mul(x, y, out=None): return _ew2(_mul, x, y)
multiply = mul
@api
def div(x, y, rounding_mode=None):
    if rounding_mode == 'floor': return floor_divide._impl(x, y)
    return _ew2(_div, x, y, 'f')
true_divide = div
divide = div
@api
def neg(x): return _ew1(lambda a: -(Frac.of(a) if isinstance(a, (SymBool, _pybool)) else a), x, None if _T(x)._k != 'b' else 'i')
negative = neg

def _floordiv(a, b):
    if isinstance(a, _pyint) and isinstance(b, _pyint): return a // b
    a, b = Frac.of(a), Frac.of(b)
    if a.is_const() and b.is_const():
        return Frac.const(math.floor(Q(a.cval()) / Q(b.cval())))
    raise EngineGap("floor division of symbolic values")
@api
def floor_divide(x, y): return _ew2(_floordiv, x, y)
def _rem(a, b):
    if isinstance(a, _pyint) and isinstance(b, _pyint): return a % b
    a, b = Frac.of(a), Frac.of(b)
    if a.is_const() and b.is_const():
        q = math.floor(Q(a.cval()) / Q(b.cval())); return Frac.const(Q(a.cval()) - q * Q(b.cval()))
    raise EngineGap("remainder of symbolic values")
@api
def remainder(x, y): return _ew2(_rem, x, y)
def floor(x):
    def f(a):
        a = Frac.of(a)
        if a.is_const(): return Frac.const(math.floor(a.cval()))
        raise EngineGap("floor of symbolic value")
    return _ew1(f, x)
def ceil(x):
    def f(a):
        a = Frac.of(a)
        if a.is_const(): return Frac.const(math.ceil(a.cval()))
        raise EngineGap("ceil of symbolic value")
    return _ew1(f, x)
def round(x):
    def f(a):
        a = Frac.of(a)
        if a.is_const(): return Frac.const(builtins.round(a.cval()))
        raise EngineGap("round of symbolic value")
    return _ew1(f, x)

def _powf(a, b):
    if isinstance(b, Tensor): b = b.item()
    if isinstance(a, _pyint) and isinstance(b, _pyint) and b >= 0: return a ** b
    return Frac.of(a) ** (b.cval() if isinstance(b, Frac) and b.is_const() else b)
@api
def pow(x, y):
    return _ew2(_powf, x, y)

def _u(f, kind=None):
    def g(x, *a, **k): return _ew1(lambda e: f(Frac.of(e)), x, kind or 'f')
    return g
sin = api(_u(AT.sin), name='sin'); cos = api(_u(AT.cos), name='cos')
def tan(x): return div(sin(x), cos(x))
exp = api(_u(AT.exp), name='exp'); log = api(_u(AT.log), name='log')
sqrt = api(_u(AT.sqrt), name='sqrt')
atan = api(_u(AT.atan), name='atan'); arctan = atan
asin = api(_u(AT.asin), name='asin'); arcsin = asin
def acos(x): return sub(div(_pi(), 2), asin(x))
arccos = acos
abs = api(_u(AT.absval), name='abs'); absolute = abs
sign = api(_u(AT.sign), name='sign')
nan_to_num = api(_u(AT.nan_to_num), name='nan_to_num')
def square(x): return mul(x, x)
def reciprocal(x): return div(1, x)
def rsqrt(x): return div(1, sqrt(x))
def expm1(x): return sub(exp(x), 1)
def log1p(x): return log(add(x, 1))
@api
def atan2(y, x): return _ew2(lambda a, b: AT.atan2(Frac.of(a), Frac.of(b)), y, x, 'f')
arctan2 = atan2
def sinc(x): raise EngineGap("sinc")

def _pi():
    return AT.pi()

def _cmp(op):
    def f(a, b):
        if isinstance(a, (_pybool, SymBool)) or isinstance(b, (_pybool, SymBool)):
            if op == 'eq': return decide(a) == decide(b)
            if op == 'ne': return decide(a) != decide(b)
            a = Frac.of(a); b = Frac.of(b)
        if isinstance(a, _pyint) and isinstance(b, _pyint):
            return {'gt': a > b, 'ge': a >= b, 'lt': a < b, 'le': a <= b, 'eq': a == b, 'ne': a != b}[op]
        if isinstance(a, Inf) and not isinstance(b, Inf):
            return {'gt': a > b, 'ge': a >= b, 'lt': a < b, 'le': a <= b, 'eq': a == b, 'ne': not (a == b)}[op]
        a = a if isinstance(a, Inf) else Frac.of(a)
        return {'gt': lambda: a > b, 'ge': lambda: a >= b, 'lt': lambda: a < b, 'le': lambda: a <= b,
                'eq': lambda: a == b, 'ne': lambda: a != b}[op]()
    return f
@api
def gt(x, y): return _ew2(_cmp('gt'), x, y, 'b')
@api
def ge(x, y): return _ew2(_cmp('ge'), x, y, 'b')
@api
def lt(x, y): return _ew2(_cmp('lt'), x, y, 'b')
@api
def le(x, y): return _ew2(_cmp('le'), x, y, 'b')
@api
def eq(x, y):
    if not isinstance(y, (Tensor, _pyint, _pyfloat, Frac, Q, _pybool, SymBool, list, tuple, Inf)): return False
    return _ew2(_cmp('eq'), x, y, 'b')
@api
def ne(x, y): return _ew2(_cmp('ne'), x, y, 'b')
def logical_not(x): return _ew1(lambda a: (not a) if isinstance(a, _pybool) else (~a if isinstance(a, SymBool) else (Frac.of(a) == 0)), x, 'b')
def _land(a, b):
    if isinstance(a, Frac): a = a != 0
    if isinstance(b, Frac): b = b != 0
    if isinstance(a, _pybool): return b if a else False
    if isinstance(b, _pybool): return a if b else False
    return a & b
def _lor(a, b):
    if isinstance(a, Frac): a = a != 0
    if isinstance(b, Frac): b = b != 0
    if isinstance(a, _pybool): return True if a else b
    if isinstance(b, _pybool): return True if b else a
    return a | b
def logical_and(x, y): return _ew2(_land, x, y, 'b')
def logical_or(x, y): return _ew2(_lor, x, y, 'b')
def logical_xor(x, y): return _ew2(lambda a, b: decide(a) != decide(b), x, y, 'b')
def isclose(a, b, rtol=Q(1, 100000), atol=Q(1, 100000000), equal_nan=False):
    if isinstance(rtol, _pyfloat): rtol = A.toQ(rtol)
    if isinstance(atol, _pyfloat): atol = A.toQ(atol)
    def f(x, y):
        x, y = Frac.of(x), Frac.of(y)
        return AT.absval(x - y) <= atol + rtol * AT.absval(y)
    return _ew2(f, a, b, 'b')
def allclose(a, b, rtol=Q(1, 100000), atol=Q(1, 100000000), equal_nan=False):
    r = isclose(a, b, rtol, atol)
    for e in r._a.flat:
        if not decide(e): return False
    return True
def _normalize(x, p=2, dim=1, eps=Q(1, 10 ** 12)):
    n = norm(x, p, dim=dim, keepdim=True)
    return div(x, clamp(n, min=eps))
def isnan(x): return _ew1(lambda a: False, x, 'b')
def isinf(x): return _ew1(lambda a: isinstance(a, Inf), x, 'b')
def isfinite(x): return _ew1(lambda a: not isinstance(a, Inf), x, 'b')

@api
def all(x, dim=None, keepdim=False):
    x = _T(x)
    if dim is None:
        for e in x._a.flat:
            if not decide(e if not isinstance(e, Frac) else (e != 0)): return _mk(_arr(False)[0], 'b')
        return _mk(_arr(True)[0], 'b')
    return _reduce(x, dim, keepdim, lambda items: builtins.all(decide(e) for e in items), 'b')
@api
def any(x, dim=None, keepdim=False):
    x = _T(x)
    if dim is None:
        for e in x._a.flat:
            if decide(e if not isinstance(e, Frac) else (e != 0)): return _mk(_arr(True)[0], 'b')
        return _mk(_arr(False)[0], 'b')
    return _reduce(x, dim, keepdim, lambda items: builtins.any(decide(e) for e in items), 'b')

def _reduce(x, dim, keepdim, f, kind=None):
    x = _T(x)
    if dim is None:
        r = f(list(x._a.flat))
        a = np.empty((), dtype=object); a[()] = r
        if keepdim: a = a.reshape((1,) * x._a.ndim)
        return _mk(a, kind or x._k)
    dims = (dim,) if isinstance(dim, _pyint) else tuple(dim)
    dims = tuple(sorted(_norm_dim(d, x._a.ndim) for d in dims))
    oshape = [s for i, s in enumerate(x._a.shape) if i not in dims]
    out = np.empty(tuple(oshape), dtype=object)
    moved = np.moveaxis(x._a, dims, tuple(range(x._a.ndim - len(dims), x._a.ndim)))
    for idx in np.ndindex(out.shape):
        out[idx] = f(list(moved[idx].reshape(-1)))
    if keepdim:
        ks = [1 if i in dims else s for i, s in enumerate(x._a.shape)]
        out = out.reshape(ks)
    return _mk(out, kind or x._k)

def _sumf(items):
    s = None
    for e in items:
        if isinstance(e, (_pybool,)): e = _pyint(e)
        if isinstance(e, SymBool): e = Frac.of(e)
        s = e if s is None else s + e
    return s if s is not None else Frac.const(0)
@api
def sum(x, dim=None, keepdim=False, dtype=None, **k):
    if 'axis' in k: dim = k['axis']
    x = _T(x)
    r = _reduce(x, dim, keepdim, _sumf, 'i' if x._k == 'b' else x._k)
    return r
@api
def mean(x, dim=None, keepdim=False, **k):
    x = _T(x)
    if dim is None: n = x._a.size
    else:
        dims = (dim,) if isinstance(dim, _pyint) else tuple(dim)
        n = 1
        for d in dims: n *= x._a.shape[d]
    return div._impl(sum._impl(x, dim, keepdim), n)
@api
def prod(x, dim=None, keepdim=False, **k):
    def pf(items):
        s = Frac.const(1)
        for e in items: s = s * e
        return s
    return _reduce(x, dim, keepdim, pf)
@api
def cumsum(x, dim, **k):
    x = _T(x); d = _norm_dim(dim, x._a.ndim)
    out = x._a.copy()
    mv = np.moveaxis(out, d, 0)
    for i in range(1, mv.shape[0]):
        for idx in np.ndindex(mv.shape[1:]):
            mv[(i,) + idx] = mv[(i - 1,) + idx] + mv[(i,) + idx]
    return _mk(out, x._k)

def _maxf(items, sgn=1):
    best = items[0]; bi = 0
    for i, e in enumerate(items[1:], 1):
        c = (Frac.of(e) > Frac.of(best)) if sgn > 0 else (Frac.of(e) < Frac.of(best))
        if decide(c): best, bi = e, i
    return best, bi
def _minmax(x, dim, keepdim, sgn):
    x = _T(x)
    if dim is None:
        return _reduce(x, None, False, lambda it: _maxf(it, sgn)[0])
    v = _reduce(x, dim, keepdim, lambda it: _maxf(it, sgn)[0])
    i = _reduce(x, dim, keepdim, lambda it: _maxf(it, sgn)[1], 'i')
    return _NT('values', 'indices')(v, i)
@api
def max(x, dim=None, keepdim=False):
    if isinstance(dim, Tensor): return maximum(x, dim)
    return _minmax(x, dim, keepdim, 1)
@api
def min(x, dim=None, keepdim=False):
    if isinstance(dim, Tensor): return minimum(x, dim)
    return _minmax(x, dim, keepdim, -1)
def amax(x, dim=None, keepdim=False): return _reduce(x, dim, keepdim, lambda it: _maxf(it, 1)[0])
def amin(x, dim=None, keepdim=False): return _reduce(x, dim, keepdim, lambda it: _maxf(it, -1)[0])
def argmax(x, dim=None, keepdim=False): return _reduce(x, dim, keepdim, lambda it: _maxf(it, 1)[1], 'i')
def argmin(x, dim=None, keepdim=False): return _reduce(x, dim, keepdim, lambda it: _maxf(it, -1)[1], 'i')
def maximum(x, y): return _ew2(lambda a, b: a if decide(Frac.of(a) >= Frac.of(b)) else b, x, y)
def minimum(x, y): return _ew2(lambda a, b: a if decide(Frac.of(a) <= Frac.of(b)) else b, x, y)

def _NT(*names):
    class R(tuple):
        __slots__ = ()
        def __new__(cls, *vals): return tuple.__new__(cls, vals)
    for i, n in enumerate(names):
        setattr(R, n, property(lambda self, i=i: self[i]))
    return R

@api
def topk(x, k, dim=-1, largest=True, sorted=True):
    """selection by symbolic comparisons (each comparison is a path decision)"""
    x = _T(x); d = _norm_dim(dim, x._a.ndim)
    mv = np.moveaxis(x._a, d, -1)
    vals = np.empty(mv.shape[:-1] + (k,), dtype=object); idxs = np.empty(mv.shape[:-1] + (k,), dtype=object)
    for bi in np.ndindex(mv.shape[:-1]):
        items = list(enumerate(mv[bi]))
        if k > len(items): raise RuntimeError("selected index k out of range")
        chosen = []
        for r in range(k):
            best = 0
            for j in range(1, len(items)):
                a, b = Frac.of(items[j][1]), Frac.of(items[best][1])
                if decide((a > b) if largest else (a < b)): best = j
            chosen.append(items.pop(best))
        for r, (i, v) in enumerate(chosen):
            vals[bi + (r,)] = v; idxs[bi + (r,)] = i
    return _NT('values', 'indices')(_mk(np.moveaxis(vals, -1, d), x._k), _mk(np.moveaxis(idxs, -1, d), 'i'))
def sort(x, dim=-1, descending=False, stable=False):
    n = _T(x)._a.shape[dim]
    return topk(x, n, dim=dim, largest=descending)
def argsort(x, dim=-1, descending=False, stable=False):
    return sort(x, dim, descending).indices

def searchsorted(sorted_sequence, values, right=False, **k):
    """index i with seq[i-1] < v <= seq[i] (left) by comparisons"""
    seq = [Frac.of(e) for e in _T(sorted_sequence)._a.reshape(-1)]
    def f(v):
        v = Frac.of(v); i = 0
        for e in seq:
            if decide((e <= v) if right else (e < v)): i += 1
            else: break
        return i
    return _ew1(f, values, 'i')
def median(x, dim=None, keepdim=False):
    x = _T(x)
    if dim is None:
        n = x._a.size
        s = sort(reshape(x, -1), dim=0).values
        return s[(n - 1) // 2]
    raise EngineGap("median along a dim")
def std(x, dim=None, unbiased=True, keepdim=False, correction=1):
    x = _T(x)
    n = x._a.size if dim is None else x._a.shape[dim]
    m = mean(x, dim, True) if dim is not None else mean(x)
    v = div(sum(square(sub(x, m)), dim, keepdim) if dim is not None else sum(square(sub(x, m))), n - (1 if unbiased else 0))
    return sqrt(v)
def var(x, dim=None, unbiased=True, keepdim=False):
    r = std(x, dim, unbiased, keepdim)
    return mul(r, r)
def rad2deg(x): return div(mul(x, 180), _pi())

@api
def clamp(x, min=None, max=None):
    def f(a):
        a0 = a
        if min is not None:
            m = _sc(min) if not isinstance(min, Tensor) else min.item()
            if decide(Frac.of(a) < Frac.of(m)): a = Frac.of(m) if not isinstance(m, Inf) else m
        if max is not None:
            m = _sc(max) if not isinstance(max, Tensor) else max.item()
            if not isinstance(m, Inf) or m.sign < 0:
                if decide(Frac.of(a) > Frac.of(m)): a = Frac.of(m)
        return a
    return _ew1(f, x)
clip = clamp
@api
def softplus(x, beta=1, threshold=20):
    """torch.nn.functional.softplus INCLUDING its linear switch: x where beta*x > threshold, log(1 + exp(beta x)) / beta elsewhere"""
    bq, tq = Frac.of(_sc(beta)), Frac.of(_sc(threshold))
    def f(v):
        v = Frac.of(v)
        if decide(v * bq > tq): return v
        return AT.log(Frac.const(1) + AT.exp(v * bq)) / bq
    return _ew1(f, x, 'f')
@api
def tensor_split(x, indices_or_sections, dim=0):
    n = x._a.shape[dim]
    if isinstance(indices_or_sections, (list, tuple)):
        cuts = [builtins.min(builtins.max(_pyint(i), 0), n) for i in indices_or_sections]
    else:
        k = _pyint(indices_or_sections)
        cuts = []; acc = 0
        for i in range(k - 1):
            acc += n // k + (1 if i < n % k else 0); cuts.append(acc)
    outs = []; lo = 0
    for c in cuts + [n]:
        idx = [slice(None)] * x._a.ndim; idx[dim] = slice(lo, builtins.max(lo, c)); outs.append(_mk(x._a[tuple(idx)], x._k)); lo = builtins.max(lo, c)
    return tuple(outs)
@api
def unflatten(x, dim, sizes):
    sizes = [_pyint(v) for v in sizes]
    d = dim if dim >= 0 else x._a.ndim + dim
    n = x._a.shape[d]
    if -1 in sizes:
        known = 1
        for v in sizes:
            if v != -1: known *= v
        sizes = [n // known if v == -1 else v for v in sizes]
    return _mk(x._a.reshape(x._a.shape[:d] + tuple(sizes) + x._a.shape[d + 1:]), x._k)
@api
def count_nonzero(x, dim=None):
    nz = ne(x, 0) if x._k != 'b' else x
    return sum(nz.to(int64), dim) if dim is not None else sum(nz.to(int64))
@api
def diff(x, n=1, dim=-1, prepend=None, append=None):
    if prepend is not None or append is not None: raise EngineGap("diff with prepend/append")
    r = x
    for _ in range(_pyint(n)):
        k = r._a.shape[dim]
        hi = [slice(None)] * r._a.ndim; lo = list(hi); hi[dim] = slice(1, k); lo[dim] = slice(0, k - 1)
        r = sub(_mk(r._a[tuple(hi)], r._k), _mk(r._a[tuple(lo)], r._k))
    return r
@api
def bitwise_left_shift(x, y):
    def f(a, b):
        a, b = _sc(a), _sc(b)
        if not (isinstance(a, _pyint) and isinstance(b, _pyint)): raise EngineGap("bitwise shift of a symbolic value")
        return a << b
    return _ew2(f, x, y, 'i')
@api
def softmax(x, dim=-1, dtype=None):
    e = exp(sub(x, amax(x, dim, True))) if False else exp(x)
    return div(e, sum(e, dim, True))
@api
def pad(x, pad, mode='constant', value=None):
    """torch.nn.functional.pad, constant mode: pad = (left_last, right_last, left_2nd_last, right_2nd_last, ...)"""
    if mode != 'constant': raise EngineGap(f"pad mode {mode}")
    v = Frac.const(0) if value is None else Frac.of(_sc(value))
    if x._k != 'f': v = 0 if value is None else value
    widths = [(0, 0)] * x._a.ndim
    pad = [_pyint(p) for p in pad]
    for i in range(len(pad) // 2):
        widths[x._a.ndim - 1 - i] = (pad[2 * i], pad[2 * i + 1])
    if builtins.any(w < 0 for ws in widths for w in ws): raise EngineGap("negative pad")
    out = np.empty(tuple(s_ + a + b for s_, (a, b) in zip(x._a.shape, widths)), dtype=object)
    out[...] = v
    out[tuple(slice(a, a + s_) for s_, (a, b) in zip(x._a.shape, widths))] = x._a
    return _mk(out, x._k)
@api
def clamp_min(x, min): return clamp._impl(x, min=min)
@api
def clamp_max(x, max): return clamp._impl(x, max=max)

@api
def where(cond, x=None, y=None):
    if x is None:
        m = _concrete_mask(cond)
        return tuple(tensor([_pyint(v) for v in ix], dtype=int64) if len(ix) else _mk(np.empty((0,), object), 'i') for ix in np.nonzero(m))
    c = _T(cond)
    xa, xk = _arr(x); ya, yk = _arr(y)
    shape = np.broadcast_shapes(c._a.shape, xa.shape, ya.shape)
    cb = np.broadcast_to(c._a, shape); xb = np.broadcast_to(xa, shape); yb = np.broadcast_to(ya, shape)
    out = np.empty(shape, dtype=object)
    for idx in np.ndindex(shape):
        ce = cb[idx]
        out[idx] = xb[idx] if decide(ce) else yb[idx]
    kd = 'f' if 'f' in (xk, yk) else xk
    if kd == 'f': out = _as_float_entries(out)
    return _mk(out, kd)

# --------------------------------------------------------------------------
# shape ops
# --------------------------------------------------------------------------

@api
def unsqueeze(x, dim):
    d = dim if dim >= 0 else dim + x._a.ndim + 1
    return _mk(np.expand_dims(x._a, d), x._k)
@api
def squeeze(x, dim=None):
    if dim is None: return _mk(x._a.reshape(tuple(s for s in x._a.shape if s != 1)), x._k)
    dims = (dim,) if isinstance(dim, _pyint) else tuple(dim)
    a = x._a
    for d in sorted((_norm_dim(d, a.ndim) for d in dims), reverse=True):
        if a.ndim and a.shape[d] == 1: a = np.squeeze(a, d)
    return _mk(a, x._k)
@api
def expand(x, *size):
    size = _shape_args(size)
    nd = len(size); xs = (1,) * (nd - x._a.ndim) + x._a.shape
    tgt = tuple(xs[i] if s == -1 else s for i, s in enumerate(size))
    return _mk(np.broadcast_to(x._a.reshape(xs), tgt).copy(), x._k)
@api
def expand_as(x, o): return expand._impl(x, *o.shape)
def broadcast_to(x, size): return expand(x, *size)
@api
def repeat(x, *size):
    size = _shape_args(size)
    a = x._a.reshape((1,) * (len(size) - x._a.ndim) + x._a.shape)
    return _mk(np.tile(a, size), x._k)
@api
def tile(x, dims): return repeat._impl(x, *dims)
@api
def repeat_interleave(x, repeats, dim=None, output_size=None):
    if isinstance(repeats, Tensor): repeats = [_pyint(Tensor.item(_mk(np.array(v, dtype=object)))) for v in repeats._a.reshape(-1)] if repeats._a.ndim else int(repeats)
    a = x._a.reshape(-1) if dim is None else x._a
    return _mk(np.repeat(a, repeats, axis=0 if dim is None else dim), x._k)
@api
def reshape(x, *shape):
    shape = _shape_args(shape)
    if x._a.size == 0 and -1 in shape:
        known = 1
        for s in shape:
            if s != -1: known *= s
        shape = tuple(0 if s == -1 else s for s in shape) if known else shape
    return _mk(x._a.reshape(shape), x._k)
@api
def view(x, *shape):
    if len(shape) == 1 and isinstance(shape[0], dtype): return x.to(shape[0])
    return reshape._impl(x, *shape)
@api
def view_as(x, o): return reshape._impl(x, *o.shape)
def flatten(x, start_dim=0, end_dim=-1):
    nd = x._a.ndim; s = _norm_dim(start_dim, nd); e = _norm_dim(end_dim, nd)
    shape = x._a.shape[:s] + (-1,) + x._a.shape[e + 1:]
    return reshape(x, *shape)
def ravel(x): return reshape(x, -1)
@api
def transpose(x, d0, d1): return _mk(np.swapaxes(x._a, d0, d1), x._k)
swapaxes = transpose; swapdims = transpose
@api
def permute(x, *dims):
    dims = _shape_args(dims); return _mk(np.transpose(x._a, dims), x._k)
@api
def movedim(x, s, d): return _mk(np.moveaxis(x._a, s, d), x._k)
moveaxis = movedim
def t(x): return x if x._a.ndim < 2 else transpose(x, 0, 1)
def atleast_1d(x): return x if x._a.ndim >= 1 else reshape(x, 1)
def atleast_2d(x): return x if x._a.ndim >= 2 else reshape(x, 1, -1)
@api
def cat(tensors, dim=0, **k):
    if 'axis' in k: dim = k['axis']
    ts = [_T(t_) for t_ in tensors]
    ts2 = [t_ for t_ in ts if not (t_._a.ndim == 1 and t_._a.size == 0)] or ts[:1]
    kd = 'f' if builtins.any(t_._k == 'f' for t_ in ts2) else ts2[0]._k
    arrs = [(_as_float_entries(t_._a) if kd == 'f' and t_._k != 'f' else t_._a) for t_ in ts2]
    return _mk(np.concatenate(arrs, axis=dim), kd)
concat = cat; concatenate = cat
@api
def stack(tensors, dim=0):
    ts = [_T(t_) for t_ in tensors]
    kd = 'f' if builtins.any(t_._k == 'f' for t_ in ts) else ts[0]._k
    arrs = [(_as_float_entries(t_._a) if kd == 'f' and t_._k != 'f' else t_._a) for t_ in ts]
    d = dim if dim >= 0 else dim + ts[0]._a.ndim + 1
    return _mk(np.stack(arrs, axis=d), kd)
def hstack(ts): return cat(ts, dim=1 if _T(ts[0])._a.ndim > 1 else 0)
def vstack(ts): return cat([atleast_2d(_T(t_)) for t_ in ts], dim=0)
@api
def split(x, size, dim=0):
    d = _norm_dim(dim, x._a.ndim); n = x._a.shape[d]
    if isinstance(size, _pyint):
        sizes = [size] * (n // size) + ([n % size] if n % size else [])
    else:
        sizes = [_pyint(s) for s in size]
        assert builtins.sum(sizes) == n, f"split_with_sizes expects split_sizes to sum exactly to {n}"
    out = []; p = 0
    for s in sizes:
        idx = [slice(None)] * x._a.ndim; idx[d] = slice(p, p + s); p += s
        out.append(_mk(x._a[tuple(idx)], x._k))
    return tuple(out)
@api
def chunk(x, chunks, dim=0):
    n = x._a.shape[dim]; size = -(-n // chunks)
    return split._impl(x, size, dim)
@api
def _take1(a, i, axis):
    """a.take(i, axis) that keeps a 0-d object array (numpy hands back the bare object for a 1-d object array)"""
    idx = [slice(None)] * a.ndim; idx[axis] = i
    r = a[tuple(idx)]
    if not isinstance(r, np.ndarray):
        z = np.empty((), dtype=object); z[()] = r; r = z
    return r
def unbind(x, dim=0):
    return tuple(_mk(_take1(x._a, i, dim), x._k) for i in range(x._a.shape[dim]))
@api
def select(x, dim, index): return _mk(_take1(x._a, _pyint(index), dim), x._k)
@api
def narrow(x, dim, start, length):
    idx = [slice(None)] * x._a.ndim; idx[dim] = slice(start, start + length)
    return _mk(x._a[tuple(idx)], x._k)
def _intlist(index):
    return [_pyint(i if not isinstance(i, Frac) else i.cval()) for i in _T(index)._a.reshape(-1)]
@api
def index_select(x, dim, index):
    return _mk(np.take(x._a, _intlist(index), axis=dim), x._k)
@api
def index_copy_(x, dim, index, source):
    idx = [slice(None)] * x._a.ndim; idx[dim] = _intlist(index)
    if len(idx[dim]): x._a[tuple(idx)] = source._a
    return x
@api
def index_add_(x, dim, index, source, alpha=1):
    ii = _intlist(index)
    for k, i in enumerate(ii):
        idx = [slice(None)] * x._a.ndim; idx[dim] = i
        sidx = [slice(None)] * x._a.ndim; sidx[dim] = k
        cur = x._a[tuple(idx)]; src = source._a[tuple(sidx)]
        x._a[tuple(idx)] = _ew2(_add, _mk(np.asarray(cur, dtype=object), x._k), _mk(np.asarray(src, dtype=object), source._k))._a
    return x
@api
def gather(x, dim, index):
    ia = np.array(_T(index)._a.tolist(), dtype=np.int64).reshape(_T(index)._a.shape)
    return _mk(np.take_along_axis(x._a, ia, axis=dim), x._k)
@api
def take_along_dim(x, index, dim): return gather._impl(x, dim, index)
@api
def flip(x, dims): return _mk(np.flip(x._a, dims), x._k)
@api
def roll(x, shifts, dims=None): return _mk(np.roll(x._a, shifts, dims), x._k)
@api
def diagonal(x, offset=0, dim1=0, dim2=1):
    assert offset == 0
    a = np.moveaxis(x._a, (dim1, dim2), (-2, -1))
    return _mk(np.einsum('...ii->...i', a), x._k)
def diag(x):
    x = _T(x)
    if x._a.ndim == 1:
        n = x._a.shape[0]; out = zeros(n, n)
        for i in range(n): out._a[i, i] = x._a[i]
        return out
    return diagonal(x)
def diag_embed(x):
    x = _T(x); n = x._a.shape[-1]
    out = zeros(*x._a.shape, n)
    for i in range(n): out._a[..., i, i] = x._a[..., i]
    return out
def block_diag(*ts):
    ts = [atleast_2d(_T(t_)) for t_ in ts]
    R = builtins.sum(t_._a.shape[0] for t_ in ts); Cc = builtins.sum(t_._a.shape[1] for t_ in ts)
    out = zeros(R, Cc); r = c = 0
    for t_ in ts:
        out._a[r:r + t_._a.shape[0], c:c + t_._a.shape[1]] = t_._a
        r += t_._a.shape[0]; c += t_._a.shape[1]
    return out
def tril(x, diagonal=0):
    out = _clone(x)
    for idx in np.ndindex(out._a.shape):
        if idx[-1] - idx[-2] > diagonal: out._a[idx] = Frac.const(0)
    return out
def triu(x, diagonal=0):
    out = _clone(x)
    for idx in np.ndindex(out._a.shape):
        if idx[-1] - idx[-2] < diagonal: out._a[idx] = Frac.const(0)
    return out
def meshgrid(*ts, indexing='ij'):
    arrs = np.meshgrid(*[t_._a for t_ in ts], indexing=indexing)
    return tuple(_mk(a.copy(), ts[0]._k) for a in arrs)

# --------------------------------------------------------------------------
# linear algebra
# --------------------------------------------------------------------------

def _mm2(a, b):
    """a: (..., n, k), b: (..., k, m) object arrays already broadcast on batch"""
    n, k = a.shape[-2:]; m = b.shape[-1]
    bs = np.broadcast_shapes(a.shape[:-2], b.shape[:-2])
    a = np.broadcast_to(a, bs + (n, k)); b = np.broadcast_to(b, bs + (k, m))
    out = np.empty(bs + (n, m), dtype=object)
    for bi in np.ndindex(bs):
        A_ = a[bi]; B_ = b[bi]
        for i in range(n):
            for j in range(m):
                s = None
                for l in range(k):
                    x = A_[i, l]; y = B_[l, j]
                    if isinstance(x, Frac) and x.num.is_zero() and not x.guards: continue
                    if isinstance(y, Frac) and y.num.is_zero() and not y.guards: continue
                    p = _mul(x, y)
                    s = p if s is None else s + p
                out[bi + (i, j)] = s if s is not None else Frac.const(0)
    return out

@api
def matmul(x, y, out=None):
    x = _T(x); y = _T(y)
    xa, ya = x._a, y._a
    if xa.ndim == 0 or ya.ndim == 0: raise RuntimeError("matmul of 0-d tensor")
    x1 = xa.ndim == 1; y1 = ya.ndim == 1
    if x1: xa = xa.reshape(1, -1)
    if y1: ya = ya.reshape(-1, 1)
    if xa.shape[-1] != ya.shape[-2]:
        raise RuntimeError(f"mat1 and mat2 shapes cannot be multiplied ({xa.shape} and {ya.shape})")
    r = _mm2(xa, ya)
    if x1: r = r.reshape(r.shape[:-2] + r.shape[-1:])
    if y1: r = r.reshape(r.shape[:-1])
    kd = 'f' if 'f' in (x._k, y._k) else x._k
    res = _mk(r, kd)
    if out is not None:
        out._a[...] = res._a
        return out
    return res
mm = matmul; bmm = matmul
def mv(a, v): return matmul(a, v)
def dot(a, b): return sum(mul(a, b))
def inner(a, b): return matmul(a, _T(b).mT if _T(b)._a.ndim > 1 else b)
def outer(a, b): return mul(unsqueeze(a, -1), unsqueeze(b, -2))
def vecdot(a, b, dim=-1): return sum(mul(a, b), dim=dim)
def trace(x): return sum(diagonal(x))
def kron(a, b):
    a, b = _T(a), _T(b)
    out = zeros(a._a.shape[0] * b._a.shape[0], a._a.shape[1] * b._a.shape[1])
    for i in range(a._a.shape[0]):
        for j in range(a._a.shape[1]):
            out._a[i * b._a.shape[0]:(i + 1) * b._a.shape[0], j * b._a.shape[1]:(j + 1) * b._a.shape[1]] = mul(a._a[i, j], b)._a
    return out

def einsum(eq_, *ops):
    if len(ops) == 1 and isinstance(ops[0], (list, tuple)): ops = tuple(ops[0])
    ops = [_T(o) for o in ops]
    ins, outp = eq_.replace(' ', '').split('->') if '->' in eq_ else (eq_.replace(' ', ''), None)
    ins = ins.split(',')
    # expand ellipsis
    maxell = 0
    for s, o in zip(ins, ops):
        if '...' in s: maxell = builtins.max(maxell, o._a.ndim - (len(s) - 3))
    ell = [chr(ord('A') + i) for i in range(maxell)]
    def ex(s, nd=None):
        if '...' not in s: return s
        k = (nd - (len(s) - 3)) if nd is not None else maxell
        return s.replace('...', ''.join(ell[maxell - k:]))
    ins2 = [ex(s, o._a.ndim) for s, o in zip(ins, ops)]
    if outp is None:
        cnt = {}
        for s in ins2:
            for ch in s: cnt[ch] = cnt.get(ch, 0) + 1
        outp2 = ''.join(ell) + ''.join(sorted(ch for ch, n in cnt.items() if n == 1 and ch not in ell))
    else:
        outp2 = ex(outp)
    dims = {}
    for s, o in zip(ins2, ops):
        for ch, n in zip(s, o._a.shape):
            if dims.get(ch, 1) == 1: dims[ch] = n
    red = [ch for ch in dims if ch not in outp2]
    out = np.empty(tuple(dims[ch] for ch in outp2), dtype=object)
    for oi in np.ndindex(out.shape):
        env = dict(zip(outp2, oi))
        s = Frac.const(0)
        for ri in np.ndindex(tuple(dims[ch] for ch in red)):
            env.update(zip(red, ri))
            p = None
            for sub_, o in zip(ins2, ops):
                idx = tuple(env[ch] if o._a.shape[k] != 1 else 0 for k, ch in enumerate(sub_))
                e = o._a[idx]
                p = e if p is None else _mul(p, e)
            s = s + p
        out[oi] = s
    return _mk(out, 'f')

def _cross(a, b, dim=-1):
    a, b = _T(a), _T(b)
    shape = np.broadcast_shapes(a._a.shape, b._a.shape)
    aa = np.moveaxis(np.broadcast_to(a._a, shape), dim, -1); bb = np.moveaxis(np.broadcast_to(b._a, shape), dim, -1)
    out = np.empty(aa.shape, dtype=object)
    out[..., 0] = _ew2(_sub, _ew2(_mul, _mk(aa[..., 1]), _mk(bb[..., 2])), _ew2(_mul, _mk(aa[..., 2]), _mk(bb[..., 1])))._a
    out[..., 1] = _ew2(_sub, _ew2(_mul, _mk(aa[..., 2]), _mk(bb[..., 0])), _ew2(_mul, _mk(aa[..., 0]), _mk(bb[..., 2])))._a
    out[..., 2] = _ew2(_sub, _ew2(_mul, _mk(aa[..., 0]), _mk(bb[..., 1])), _ew2(_mul, _mk(aa[..., 1]), _mk(bb[..., 0])))._a
    return _mk(np.moveaxis(out, -1, dim), 'f')
def cross(a, b, dim=None):
    """torch.cross (NOT torch.linalg.cross): without dim it uses the FIRST dimension of size 3 (deprecated behaviour of torch)"""
    if dim is None:
        shape = np.broadcast_shapes(_T(a)._a.shape, _T(b)._a.shape)
        cand = [i for i, n in enumerate(shape) if n == 3]
        if not cand: raise RuntimeError("no dimension of size 3 in input")
        dim = cand[0]
    return _cross(a, b, dim)

@api
def norm(x, p=2, dim=None, keepdim=False, **k):
    x = _T(x)
    if 'ord' in k: p = k['ord']
    if p is None: p = 2
    if isinstance(p, str): p = 2 if p == 'fro' else p
    if isinstance(p, Frac): p = p.cval()
    if isinstance(p, Inf) or p == _pyfloat('inf'):
        return _reduce(abs._impl(x), dim, keepdim, lambda it: _maxf(it, 1)[0])
    if p == 1:
        return sum._impl(abs._impl(x), dim, keepdim)
    if p != 2: raise EngineGap(f"norm p={p}")
    return _reduce(x, dim, keepdim, lambda items: AT.norm([Frac.of(e) for e in items]), 'f')

def det(x):
    x = _T(x)
    n = x._a.shape[-1]
    def d(M):
        m = len(M)
        if m == 1: return M[0][0]
        if m == 2: return M[0][0] * M[1][1] - M[0][1] * M[1][0]
        s = Frac.const(0)
        for j in range(m):
            if isinstance(M[0][j], Frac) and M[0][j].num.is_zero(): continue
            minor = [[M[r][c] for c in range(m) if c != j] for r in range(1, m)]
            term = M[0][j] * d(minor)
            s = s + term if j % 2 == 0 else s - term
        return s
    bs = x._a.shape[:-2]
    out = np.empty(bs, dtype=object)
    for bi in np.ndindex(bs):
        out[bi] = d([[Frac.of(x._a[bi + (i, j)]) for j in range(n)] for i in range(n)])
    return _mk(out, 'f')

def inverse(x):
    """adjugate / determinant ; guards det != 0"""
    x = _T(x); n = x._a.shape[-1]
    bs = x._a.shape[:-2]
    out = np.empty(x._a.shape, dtype=object)
    for bi in np.ndindex(bs):
        M = [[Frac.of(x._a[bi + (i, j)]) for j in range(n)] for i in range(n)]
        dt = det(_mk(x._a[bi]))._a.item()
        for i in range(n):
            for j in range(n):
                minor = [[M[r][c] for c in range(n) if c != i] for r in range(n) if r != j]
                if n == 1: cof = Frac.const(1)
                else:
                    a = np.empty((n - 1, n - 1), dtype=object)
                    for r in range(n - 1):
                        for c in range(n - 1): a[r, c] = minor[r][c]
                    cof = det(_mk(a))._a.item()
                if (i + j) % 2: cof = -cof
                out[bi + (i, j)] = cof / dt
    return _mk(out, 'f')

# --------------------------------------------------------------------------
# externals with assumed contracts (installed by contracts via set_external)
# --------------------------------------------------------------------------

EXTERNALS = {}
def set_external(name, fn): EXTERNALS[name] = fn
def _ext(name):
    def f(*a, **k):
        if name not in EXTERNALS: raise EngineGap(f"external {name} has no assumed contract installed")
        return EXTERNALS[name](*a, **k)
    f.__name__ = name.split('.')[-1]
    return f

def solve(A_, B_):
    Ai = inverse(A_)
    return matmul(Ai, B_)

def cholesky_solve(b, L, upper=False):
    if 'cholesky_solve' in EXTERNALS: return EXTERNALS['cholesky_solve'](b, L, upper=upper)
    Am = matmul(L.mT, L) if upper else matmul(L, L.mT)
    return matmul(inverse(Am), b)

# --------------------------------------------------------------------------
# Tensor method binding
# --------------------------------------------------------------------------

def _bind():
    g = globals()
    names = '''add sub mul div neg pow sin cos tan exp log sqrt atan arctan asin arcsin acos abs sign nan_to_num square
        reciprocal rsqrt gt ge lt le eq ne logical_not logical_and logical_or all any sum mean prod cumsum max min amax amin
        argmax argmin clamp clip clamp_min clamp_max diff softmax bitwise_left_shift count_nonzero unflatten tensor_split unsqueeze squeeze expand expand_as repeat repeat_interleave tile reshape view view_as flatten ravel transpose
        swapaxes swapdims permute movedim moveaxis t split chunk unbind select narrow index_select gather take_along_dim flip roll
        diagonal matmul mm bmm mv dot norm det inverse topk sort argsort median std var rad2deg where isnan isinf isfinite floor ceil round floor_divide remainder
        maximum minimum tril triu atan2 cross outer diag trace expm1 log1p vecdot multiply divide true_divide absolute'''.split()
    for n in names:
        if n in ('to', 'float', 'int', 'bool'): continue
        f = g[n]
        if not hasattr(Tensor, n) or n in ('abs',):
            setattr(Tensor, n, (lambda f: lambda self, *a, **k: f(self, *a, **k))(f))
    Tensor.mT = property(lambda self: transpose(self, -1, -2))
    Tensor.T = property(lambda self: _mk(self._a.T, self._k) if type(self) is Tensor else permute(self, *reversed(range(self._a.ndim))))
    Tensor.mH = Tensor.mT
    Tensor.H = Tensor.T
    Tensor.cholesky_solve = lambda self, L, upper=False: cholesky_solve(self, L, upper=upper)
    Tensor.new_zeros = lambda self, *s, **k: zeros(*s)
    Tensor.new_ones = lambda self, *s, **k: ones(*s)
    Tensor.new_tensor = lambda self, d, **k: tensor(d)
    Tensor.new_empty = lambda self, *s, **k: zeros(*s)
    Tensor.new_full = lambda self, s, v, **k: full(s, v)
_bind()


# --------------------------------------------------------------------------
# autograd.Function shim, no_grad etc., nn.Module, optim.Optimizer
# --------------------------------------------------------------------------

class _Ctx:
    def __init__(self): self.saved_tensors = (); self.needs_input_grad = (True,) * 8
    def save_for_backward(self, *ts): self.saved_tensors = tuple(ts)
    def mark_non_differentiable(self, *a): pass
    def set_materialize_grads(self, v): pass

LAST_CTX = {}

class Function:
    generate_vmap_rule = False
    @classmethod
    def apply(cls, *args):
        ctx = _Ctx()
        global CUTS
        saved, CUTS = CUTS, None        # a cut inside forward() is invisible to autograd: the backward is hand-written
        try:
            return cls._apply(ctx, *args)
        finally:
            CUTS = saved
    @classmethod
    def _apply(cls, ctx, *args):
        if 'setup_context' in cls.__dict__ or builtins.any('setup_context' in k.__dict__ for k in cls.__mro__[:-2]):
            out = cls.forward(*args)
            cls.setup_context(ctx, args, out)
        else:
            out = cls.forward(ctx, *args)
        LAST_CTX[cls.__name__] = ctx
        return out
    @staticmethod
    def setup_context(ctx, inputs, output): pass

class _NoGrad(contextlib.ContextDecorator):
    def __init__(self, *a, **k): pass
    def __enter__(self): return self
    def __exit__(self, *a): return False
    def __call__(self, f=None):
        if f is None: return self
        return f
def no_grad(f=None):
    return _NoGrad() if f is None else f
def enable_grad(f=None):
    return _NoGrad() if f is None else f
def inference_mode(mode=True): return _NoGrad()
def set_grad_enabled(flag): return _NoGrad()
def is_inference_mode_enabled(): return False
def is_grad_enabled(): return True
def manual_seed(s): pass
def set_default_dtype(d): pass
def get_default_dtype(): return _DEFAULT
def set_printoptions(*a, **k): pass


class Parameter(Tensor):
    def __new__(cls, data=None, requires_grad=True):
        t = Tensor.as_subclass(_T(data if data is not None else []), cls)
        t.requires_grad = requires_grad
        return t
    def __init__(self, *a, **k): pass


class Module:
    def __init__(self, *a, **k):
        object.__setattr__(self, '_parameters', {})
        object.__setattr__(self, '_buffers', {})
        object.__setattr__(self, '_modules', {})
        object.__setattr__(self, '_forward_hooks', [])
        object.__setattr__(self, 'training', True)
    def __setattr__(self, name, value):
        d = self.__dict__
        if '_parameters' not in d:
            Module.__init__(self)
        for reg in (d['_parameters'], d['_buffers'], d['_modules']): reg.pop(name, None)
        if isinstance(value, Parameter) or (isinstance(value, Tensor) and getattr(value, '_is_param', False)):
            d.pop(name, None); d['_parameters'][name] = value
        elif isinstance(value, Module):
            d.pop(name, None); d['_modules'][name] = value
        else:
            object.__setattr__(self, name, value)
    def __getattr__(self, name):
        d = self.__dict__
        for reg in ('_parameters', '_buffers', '_modules'):
            if reg in d and name in d[reg]: return d[reg][name]
        raise AttributeError(f"'{type(self).__name__}' object has no attribute '{name}'")
    def register_buffer(self, name, tensor, persistent=True):
        self.__dict__.pop(name, None)
        self._buffers[name] = tensor
    def register_parameter(self, name, p): self._parameters[name] = p
    def register_forward_hook(self, hook, **k):
        self._forward_hooks.append(hook)
        class H:
            def remove(s): self._forward_hooks.remove(hook)
        return H()
    def __call__(self, *args, **kwargs):
        out = self.forward(*args, **kwargs)
        for h in list(self._forward_hooks):
            r = h(self, args, out)
            if r is not None: out = r
        return out
    def named_parameters(self, prefix='', recurse=True):
        for n, p in self._parameters.items():
            if p is not None: yield (prefix + n, p)
        if recurse:
            for mn, m in self._modules.items():
                yield from m.named_parameters(prefix + mn + '.')
    def parameters(self, recurse=True):
        for _, p in self.named_parameters(recurse=recurse): yield p
    def named_buffers(self, prefix='', recurse=True):
        for n, b in self._buffers.items(): yield (prefix + n, b)
        if recurse:
            for mn, m in self._modules.items():
                yield from m.named_buffers(prefix + mn + '.')
    def buffers(self):
        for _, b in self.named_buffers(): yield b
    def children(self): return iter(self._modules.values())
    def modules(self):
        yield self
        for m in self._modules.values(): yield from m.modules()
    def to(self, *a, **k): return self
    def train(self, mode=True): return self
    def eval(self): return self
    def cuda(self): return self
    def cpu(self): return self
    def double(self): return self
    def float(self): return self
    def state_dict(self): return dict(self.named_parameters())
    def forward(self, *a, **k): raise NotImplementedError


class Optimizer:
    def __init__(self, params, defaults):
        params = list(params)
        if params and isinstance(params[0], dict):
            self.param_groups = [dict(defaults, **g) for g in params]
        else:
            self.param_groups = [dict(defaults, params=params)]
        self.defaults = defaults
        self.state = {}
    def zero_grad(self, *a, **k): pass


class _UnmodelledBase:
    """stands in for an unmodelled torch base class: harmless to derive from; constructing it with arguments is an engine gap (the real
    base would have consumed them), never a TypeError of `object.__init__` charged to the code under contract"""
    def __init__(self, *a, **k):
        if a or k: raise EngineGap("constructor of an unmodelled torch base class called with arguments")


class Placeholder:
    """an unmodelled torch attribute: harmless to import, EngineGap when used"""
    def __init__(self, path): self._path = path
    def __getattr__(self, n):
        if n.startswith('__') and n.endswith('__'): raise AttributeError(n)
        return Placeholder(self._path + '.' + n)
    def __call__(self, *a, **k):
        if len(a) == 1 and callable(a[0]) and not k and not isinstance(a[0], Tensor):
            return a[0]          # used as a decorator
        raise EngineGap(f"torch API not modelled: {self._path}")
    def __mro_entries__(self, bases): return (_UnmodelledBase,)
    def __repr__(self): return f'<unmodelled {self._path}>'
    def __or__(self, o): return self
    def __ror__(self, o): return self
    def __getitem__(self, k): return self


def make_module(name, attrs):
    m = types.ModuleType(name)
    m.__dict__.update(attrs)
    def __getattr__(n, _name=name):
        if n.startswith('__') and n.endswith('__'): raise AttributeError(n)
        return Placeholder(_name + '.' + n)
    m.__getattr__ = __getattr__
    return m
