/-
  Axiom schemas instantiated by pvc/atoms.py when an atom is created (DESIGN.md 1.3),
  proved here from Mathlib for the real functions.  Checked by `tools/lean_axioms.sh`
  (thorough tier of C01): the engine's trusted base then contains these statements as
  theorems, not as assumptions.  (The *use* of the relations by the normal form and the
  atom-rebasing code remains trusted; it is cross-checked numerically on every run.)
-/
import Mathlib

open Real

namespace PvcAxioms

/-! ### sqrt / norm atom:  n² → p, n ≥ 0,  sqrt(g²·p) = |g|·sqrt p,  derivative ∂n = ∂p / (2n) -/
theorem sqrt_sq_rule (p : ℝ) (hp : 0 ≤ p) : (sqrt p) ^ 2 = p := Real.sq_sqrt hp
theorem sqrt_nonneg_fact (p : ℝ) : 0 ≤ sqrt p := Real.sqrt_nonneg p
theorem sqrt_perfect_square (g : ℝ) : sqrt (g ^ 2) = |g| := Real.sqrt_sq_eq_abs g
theorem sqrt_square_factor (g p : ℝ) : sqrt (g ^ 2 * p) = |g| * sqrt p := by
  rw [Real.sqrt_mul (sq_nonneg g), Real.sqrt_sq_eq_abs]
theorem sqrt_deriv (p : ℝ) (hp : 0 < p) : HasDerivAt sqrt (1 / (2 * sqrt p)) p := by
  have := Real.hasDerivAt_sqrt (ne_of_gt hp)
  simpa using this

/-! ### sin / cos atoms on an angle base -/
theorem sin_sq_rule (h : ℝ) : sin h ^ 2 = 1 - cos h ^ 2 := by
  have := Real.sin_sq_add_cos_sq h; linarith
theorem sin_double (h : ℝ) : sin (2 * h) = 2 * sin h * cos h := Real.sin_two_mul h
theorem cos_double (h : ℝ) : cos (2 * h) = cos h ^ 2 - sin h ^ 2 := Real.cos_sq' h ▸ by
  rw [Real.cos_two_mul, Real.sin_sq]; ring
theorem sin_add_rule (a b : ℝ) : sin (a + b) = sin a * cos b + cos a * sin b := Real.sin_add a b
theorem cos_add_rule (a b : ℝ) : cos (a + b) = cos a * cos b - sin a * sin b := Real.cos_add a b
theorem sin_neg_rule (h : ℝ) : sin (-h) = -sin h := Real.sin_neg h
theorem cos_neg_rule (h : ℝ) : cos (-h) = cos h := Real.cos_neg h
/-- multiple angles "by complex powers": (cos h + i sin h)^k = cos(kh) + i sin(kh) -/
theorem de_moivre (h : ℝ) (k : ℕ) :
    (Complex.cos h + Complex.sin h * Complex.I) ^ k = Complex.cos (k * h) + Complex.sin (k * h) * Complex.I :=
  Complex.cos_add_sin_mul_I_pow k h
theorem sin_deriv (h : ℝ) : HasDerivAt sin (cos h) h := Real.hasDerivAt_sin h
theorem cos_deriv (h : ℝ) : HasDerivAt cos (-sin h) h := Real.hasDerivAt_cos h

/-! ### exp / log atoms -/
theorem exp_pos_fact (a : ℝ) : 0 < exp a := Real.exp_pos a
theorem exp_ge_one_add (a : ℝ) : 1 + a ≤ exp a := by linarith [Real.add_one_le_exp a]
theorem exp_sub_one_sign (a : ℝ) : 0 ≤ (exp a - 1) * a := by
  rcases le_total 0 a with h | h
  · have : 1 ≤ exp a := Real.one_le_exp h
    exact mul_nonneg (by linarith) h
  · have : exp a ≤ 1 := Real.exp_le_one_iff.mpr h
    exact mul_nonneg_of_nonpos_of_nonpos (by linarith) h
theorem exp_mul_nat (a : ℝ) (k : ℕ) : exp (k * a) = exp a ^ k := by
  rw [mul_comm, Real.exp_mul]; simp
theorem exp_log_rule (y : ℝ) (hy : 0 < y) : exp (log y) = y := Real.exp_log hy
theorem log_exp_rule (a : ℝ) : log (exp a) = a := Real.log_exp a
theorem exp_deriv (a : ℝ) : HasDerivAt exp (exp a) a := Real.hasDerivAt_exp a
theorem log_deriv (y : ℝ) (hy : 0 < y) : HasDerivAt log y⁻¹ y := Real.hasDerivAt_log (ne_of_gt hy)

/-! ### atan / atan2 / asin atoms -/
theorem atan_range (r : ℝ) : |arctan r| < π / 2 := by
  rw [abs_lt]; exact ⟨Real.neg_pi_div_two_lt_arctan r, Real.arctan_lt_pi_div_two r⟩
theorem atan_sign (r : ℝ) : 0 ≤ arctan r * r := by
  rcases le_total 0 r with h | h
  · exact mul_nonneg (Real.arctan_nonneg.mpr h) h
  · have : arctan r ≤ 0 := by
      have := Real.arctan_strictMono.monotone h; simpa using this
    exact mul_nonneg_of_nonpos_of_nonpos this h
theorem atan_zero_iff (r : ℝ) : arctan r = 0 ↔ r = 0 := Real.arctan_eq_zero_iff
theorem atan_odd (r : ℝ) : arctan (-r) = -arctan r := Real.arctan_neg r
theorem sin_atan (r : ℝ) : sin (arctan r) = r / sqrt (1 + r ^ 2) := Real.sin_arctan r
theorem cos_atan (r : ℝ) : cos (arctan r) = 1 / sqrt (1 + r ^ 2) := Real.cos_arctan r
/-- principal base: atan(sin h / cos h) = h for h in (-π/2, π/2) -/
theorem atan_tan_principal (h : ℝ) (h1 : -(π / 2) < h) (h2 : h < π / 2) : arctan (sin h / cos h) = h := by
  rw [← Real.tan_eq_sin_div_cos]; exact Real.arctan_tan h1 h2
theorem atan_deriv (r : ℝ) : HasDerivAt arctan (1 / (1 + r ^ 2)) r := Real.hasDerivAt_arctan r
theorem sin_asin (t : ℝ) (h1 : -1 ≤ t) (h2 : t ≤ 1) : sin (arcsin t) = t := Real.sin_arcsin h1 h2
theorem cos_asin (t : ℝ) : cos (arcsin t) = sqrt (1 - t ^ 2) := Real.cos_arcsin t
theorem asin_range (t : ℝ) : -(π / 2) ≤ arcsin t ∧ arcsin t ≤ π / 2 :=
  ⟨Real.neg_pi_div_two_le_arcsin t, Real.arcsin_le_pi_div_two t⟩

/-! ### π -/
theorem pi_bounds : (3.14159265 : ℝ) < π ∧ π < 3.14159266 :=
  ⟨by have := Real.pi_gt_d20; linarith, by have := Real.pi_lt_d20; linarith⟩
theorem sin_pi_half : sin (π / 2) = 1 := Real.sin_pi_div_two
theorem cos_pi_half : cos (π / 2) = 0 := Real.cos_pi_div_two

/-! ### cube root (real, odd) -/
noncomputable def cbrt (a : ℝ) : ℝ := if 0 ≤ a then a ^ ((3 : ℝ)⁻¹) else -((-a) ^ ((3 : ℝ)⁻¹))
theorem rpow_third_cube (x : ℝ) (hx : 0 ≤ x) : (x ^ ((3 : ℝ)⁻¹)) ^ 3 = x := by
  rw [← Real.rpow_natCast, ← Real.rpow_mul hx]; norm_num
theorem cbrt_cube (a : ℝ) : cbrt a ^ 3 = a := by
  unfold cbrt
  split_ifs with h
  · exact rpow_third_cube a h
  · push_neg at h
    have : (-((-a) ^ ((3 : ℝ)⁻¹))) ^ 3 = -(((-a) ^ ((3 : ℝ)⁻¹)) ^ 3) := by ring
    rw [this, rpow_third_cube (-a) (by linarith)]; ring
theorem cbrt_sign (a : ℝ) : 0 ≤ cbrt a * a := by
  unfold cbrt
  split_ifs with h
  · exact mul_nonneg (Real.rpow_nonneg h _) h
  · push_neg at h
    have : 0 ≤ (-a) ^ ((3 : ℝ)⁻¹) := Real.rpow_nonneg (by linarith) _
    nlinarith

end PvcAxioms
