#!/bin/sh
# tools/mut.sh <PID> <relative file> <python-regex-old> <new>   : run a check against a mutated scratch copy of /repo
PID=$1; F=$2; OLD=$3; NEW=$4
D=$(mktemp -d /tmp/mut.XXXXXX)
cp -r /repo/pypose $D/pypose
python3 - "$D/$F" "$OLD" "$NEW" <<'PY'
import sys,re
p,old,new=sys.argv[1:4]
s=open(p).read()
n=s.count(old)
if n!=1: print("PATTERN COUNT",n); sys.exit(2)
open(p,'w').write(s.replace(old,new))
PY
[ $? -eq 0 ] || { rm -rf $D; exit 2; }
PYPOSE_REPO=$D /verif/check $PID quick 2>&1 | grep -v "scripted\|Linear solver" | tail -${5:-4}
rm -rf $D
