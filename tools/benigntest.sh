#!/bin/sh
# tools/benigntest.sh <PID> [dir] : run the property's quick check against every behaviour-preserving refactoring benign*.diff
# (scratch copy via PYPOSE_REPO); a VIOLATION here is a false alarm of the machinery.
PID=$1; DIR=${2:-/tmp/benign/$PID}; [ -d "$DIR" ] || DIR=/verif/benign/$PID
for P in $DIR/benign*.diff; do
  D=$(mktemp -d /tmp/benchk.XXXXXX); cp -r /repo/pypose $D/pypose
  if ! (cd $D && patch -p1 -s < $P) >/dev/null 2>&1; then echo "$PID $(basename $P): PATCH DOES NOT APPLY"; rm -rf $D; continue; fi
  PYPOSE_REPO=$D /verif/check $PID quick > /tmp/benchk_$PID.log 2>&1; rc=$?
  echo "$PID $(basename $P): rc=$rc $(grep "^$PID quick" /tmp/benchk_$PID.log | cut -c1-160)"
  grep "^VIOLATION\|^UNDECIDED\|^CHECKER-ERROR\|^ENGINE-GAP" /tmp/benchk_$PID.log | cut -c1-260 | head -6
  rm -rf $D
done
