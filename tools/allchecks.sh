#!/bin/sh
# tools/allchecks.sh [seed] [tier] : run every check once, print the summary line and anything that is not a KNOWN-FINDING
SEED=${1:-0}; TIER=${2:-quick}
for i in 01 02 03 04 05 06 07 08 09 10 11 12 13 14 15 16 17 18 19 20; do
  VERIF_SEED=$SEED /verif/check C$i $TIER > /tmp/allchk_$i.log 2>&1; rc=$?
  echo "rc=$rc $(grep "^C$i $TIER" /tmp/allchk_$i.log | cut -c1-170)"
  grep "^VIOLATION\|^UNDECIDED\|^CHECKER-ERROR" /tmp/allchk_$i.log | cut -c1-220 | head -5
done
