#!/usr/bin/env python3
"""print python files with docstrings removed (reading aid)"""
import ast,sys
def strip(path):
    src=open(path).read()
    tree=ast.parse(src)
    lines=src.split('\n')
    kill=set()
    for node in ast.walk(tree):
        if isinstance(node,(ast.FunctionDef,ast.ClassDef,ast.Module)):
            b=node.body
            if b and isinstance(b[0],ast.Expr) and isinstance(b[0].value,ast.Constant) and isinstance(b[0].value.value,str):
                for i in range(b[0].lineno,b[0].end_lineno+1): kill.add(i)
    for i,l in enumerate(lines,1):
        if i not in kill and l.strip(): print(f"{i}\t{l}")
for p in sys.argv[1:]:
    print("#####",p); strip(p)
