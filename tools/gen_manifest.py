#!/usr/bin/env python3
"""regenerate MANIFEST.json from tools/claims.json (kept valid at all times)"""
import json, os, sys
ROOT = os.path.dirname(os.path.dirname(os.path.abspath(__file__)))
claims = json.load(open(os.path.join(ROOT, 'tools', 'claims.json')))
props = [json.loads(l) for l in open(os.path.join(ROOT, 'properties.jsonl'))]
checks = []; na = []
for p in props:
    c = claims.get(p['id'])
    if c and c.get('claimed'):
        checks.append(dict(
            property_id=p['id'],
            quick_cmd=f"./check {p['id']} quick",
            thorough_cmd=f"./check {p['id']} thorough",
            evidence_file=f"/verif/evidence/{p['id']}.json",
            replay_cmd_template="./check --replay {path}",
            engine="pvc",
            level_claimed=dict(category=c['category'], text=c['text'], design_ref=c.get('design_ref', 'DESIGN.md section 3')),
            level_note=c['note'],
            technique=c['technique']))
    else:
        na.append(dict(property_id=p['id'], reason=(c or {}).get('reason', 'check not built yet (work in progress)')))
m = dict(
    version=1,
    setup_cmd="./setup.sh",
    hooks=dict(guard="PYPOSE_VERIF", enable="no hooks are needed: contracts are sidecar files, the real source is re-read and extracted on every run",
               baseline_off_cmd="cd /repo && /venv/bin/python -m pytest -ra -q -p no:cacheprovider --timeout=900 --continue-on-collection-errors",
               source_commits=[], add_only=True),
    engines=[dict(name="pvc", path="/verif/pvc", serves_properties=[c['property_id'] for c in checks],
                  kind_free_text="contract-based deductive verifier for the real pypose source: mechanical extraction (loader), exact real-arithmetic model of torch (storch), path exploration by re-execution, obligations decided by normal form modulo relation ideals + z3 (+ Lean in thorough), concrete twin of every contract replayed on the real code")],
    checks=checks,
    notes="See DESIGN.md. Exit codes: 0 held, 1 violation (with replay), 2 undecided, 3 checker error.",
    not_applicable=na)
json.dump(m, open(os.path.join(ROOT, 'MANIFEST.json'), 'w'), indent=1)
print(f"{len(checks)} claimed, {len(na)} not claimed")
