#!/bin/sh
# tools/seedtest.sh <ID> [check ids...] : confirm a seeded change (demo fails with / passes without, suite passes) and run checks against it
ID=$1; shift
S=/tmp/seeded/$ID; [ -d "$S" ] || S=/verif/seeded/$ID
CHECKS=${@:-$ID}
D=$(mktemp -d /tmp/seedchk.XXXXXX)
git -C /repo worktree add -q --detach $D HEAD || exit 2
if ! git -C $D apply $S/patch.diff 2>/tmp/applyerr; then echo "PATCH DOES NOT APPLY: $(cat /tmp/applyerr | head -3)"; git -C /repo worktree remove --force $D; exit 2; fi
echo "== $ID: $(git -C $D diff --stat | tail -1)"
( cd $D && PYTHONPATH=$D /venv/bin/python $S/demo.py >/tmp/demo_with.txt 2>&1 ); W=$?
( cd /repo && PYTHONPATH=/repo /venv/bin/python $S/demo.py >/tmp/demo_without.txt 2>&1 ); WO=$?
echo "demo: with change exit=$W, without exit=$WO"
( cd $D && PYTHONPATH=$D /venv/bin/python -m pytest -q -p no:cacheprovider --timeout=900 tests 2>&1 | tail -1 )
( cd $D && PYTHONPATH=$D /venv/bin/python -m pytest -q -p no:cacheprovider --timeout=900 tests 2>&1 | grep FAILED | grep -v "aperpe\|icp_laserscan\|icp_broadcasting\|epnp_\|parameter_dispatch" )
git -C /repo worktree remove --force $D
# run the checks against /repo with the patch applied, then undo
git -C /repo apply $S/patch.diff || exit 2
for c in $CHECKS; do /verif/check $c quick 2>&1 | grep -v "^KNOWN-FINDING" | grep "VIOLATION\|failed obligation\|quick:" | cut -c1-220 | head -8; done
git -C /repo checkout -- .
git -C /repo status --short | head -3
