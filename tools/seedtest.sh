#!/bin/sh
# tools/seedtest.sh <ID> [check ids...] : confirm a seeded change (demo fails with / passes without, suite passes) and run checks
# against it on a scratch worktree (PYPOSE_REPO), never touching /repo's working tree.  ID may carry a suffix (C07b -> check C07).
ID=$1; shift
S=/tmp/seeded/$ID; [ -d "$S" ] || S=/verif/seeded/$ID
CHECKS=${@:-$(echo $ID | cut -c1-3)}
D=$(mktemp -d /tmp/seedchk.XXXXXX)
git -C /repo worktree add -q --detach $D HEAD || exit 2
if ! git -C $D apply $S/patch.diff 2>/tmp/applyerr; then echo "PATCH DOES NOT APPLY: $(cat /tmp/applyerr | head -3)"; git -C /repo worktree remove --force $D; exit 2; fi
echo "== $ID: $(git -C $D diff --stat | tail -1)"
( cd $D && PYTHONPATH=$D /venv/bin/python $S/demo.py >/tmp/demo_with.$ID.txt 2>&1 ); W=$?
( cd /repo && PYTHONPATH=/repo /venv/bin/python $S/demo.py >/tmp/demo_without.$ID.txt 2>&1 ); WO=$?
echo "demo: with change exit=$W, without exit=$WO"
( cd $D && PYTHONPATH=$D /venv/bin/python -m pytest -q -p no:cacheprovider --timeout=900 tests 2>&1 | tail -1 )
( cd $D && PYTHONPATH=$D /venv/bin/python -m pytest -q -p no:cacheprovider --timeout=900 tests 2>&1 | grep FAILED | grep -v "aperpe\|icp_laserscan\|icp_broadcasting\|epnp_\|parameter_dispatch" )
for c in $CHECKS; do PYPOSE_REPO=$D /verif/check $c quick 2>&1 | grep -v "^KNOWN-FINDING" | grep "VIOLATION\|failed obligation\|quick:\|ENGINE-GAP" | cut -c1-220 | head -8; done
git -C /repo worktree remove --force $D
