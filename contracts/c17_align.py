"""C17 - point-set alignment (svdtf / svdstf), ICP, EPnP.

svdtf / svdstf with torch.linalg.svd BY CONTRACT: svd returns (U, S, Vh) with U, Vh orthogonal (each a
rotation times an optional reflection diag(1,1,-1)), S >= 0.  Obligations: the matrix handed to mat2SE3 /
mat2Sim3 (themselves under contract in C11) is the Kabsch / Umeyama optimum
     R* = U diag(1, 1, det(U Vh)) Vh,   c* = tr(D S)/var(source),   t* = mean(target) - c* R* mean(source)
on BOTH determinant paths, and R* is proper (det = +1).  Optimality of (R*, c*, t*) is L-kabsch / L-umeyama
(trusted theorems).  ICP monotonicity/recovery and EPnP are labelled bounded stand-ins on the real code:
no contract our verifier can decide expresses convergence of these iterations (DESIGN 4).
"""
from fractions import Fraction as Q
from pvc.registry import obligation, bounded, property_meta
from specs import lie as S
from contracts.common import *

property_meta('C17', level='proof', min_obligations=6,
              trusted_base=['assumed contract of torch.linalg.svd (M = U diag(S) Vh, U and Vh orthogonal, S >= 0 sorted)',
                            'L-kabsch / L-umeyama: the least-squares rigid / similarity alignment is U diag(1,1,det(U Vh)) Vh with the Umeyama scale and translation (Kabsch 1978, Umeyama 1991)',
                            'C11 contracts of mat2SE3 / mat2Sim3'],
              assumptions=['ICP and EPnP clauses: bounded stand-ins only (iterative numerics; eigen-decomposition sign choices)'],
              explanation='alignment formulas against the Kabsch/Umeyama closed form with svd by contract, both determinant paths')

GEO = 'pypose.function.geometry'


def pts(env, name, n):
    T = env.T
    return T.stack([env.vec(f'{name}{i}', 3) for i in range(n)], 0)


def install_svd(env):
    """svd by contract: orthogonal factors = rotation x optional reflection; returns the chosen factors"""
    from pvc import storch as st
    T = env.T
    q1 = env.unitquat('svdU', regimes=('generic',)); q2 = env.unitquat('svdV', regimes=('generic',))
    r1 = bool(env.scalar('U_is_reflection', regimes=('generic',))[0] > 0)
    r2 = bool(env.scalar('V_is_reflection', regimes=('generic',))[0] > 0)
    O = q1[0] * 0
    F = lambda refl: S.mat(T, [[O + 1, O, O], [O, O + 1, O], [O, O, (O - 1) if refl else (O + 1)]])
    U = S.quat_matrix(T, q1) @ F(r1)
    Vh = F(r2) @ S.quat_matrix(T, q2)
    Sv = T.stack([env.scalar(f'sv{i}', nonneg=True, regimes=('generic',))[0] for i in range(3)])
    out = {'U': U, 'S': Sv, 'Vh': Vh, 'det': -1 if (r1 != r2) else 1}
    st.set_external('linalg.svd', lambda M, **k: (U.clone(), Sv.clone(), Vh.clone()))
    return out


def kabsch_numeric(T, src, tgt, with_scale):
    """independent numeric spec: Kabsch / Umeyama from a fresh SVD"""
    cs, ct = src.mean(0, keepdim=True), tgt.mean(0, keepdim=True)
    a, b = src - cs, tgt - ct
    H = b.T @ a / src.shape[0]
    U, D, Vh = T.linalg.svd(H)
    d = T.sign(T.det(U @ Vh))
    Sg = T.diag(T.stack([d * 0 + 1, d * 0 + 1, d]))
    R = U @ Sg @ Vh
    c = (T.diagonal(Sg) * D).sum() / (a.norm(dim=-1) ** 2).mean() if with_scale else d * 0 + 1
    t = ct.T - c * R @ cs.T
    return R, c, t


@obligation('C17.svdtf', functions=[f'{GEO}:svdtf'], max_paths=16, no_validate=True, tol=1e-7, cex_samples=200)
def svdtf(env):
    geo = env.load(GEO); T = env.T
    rec = []
    env.stub(geo, 'mat2SE3', lambda M, check=True, **k: rec.append(M) or M)
    if env.sym:
        src, tgt = pts(env, 's', 3), pts(env, 't', 3)
        f = install_svd(env)
        geo.svdtf(src, tgt)
        M = rec[0]
        d = f['det']
        O = src[0, 0] * 0
        Rs = f['U'] @ S.mat(T, [[O + 1, O, O], [O, O + 1, O], [O, O, O + d]]) @ f['Vh']
        cs, ct = src.mean(0, keepdim=True), tgt.mean(0, keepdim=True)
        env.eq('rotation is the Kabsch optimum U diag(1,1,det(U Vh)) Vh', M[:, 0:3], Rs)
        env.eq('rotation is proper (det = +1)', T.det(M[:, 0:3]), 1)
        env.eq('translation is mean(target) - R mean(source)', M[:, 3:4], ct.transpose(-1, -2) - M[:, 0:3] @ cs.transpose(-1, -2))
    else:
        # reflection-prone configurations: few noisy points
        rng = env.rng
        n = rng.choice([3, 3, 4, 6, 20])
        g = T.Generator().manual_seed(rng.randrange(1 << 30))
        src = T.randn(n, 3, dtype=T.float64, generator=g)
        if rng.random() < 0.3: src[:, 2] = 0
        Rt = env.load('pypose').randn_SO3(dtype=T.float64).matrix()
        tgt = src @ Rt.T + T.randn(1, 3, dtype=T.float64, generator=g) + rng.choice([0.0, 0.1, 0.5]) * T.randn(n, 3, dtype=T.float64, generator=g)
        env.sample['cfg'] = [n]
        geo.svdtf(src, tgt)
        M = rec[0]
        Rk, _, tk = kabsch_numeric(T, src, tgt, False)
        res = lambda R, t: float((((src @ R.T) + t.T - tgt) ** 2).sum())
        env.eq('rotation is proper (det = +1)', T.det(M[:, 0:3]), 1.0)
        env.holds('rotation is the Kabsch optimum U diag(1,1,det(U Vh)) Vh', res(M[:, 0:3], M[:, 3:4]) <= res(Rk, tk) * (1 + 1e-9) + 1e-12)


@obligation('C17.svdstf', functions=[f'{GEO}:svdstf'], max_paths=16, no_validate=True, tol=1e-7, cex_samples=100)
def svdstf(env):
    geo = env.load(GEO); T = env.T
    rec = []
    env.stub(geo, 'mat2Sim3', lambda M, check=True, **k: rec.append(M) or M)
    if env.sym:
        src, tgt = pts(env, 's', 3), pts(env, 't', 3)
        f = install_svd(env)
        geo.svdstf(src, tgt)
        M = rec[0]
        d = f['det']
        O = src[0, 0] * 0
        Sg = S.mat(T, [[O + 1, O, O], [O, O + 1, O], [O, O, O + d]])
        Rs = f['U'] @ Sg @ f['Vh']
        cs, ct = src.mean(0, keepdim=True), tgt.mean(0, keepdim=True)
        var = (((src - cs) * (src - cs)).sum(-1)).mean()
        c = (f['S'][0] + f['S'][1] + d * f['S'][2]) / var
        env.eq('scaled rotation block is c* R*', M[:, 0:3], c * Rs)
        env.eq('R* is proper (det = +1)', T.det(Rs), 1)
        env.eq('translation is mean(target) - c* R* mean(source)', M[:, 3:4], ct.transpose(-1, -2) - c * Rs @ cs.transpose(-1, -2))
        rec.clear()
        geo.svdstf(src, tgt, with_scale=False)
        env.eq('with_scale=False: rigid optimum', rec[0][:, 0:3], Rs)
        env.eq('with_scale=False: translation is mean(target) - R* mean(source) (no scale anywhere)', rec[0][:, 3:4], ct.transpose(-1, -2) - Rs @ cs.transpose(-1, -2))
    else:
        rng = env.rng
        n = rng.choice([3, 4, 6, 20])
        g = T.Generator().manual_seed(rng.randrange(1 << 30))
        src = T.randn(n, 3, dtype=T.float64, generator=g)
        Rt = env.load('pypose').randn_SO3(dtype=T.float64).matrix()
        sc = 10 ** rng.uniform(-1, 1)
        tgt = sc * src @ Rt.T + T.randn(1, 3, dtype=T.float64, generator=g) + rng.choice([0.0, 0.1, 0.5]) * T.randn(n, 3, dtype=T.float64, generator=g)
        geo.svdstf(src, tgt)
        M = rec[0]
        Rk, ck, tk = kabsch_numeric(T, src, tgt, True)
        res = lambda sR, t: float((((src @ sR.T) + t.T - tgt) ** 2).sum())
        env.holds('scaled rotation block is c* R*', res(M[:, 0:3], M[:, 3:4]) <= res(ck * Rk, tk) * (1 + 1e-9) + 1e-12)
        rec.clear()
        geo.svdstf(src, tgt, with_scale=False)
        M0 = rec[0]
        R0, _, t0 = kabsch_numeric(T, src, tgt, False)
        env.holds('with_scale=False: rigid optimum', res(M0[:, 0:3], M0[:, 3:4]) <= res(R0, t0) * (1 + 1e-9) + 1e-12)
        env.holds('with_scale=False: translation is mean(target) - R* mean(source) (no scale anywhere)', res(M0[:, 0:3], M0[:, 3:4]) <= res(R0, t0) * (1 + 1e-9) + 1e-12)


@obligation('C17.ICP.iteration', functions=['pypose.module.icp:ICP.forward'], max_paths=8,
            note='knn and svdtf by contract (abstract distances / abstract transform); a one-iteration controller')
def icp_iter(env):
    """one ICP iteration on a BATCH of two clouds: the stopping controller is given one loss per batch element - the mean closest-point distance
    of THAT element - so that every element is iterated until it has converged itself; the transform of the iteration is svdtf of the
    current points against their nearest targets"""
    icp = env.load('pypose.module.icp'); T = env.T
    B, N = 2, 2
    src = T.stack([T.stack([env.vec(f's{b}{i}', 3, regimes=('generic',)) for i in range(N)], 0) for b in range(B)], 0)
    tgt = T.stack([T.stack([env.vec(f't{b}{i}', 3, regimes=('generic',)) for i in range(N)], 0) for b in range(B)], 0)
    dist = T.stack([T.stack([env.scalar(f'd{b}{i}', positive=True, regimes=('generic',)) for i in range(N)], 0) for b in range(B)], 0)      # (B, N, 1)
    idx = T.tensor([[[1], [0]], [[0], [1]]]) if env.sym else T.tensor([[[1], [0]], [[0], [1]]], dtype=T.int64)
    seen = {}
    def knn(a, b, k=1, ord=2, dim=-1):
        seen['knn_args'] = (a, b); return dist, idx
    class Tr:
        def unsqueeze(self, d): return self
        def __matmul__(self, o): return o
    def svdtf(a, b):
        seen.setdefault('svdtf', []).append((a, b)); return Tr()
    env.stub(icp, 'knn', knn); env.stub(icp, 'svdtf', svdtf)
    class OneStep:
        def __init__(self): self.k = 0; self.losses = []
        def reset(self): self.k = 0
        def continual(self): return self.k == 0
        def step(self, loss): self.losses.append(loss); self.k += 1
    ctrl = OneStep()
    m = icp.ICP(stepper=ctrl)
    m(src, tgt)
    env.holds('one controller step per iteration', len(ctrl.losses) == 1)
    loss = ctrl.losses[0]
    env.holds('the loss has one entry per batch element', tuple(loss.shape) == (B,))
    env.eq('entry b is the mean closest-point distance of batch element b', loss, dist.squeeze(-1).mean(-1))
    a0, b0 = seen['svdtf'][0]
    env.eq('the iteration fits the current points to their nearest targets', b0, T.stack([tgt[0][[1, 0]], tgt[1][[0, 1]]], 0) if env.sym else T.stack([tgt[0][[1, 0]], tgt[1][[0, 1]]], 0))


@obligation('C17.ICP.initial_transform', functions=['pypose.module.icp:ICP.forward', 'pypose.module.icp:ICP.__init__'], max_paths=8,
            note='knn and svdtf by contract; a one-iteration controller')
def icp_init(env):
    """which initial transform the iteration starts from: the one given to the call; else the one given to the constructor; else none (the
    documented precedence) - observed as the points the first nearest-neighbour query is made with"""
    icp = env.load('pypose.module.icp'); pp = env.load('pypose'); op = env.load(OPS); T = env.T
    N = 2
    src = T.stack([env.vec(f's{i}', 3, regimes=('generic',)) for i in range(N)], 0).reshape(1, N, 3)
    tgt = T.stack([env.vec(f't{i}', 3, regimes=('generic',)) for i in range(N)], 0).reshape(1, N, 3)
    A_ = lie(pp, 'SE3', group_elem(env, 'SE3', 'A', qregimes=('generic',)).reshape(1, 7)); B_ = lie(pp, 'SE3', group_elem(env, 'SE3', 'B', qregimes=('generic',)).reshape(1, 7))
    dist = T.stack([env.scalar(f'd{i}', positive=True, regimes=('generic',)) for i in range(N)], 0).reshape(1, N, 1)
    idx = T.tensor([[[1], [0]]]) if env.sym else T.tensor([[[1], [0]]], dtype=T.int64)
    first = []
    def knn(a, b, k=1, ord=2, dim=-1):
        first.append(a); return dist, idx
    class Tr:
        def unsqueeze(self, d): return self
        def __matmul__(self, o): return o
    env.stub(icp, 'knn', knn); env.stub(icp, 'svdtf', lambda a, b: Tr())
    class OneStep:
        def __init__(self): self.k = 0
        def reset(self): self.k = 0
        def continual(self): return self.k == 0
        def step(self, loss): self.k += 1
    act = lambda X: T.stack([op.SE3_Act.forward(raw(X)[0], src[0, i]) for i in range(N)], 0).reshape(1, N, 3)
    for tag, ctor, call, want in (('call and constructor both give one: the call wins', A_, B_, act(B_)), ('constructor only', A_, None, act(A_)),
                                  ('call only', None, B_, act(B_)), ('neither', None, None, src)):
        del first[:]
        m = icp.ICP(init=ctor, stepper=OneStep())
        m(src, tgt, init=call) if call is not None else m(src, tgt)
        env.eq(f'{tag}', first[0], want)


@bounded('C17.exact_recovery', functions=[f'{GEO}:svdtf', f'{GEO}:svdstf'])
def exact(rng, tier):
    """exact correspondences under a true transform are reproduced (real code, float64); planar / collinear / minimal sets"""
    import torch, pypose as pp
    N = 200 if tier == 'quick' else 3000
    fails = []; samples = []; nontrivial = 0
    g = torch.Generator().manual_seed(rng.randrange(1 << 30))
    for k in range(N):
        n = rng.choice([3, 4, 5, 10, 50, 200])
        kind = rng.choice(['generic', 'planar', 'generic'])
        src = torch.randn(n, 3, dtype=torch.float64, generator=g)
        if kind == 'planar': src[:, 2] = 0.0
        X = pp.randn_SE3(dtype=torch.float64); s = 10 ** rng.uniform(-1, 1)
        tgt = X.Act(src)
        Y = pp.svdtf(src, tgt)
        err = float((Y.Act(src) - tgt).abs().max())
        nontrivial += 1
        if err > 1e-8: fails.append(dict(clause='svdtf_exact', signature=f'n={n},{kind}', err=err))
        # the alignment does not depend on the autograd state of its inputs: clouds that require grad (an alignment inside a training loop)
        # get the same transform, for small clouds too (extent 0.02)
        if k % 4 == 0 and kind == 'generic':
            for ext in (1.0, 0.02):
                sg = (src * ext).clone().requires_grad_(True); tg = X.Act(src * ext).detach()
                Yg = pp.svdtf(sg, tg); Yp = pp.svdtf((src * ext), tg)
                dg = float((Yg.tensor().detach() - Yp.tensor()).abs().max()); eg = float((Yg.detach().Act(src * ext) - tg).abs().max())
                if dg > 1e-9 or eg > 1e-8 * ext:
                    fails.append(dict(clause='svdtf_same_result_when_inputs_require_grad', signature=f'n={n},extent={ext}', difference=dg, residual=eg))
                Zg = pp.svdstf(sg, tg); Zp = pp.svdstf((src * ext), tg)
                if float((Zg.tensor().detach() - Zp.tensor()).abs().max()) > 1e-9:
                    fails.append(dict(clause='svdstf_same_result_when_inputs_require_grad', signature=f'n={n},extent={ext}'))
        tgt2 = X.Act(s * src)
        try:
            Z = pp.svdstf(src, tgt2)
            err2 = float((Z.Act(src) - tgt2).abs().max())
            if err2 > 1e-7 * max(1, s): fails.append(dict(clause='svdstf_exact', signature=f'n={n},{kind}', err=err2))
        except Exception as e:
            fails.append(dict(clause='svdstf_raises', signature=f'n={n},{kind}', error=f'{type(e).__name__}: {e}'[:160]))
        if k < 2: samples.append(dict(n=n, kind=kind, err=err))
    return dict(evaluations=2 * N, distinct_nontrivial=nontrivial, rule='random rigid/similarity transforms of random clouds (generic/planar), 3..200 points; distinct by seed',
                bound='3..200 points, scales 0.1..10', failures=fails[:6], samples=samples)


@bounded('C17.icp', functions=['pypose.module.icp:ICP.forward'])
def icp(rng, tier):
    """ICP: result never has a larger mean squared closest-point distance than the initial transform; recovers small exact perturbations.
    Clouds at the origin and far from it (map / UTM-like coordinates: |centre| up to 4e6 with metre-size clouds, float64; a few hundred units,
    float32) - the closest-point search must not lose the point spacing against the coordinate magnitude.  Distances of the oracle are
    computed from explicit differences (never from the |a|^2+|b|^2-2ab expansion)."""
    import torch, pypose as pp
    N = 15 if tier == 'quick' else 150
    fails = []; samples = []
    g = torch.Generator().manual_seed(rng.randrange(1 << 30))
    def msd(a, b):
        d = (a.double().unsqueeze(-2) - b.double().unsqueeze(-3)).norm(dim=-1); return float((d.min(-1).values ** 2).mean())
    floor_of = lambda eps, centre, size: (100 * eps * max(float(centre.norm()), size)) ** 2
    regimes = [(torch.float64, 0.0, 1.0), (torch.float64, 1e3, 1.0), (torch.float64, 4.4e6, 2.0), (torch.float32, 0.0, 1.0), (torch.float32, 300.0, 1.0)]
    for k in range(N):
        dt, off, size = regimes[k % len(regimes)]
        eps = torch.finfo(dt).eps
        dense = off > 0 and (k // len(regimes)) % 2 == 0          # dense scans: point spacing of centimetres inside a metre-size cube
        n = 300 if dense else rng.choice([30, 100])
        centre = off * torch.tensor([0.1, 1.0, 3e-5], dtype=torch.float64) if off else torch.zeros(3, dtype=torch.float64)
        if dense:
            tgt64 = centre + size * torch.rand(n, 3, dtype=torch.float64, generator=g)
            X = pp.se3(torch.cat([0.01 * size * torch.randn(3, dtype=torch.float64, generator=g), 0.006 * torch.randn(3, dtype=torch.float64, generator=g)])).Exp()
        else:
            tgt64 = centre + size * torch.randn(n, 3, dtype=torch.float64, generator=g)
            X = pp.se3(torch.cat([0.05 * size * torch.randn(3, dtype=torch.float64, generator=g), 0.05 * torch.randn(3, dtype=torch.float64, generator=g)])).Exp()
        # perturbation about the cloud centre (a small rigid motion of the cloud, whatever its distance from the origin)
        src64 = X.Inv().Act(tgt64 - centre) + centre
        src, tgt = src64.to(dt), tgt64.to(dt)
        icp_ = pp.module.ICP()
        ordk = 2 if (dense or off) else [2, 1, 3, 2][k % 4]          # the documented `ord` of the nearest-neighbour search: 1 and 3 as well (origin-centred sparse clouds)
        Y = icp_(src, tgt) if ordk == 2 else icp_(src, tgt, ord=ordk)
        before, after = msd(src, tgt), msd(Y.Act(src), tgt)
        floor = (100 * eps * max(float(centre.norm()), size)) ** 2          # coordinates carry eps*|c| of round-off
        sig = f'{str(dt).split(".")[-1]}/offset={off:g}' + ('/dense' if dense else '') + ('' if ordk == 2 else f'/ord={ordk}')
        if dense and dt == torch.float64:
            # started at the exact transform the result must not be worse than that
            c_ = centre
            Rm = X.rotation().matrix(); tt = X.translation() + c_ - Rm @ c_
            Tinit = pp.SE3(torch.cat([tt, X.rotation().tensor()]))
            Y2 = pp.module.ICP()(src, tgt, init=Tinit)
            b2, a2 = msd(Tinit.Act(src), tgt), msd(Y2.Act(src), tgt)
            if a2 > b2 * (1 + 1e-6) + floor_of(eps, centre, size): fails.append(dict(clause='icp_not_worse_from_exact_init', signature=sig, before=b2, after=a2, n=n))
        if after > before * (1 + 1e-6) + floor: fails.append(dict(clause='icp_not_worse', signature=sig, before=before, after=after, n=n))
        if after > max(1e-10 * size ** 2, floor): fails.append(dict(clause='icp_recovers_small_perturbation', signature=sig, after=after, floor=floor, n=n))
        if k < 5: samples.append(dict(regime=sig, n=n, before=before, after=after, floor=floor))
    uniq = {}
    for f in fails: uniq.setdefault((f['clause'], f['signature']), f)
    return dict(evaluations=N, distinct_nontrivial=N, rule='random clouds at |centre| in {0, 1e3, 4.4e6} (float64) and {0, 300} (float32), exact rigid perturbation of 0.05 rad / 0.05 cloud sizes; distinct by seed',
                bound='30..100 points, perturbation 0.05', failures=list(uniq.values())[:6], samples=samples)


@bounded('C17.epnp', functions=['pypose.module.pnp:EPnP.forward'])
def epnp(rng, tier):
    """EPnP: pose recovered from exact projections of non-degenerate point sets in front of the camera"""
    import torch, pypose as pp
    N = 10 if tier == 'quick' else 100
    fails = []; samples = []
    g = torch.Generator().manual_seed(rng.randrange(1 << 30))
    for k in range(N):
        n = rng.choice([6, 10, 30, 100])
        f = 500.0; K = torch.tensor([[f, 0, 320.0], [0, f, 240.0], [0, 0, 1.0]], dtype=torch.float64)
        X = pp.SE3(torch.cat([torch.tensor([0.1, -0.2, 6.0], dtype=torch.float64) + 0.3 * torch.randn(3, dtype=torch.float64, generator=g),
                              pp.so3(0.3 * torch.randn(3, dtype=torch.float64, generator=g)).Exp().tensor()]))
        P = torch.randn(n, 3, dtype=torch.float64, generator=g)
        pix = pp.point2pixel(P, K, X)
        try:
            Y = pp.module.EPnP()(P, pix, K)
            err = float((Y.matrix() - X.matrix()).abs().max())
            if err > 1e-4: fails.append(dict(clause='epnp_pose', signature=f'k={k},n={n}', err=err))
        except Exception as e:
            fails.append(dict(clause='epnp_raises', signature=f'n={n}', error=f'{type(e).__name__}: {e}'[:200]))
        if k < 2: samples.append(dict(n=n))
        # one module object used repeatedly: intrinsics given to the constructor, overridden for a single call, then the default again -
        # every call solves ITS OWN problem (no state carried between calls), with and without refinement
        if k % 3 == 0:
            K2 = torch.tensor([[350.0, 0, 300.0], [0, 420.0, 260.0], [0, 0, 1.0]], dtype=torch.float64)
            for refine in (True, False):
                try:
                    mod = pp.module.EPnP(intrinsics=K, refine=refine)
                    seq = [('default intrinsics', K, None), ('per-call override', K2, K2), ('default intrinsics after an override', K, None)]
                    for tag, Ktrue, Karg in seq:
                        pixs = pp.point2pixel(P, Ktrue, X)
                        Ys = mod(P, pixs) if Karg is None else mod(P, pixs, Karg)
                        errs = float((Ys.matrix() - X.matrix()).abs().max())
                        if errs > 1e-4: fails.append(dict(clause='epnp_pose_repeated_calls', signature=f'{tag}/refine={refine}', err=errs, n=n))
                    if not torch.equal(mod.intrinsics, K): fails.append(dict(clause='epnp_module_intrinsics_changed', signature=f'refine={refine}'))
                except Exception as e:
                    fails.append(dict(clause='epnp_raises', signature=f'repeated calls, refine={refine}', error=f'{type(e).__name__}: {e}'[:200]))
    uniq = {}
    for f_ in fails: uniq.setdefault((f_['clause'], f_['signature']), f_)
    fails = list(uniq.values())
    return dict(evaluations=N, distinct_nontrivial=N, rule='random poses 6 units in front of a 500px pinhole camera, 6..100 random points, exact projections; distinct by seed',
                bound='6..100 points', failures=fails[:6], samples=samples)


@obligation('C17.canary.no_reflection_handling', functions=[f'{GEO}:svdtf'], canary=True, max_paths=16, no_validate=True)
def canary(env):
    geo = env.load(GEO); T = env.T
    if not env.sym:
        env.holds('x', False); return
    rec = []
    env.stub(geo, 'mat2SE3', lambda M, check=True, **k: rec.append(M) or M)
    src, tgt = pts(env, 's', 3), pts(env, 't', 3)
    f = install_svd(env)
    geo.svdtf(src, tgt)
    env.eq('rotation is U Vh (ignoring reflections)', rec[0][:, 0:3], f['U'] @ f['Vh'])


# svdtf / svdstf hand their optimum to mat2SE3 / mat2Sim3(check=False): "exact correspondences under a true transform are reproduced
# exactly for rotations over ALL of SO(3)" rests on the matrix -> quaternion extraction being right in every one of its branch regions
# (trace, x-, y-, z-dominant) - the contracts of c11_convert.py, discharged in this check too.
from contracts import c11_convert as _c11
obligation('C17.callee.mat2SO3.regions', functions=['pypose.lietensor.convert:mat2SO3'], max_paths=32,
           note='callee contract of svdtf/svdstf (same contract function as C11.mat2SO3.regions)')(_c11.m2so3)
obligation('C17.callee.mat2SO3.masks', functions=['pypose.lietensor.convert:mat2SO3'], max_paths=32,
           note='callee contract of svdtf/svdstf (same contract function as C11.mat2SO3.masks)')(_c11.masks)
