"""C18 - point-cloud filters and camera helpers match their brute-force definitions.

Camera helpers: rational identities (non-zero focal lengths, non-zero depth).
knn / nbr_filter / knn_filter: small clouds (N = 3, symbolic coordinates), every ordering of the pairwise
distances is a path (topk by symbolic comparisons), result = brute-force definition; the index domains of
knn_filter's radius branch are exercised with an outlier at every position.
All N up to 300, voxel_filter, random_filter and permutation equivariance: bounded stand-in vs brute force.
"""
from fractions import Fraction as Q
from pvc.registry import obligation, bounded, property_meta
from contracts.common import *

property_meta('C18', level='proof', min_obligations=10,
              trusted_base=['torch.topk / gather / index semantics (storch model: selection by comparisons)'],
              assumptions=['filters are proved for 3-point clouds (all distance orderings, ties excluded); larger clouds, voxel_filter, random_filter: bounded stand-in vs brute force'],
              explanation='camera helpers as rational identities; small-N filters with all orderings as paths')

GEO = 'pypose.function.geometry'


def cloud(env, name, n, d):
    T = env.T
    return T.stack([env.vec(f'{name}{i}', d) for i in range(n)], 0)


@obligation('C18.homo2cart.scale', functions=[f'{GEO}:homo2cart', f'{GEO}:cart2homo'], max_paths=64)
def homo_scale(env):
    geo = env.load(GEO); T = env.T
    P = cloud(env, 'P', 1, 3)
    # homogeneous coordinates are defined up to scale: any non-zero scale, however small (far below machine epsilon), gives the same point
    sc = env.scalar('w_scale', positive=True, regimes=('generic', 'tiny', 'small'))[0]
    env.assume('the scale is a normal floating-point number (above the smallest normal of the dtype, far below eps allowed)', sc >= T.finfo(P.dtype).tiny)
    env.eq('homo2cart is independent of the homogeneous scale', geo.homo2cart(geo.cart2homo(P) * sc), P)
    env.eq('... of either sign', geo.homo2cart(geo.cart2homo(P) * (-sc)), P)


def _camera_setup(env, extrinsics=True):
    geo = env.load(GEO); pp = env.load('pypose'); T = env.T
    fx, fy = env.scalar('fx', positive=True, regimes=('generic',))[0], -env.scalar('fy_neg', positive=True, regimes=('generic',))[0]
    cx, cy = env.scalar('cx')[0], env.scalar('cy')[0]
    O = fx * 0
    K = T.stack([T.stack([fx, O, cx]), T.stack([O, fy, cy]), T.stack([O, O, O + 1])])
    if not extrinsics:
        return geo, T, K, (fx, fy, cx, cy)
    P = cloud(env, 'P', 2, 3)
    X = lie(pp, 'SE3', group_elem(env, 'SE3', 'X'))
    Pc = X.unsqueeze(-2) @ P
    tiny = env.eps(P) ** 4
    env.assume('points are off the camera plane (|z| >= tiny)', (Pc[:, 2].abs() >= tiny).all() if not env.sym else (Pc[:, 2].abs() >= tiny))
    return geo, T, K, (fx, fy, cx, cy), P, X, Pc


CAMF = [f'{GEO}:cart2homo', f'{GEO}:homo2cart', f'{GEO}:point2pixel', f'{GEO}:pixel2point', f'{GEO}:reprojerr']


# the camera contract is split into three obligations that run in parallel (one obligation took 30 s idle and up to 150 s on a loaded
# machine, close to the per-obligation limit); the clauses are the ones of the former single obligation, none dropped
@obligation('C18.camera', functions=CAMF, max_paths=32, timeout=400)
def camera(env):
    geo, T, K, (fx, fy, cx, cy), P, X, Pc = _camera_setup(env)
    env.eq('homo2cart(cart2homo(p)) = p', geo.homo2cart(geo.cart2homo(P)), P)
    pix = geo.point2pixel(P, K, X)
    env.eq('pinhole projection: u = fx x/z + cx, v = fy y/z + cy', pix, T.stack([fx * Pc[:, 0] / Pc[:, 2] + cx, fy * Pc[:, 1] / Pc[:, 2] + cy], -1))
    env.eq('pixel2point inverts point2pixel given the depth', geo.pixel2point(pix, Pc[:, 2], K), Pc)
    env.safe('defined', pix)


@obligation('C18.camera.reprojerr', functions=CAMF, max_paths=32, timeout=400)
def camera_reproj(env):
    geo, T, K, (fx, fy, cx, cy), P, X, Pc = _camera_setup(env)
    pix = T.stack([fx * Pc[:, 0] / Pc[:, 2] + cx, fy * Pc[:, 1] / Pc[:, 2] + cy], -1)       # the pinhole projection (C18.camera: = point2pixel)
    env.eq('reprojection error of projected pixels is zero', geo.reprojerr(P, pix, K, X), pix * 0)
    env.eq('reprojection error (norm) is zero', geo.reprojerr(P, pix, K, X, reduction='norm'), pix[:, 0] * 0)


@obligation('C18.camera.pixels', functions=CAMF, max_paths=32, timeout=400)
def camera_pixels(env):
    geo, T, K, (fx, fy, cx, cy) = _camera_setup(env, extrinsics=False)
    tiny = env.eps(K) ** 4
    pix2 = cloud(env, 'px', 2, 2); z = T.stack([env.scalar('z0', positive=True, regimes=('generic',))[0], -env.scalar('z1n', positive=True, regimes=('generic',))[0]])
    env.assume('depths are off the camera plane', z.abs() >= tiny)
    env.eq('point2pixel inverts pixel2point (no extrinsics)', geo.point2pixel(geo.pixel2point(pix2, z, K), K), pix2)
    # integer pixel grids (meshgrid / arange / nonzero): the pixel coordinates are numbers, whatever their dtype
    ipix = T.tensor([[3, 4], [7, -2]]) if env.sym else T.tensor([[3, 4], [7, -2]], dtype=T.int64)
    fpix = ipix * (fx * 0 + 1)
    env.eq('pixel2point on integer-dtype pixels is pixel2point on the same numbers', geo.pixel2point(ipix, z, K), geo.pixel2point(fpix, z, K))
    env.eq('and it is x = (u - cx) z / fx, y = (v - cy) z / fy, z', geo.pixel2point(ipix, z, K),
           T.stack([(fpix[:, 0] - cx) * z / fx, (fpix[:, 1] - cy) * z / fy, z], -1))


@obligation('C18.knn', functions=[f'{GEO}:knn'], max_paths=256, timeout=300)
def knn(env):
    geo = env.load(GEO); T = env.T
    ref = cloud(env, 'r', 1, 1); nbr = cloud(env, 'n', 3, 1)      # 1-d points: the distance is |x_i - x_j| (linear reasoning)
    dist, idx = geo.knn(ref, nbr, k=2, ord=2)
    # brute force: squared distances (monotone in the distance)
    for i in range(1):
        d2 = [((ref[i] - nbr[j]) ** 2).sum() for j in range(3)]
        i0, i1 = int(idx[i, 0]), int(idx[i, 1])
        rest = [j for j in range(3) if j not in (i0, i1)][0]
        env.holds(f'ref {i}: returned neighbours are the two smallest distances, sorted', (d2[i0] <= d2[i1]) & (d2[i1] <= d2[rest]))
        env.eq(f'ref {i}: returned distances are the distances of the returned indices', dist[i] ** 2, T.stack([d2[i0], d2[i1]]))
    env.holds('indices are distinct', all(int(idx[i, 0]) != int(idx[i, 1]) for i in range(1)))


@obligation('C18.nbr_filter', functions=[f'{GEO}:nbr_filter'], max_paths=128, timeout=300)
def nbrf(env):
    geo = env.load(GEO); T = env.T
    P = cloud(env, 'p', 3, 1); feat = cloud(env, 'f', 3, 1)
    X = T.cat([P, feat], -1)
    r = env.scalar('radius', positive=True, regimes=('generic', 'large', 'small'))[0]
    out, mask = geo.nbr_filter(X, nbr=1, radius=r, pdim=1, return_mask=True)
    keep = []
    for i in range(3):
        cnt = sum(1 for j in range(3) if j != i and bool(((P[i] - P[j]) ** 2).sum() <= r * r))
        keep.append(cnt >= 1)
    env.holds('mask keeps exactly the points with at least n other points within the radius', [bool(m) for m in mask] == keep)
    exp = [X[i] for i in range(3) if keep[i]]
    env.holds('number of kept points', out.shape[0] == len(exp))
    if exp: env.eq('kept points are returned unchanged, with their feature channels, in order', out, T.stack(exp, 0))


for radius in (False, True):
    def mk(radius=radius):
        @obligation(f'C18.knn_filter.{"radius" if radius else "all"}', functions=[f'{GEO}:knn_filter'], max_paths=256, timeout=400)
        def kf(env):
            geo = env.load(GEO); T = env.T
            N = 3
            P = cloud(env, 'p', N, 1)
            r = env.scalar('radius', positive=True, regimes=('generic', 'large', 'small'))[0] if radius else None
            out = geo.knn_filter(P, k=1, radius=r)
            exp = []
            for i in range(N):
                d2 = [((P[i] - P[j]) ** 2).sum() for j in range(N)]
                if radius:
                    cnt = sum(1 for j in range(N) if j != i and bool(d2[j] <= r * r))
                    if cnt < 1: continue
                others = [j for j in range(N) if j != i]
                best = others[0]
                for j in others[1:]:
                    if bool(d2[j] < d2[best]): best = j
                exp.append((P[i] + P[best]) / 2)
            env.holds('one output row per retained point', out.shape[0] == len(exp))
            if exp: env.eq('each retained point is replaced by the mean of itself and its nearest neighbour', out, T.stack(exp, 0))
    mk()


@obligation('C18.random_filter.batched', functions=[f'{GEO}:random_filter'], max_paths=8, first_path_only=True,
            note='randperm by contract: an arbitrary permutation (here a fixed one; the clause does not depend on which)')
def random_filter_batched(env):
    """random_filter on a BATCH of clouds (..., N, D): every returned point of cloud b is one of the input points of cloud b, no point
    is returned twice, num points per cloud"""
    geo = env.load(GEO); T = env.T
    B, N, D, num = 2, 3, 2, 2
    P = T.stack([cloud(env, f'c{b}_', N, D) for b in range(B)], 0)
    if env.sym:
        env.stub(T, 'randperm', lambda n, **k: T.tensor([2, 0, 1][:n] if n == 3 else list(range(n))[::-1]))
    out = geo.random_filter(P, num)
    env.holds('shape (..., num, D)', tuple(out.shape) == (B, num, D))
    if env.sym:
        from pvc import storch as st
        row = lambda t: tuple(st._T(t)._a.flat)
        same = lambda u, v: all(x.same(y) for x, y in zip(row(u), row(v)))
    else:
        same = lambda u, v: bool((u == v).all())
    own = all(any(same(out[b, i], P[b, j]) for j in range(N)) for b in range(B) for i in range(num))
    env.holds('every returned point is an input point of the SAME cloud', own)
    picks = [[[j for j in range(N) if same(out[b, i], P[b, j])] for i in range(num)] for b in range(B)]
    env.holds('no input point is returned twice', own and all(len({p_[0] for p_ in pk}) == num for pk in picks))
    if env.sym:
        env.holds('nothing but selection: the entries are the input entries themselves', own)


@bounded('C18.brute_force', functions=[f'{GEO}:knn', f'{GEO}:nbr_filter', f'{GEO}:knn_filter', f'{GEO}:voxel_filter', f'{GEO}:random_filter'])
def brute(rng, tier):
    """real code vs brute force: 1..300 points, dims 1..6 (+ feature channels), norms 1/2/inf, outliers at random positions, permutations"""
    import torch, pypose as pp
    N = 60 if tier == 'quick' else 600
    fails = []; samples = []; evals = 0
    g = torch.Generator().manual_seed(rng.randrange(1 << 30))
    def pdist(a, b, ord_):
        return torch.linalg.norm(a.unsqueeze(-2) - b.unsqueeze(-3), dim=-1, ord=ord_)
    for t in range(N):
        n = rng.choice([1, 2, 3, 5, 17, 60, 300]) if tier != 'quick' else rng.choice([1, 2, 3, 5, 17, 60])
        d = rng.randrange(1, 7); fch = rng.randrange(0, 3)
        pts = torch.randn(n, d + fch, dtype=torch.float64, generator=g)
        n_out = rng.randrange(0, 3)
        for _ in range(min(n_out, n)):
            pts[rng.randrange(n), :d] += 50.0
        ord_ = rng.choice([1, 2, float('inf')])
        perm = torch.randperm(n, generator=g)
        # knn
        k = rng.randrange(1, n + 1)
        dist, idx = pp.knn(pts[:, :d], pts[:, :d], k=k, ord=ord_)
        D = pdist(pts[:, :d], pts[:, :d], ord_)
        ref = torch.sort(D, dim=-1).values[:, :k]
        evals += 1
        if not torch.allclose(dist, ref, atol=1e-12) or not torch.allclose(torch.gather(D, 1, idx), ref, atol=1e-12):
            fails.append(dict(clause='knn_bruteforce', signature=f'n={n},k={k},ord={ord_}'))
        # nbr_filter
        r = float(rng.choice([0.5, 1.0, 2.0, 5.0])); m = rng.randrange(0, 4)
        cnt = (D <= r).sum(-1) - 1
        out = pp.nbr_filter(pts, m, r, pdim=d, ord=ord_)
        evals += 1
        if not torch.equal(out, pts[cnt >= m]): fails.append(dict(clause='nbr_filter_bruteforce', signature=f'n={n},r={r},m={m}'))
        out_p = pp.nbr_filter(pts[perm], m, r, pdim=d, ord=ord_)
        if not torch.equal(out_p, pts[perm][(cnt >= m)[perm]]): fails.append(dict(clause='nbr_filter_permutation', signature=f'n={n}'))
        # knn_filter with and without radius
        kk = rng.randrange(1, 4)
        if n >= kk + 1:
            for use_r in (None, r):
                try:
                    o = pp.knn_filter(pts, kk, pdim=d, radius=use_r, ord=ord_)
                except Exception as e:
                    fails.append(dict(clause='knn_filter_raises', signature=f'n={n},k={kk},radius={use_r}', error=f'{type(e).__name__}: {e}'[:120])); continue
                evals += 1
                keep = torch.ones(n, dtype=torch.bool) if use_r is None else (cnt >= kk)
                order = torch.argsort(D, dim=-1)[:, :kk + 1]
                refm = pts[order].mean(dim=1)[keep]
                if o.shape != refm.shape or not torch.allclose(o, refm, atol=1e-9):
                    fails.append(dict(clause='knn_filter_bruteforce', signature=f'radius={"yes" if use_r else "no"}', n=n, k=kk, radius=use_r, ord=str(ord_)))
        # knn_filter with TIES at distance zero: groups of s points share their coordinates exactly and differ in the feature channels
        # (two returns of one surface point); with k = s - 1 the k nearest neighbours of a point are exactly the other members of its
        # group, whatever order topk lists equal distances in - the result is the group mean, coordinates AND features
        if t % 2 == 0:
            sgrp = rng.choice([2, 3]); ng = rng.randrange(2, 6); dd = rng.randrange(1, 4)
            centres = torch.randn(ng, dd, dtype=torch.float64, generator=g) * 10 + 100 * torch.arange(ng, dtype=torch.float64)[:, None]
            coords = centres.repeat_interleave(sgrp, 0); feats = torch.randn(ng * sgrp, 2, dtype=torch.float64, generator=g)
            tp = torch.cat([coords, feats], -1)
            permt = torch.randperm(tp.shape[0], generator=g); tp = tp[permt]
            gid = torch.arange(ng).repeat_interleave(sgrp)[permt]
            want = torch.stack([tp[gid == gid[i]].mean(0) for i in range(tp.shape[0])])
            for use_r in (None, 5.0, 0.0):          # radius 0: the coincident members are the only points within the radius - all are retained
                try:
                    o = pp.knn_filter(tp, sgrp - 1, pdim=dd, radius=use_r, ord=ord_); evals += 1
                    if o.shape != want.shape or not torch.allclose(o, want, atol=1e-9):
                        fails.append(dict(clause='knn_filter_coincident_points', signature=f'group={sgrp},radius={use_r},ord={ord_}', groups=ng, pdim=dd))
                except Exception as e:
                    fails.append(dict(clause='knn_filter_raises', signature=f'coincident points, group={sgrp},radius={use_r}', error=f'{type(e).__name__}: {e}'[:120]))
            # ... and in a cloud WITHOUT coincident points nothing has a neighbour within radius 0: the result is empty
            try:
                oe = pp.knn_filter(tp[gid != gid[0]][::sgrp] if False else centres.repeat(1, 1), 1, radius=0.0, ord=ord_); evals += 1
                if oe.shape[0] != 0:
                    fails.append(dict(clause='knn_filter_radius_zero_retains_nothing_without_duplicates', signature=f'ord={ord_}', returned=int(oe.shape[0])))
            except Exception as e:
                fails.append(dict(clause='knn_filter_raises', signature='radius 0, no duplicates', error=f'{type(e).__name__}: {e}'[:120]))
        # voxel_filter
        vox = [float(rng.choice([0.5, 1.0, 3.0])) for _ in range(min(d, 3))]
        vd = len(vox)
        voxfn = pp.voxel_filter
        o = pp.voxel_filter(pts, vox)
        evals += 1
        minp = pts[:, :vd].min(0).values
        key = ((pts[:, :vd] - minp) / torch.tensor(vox, dtype=torch.float64)).to(torch.int64)
        uniq = {}
        for i in range(n): uniq.setdefault(tuple(key[i].tolist()), []).append(i)
        cents = torch.stack([pts[v].mean(0) for _, v in sorted(uniq.items())])
        if o.shape != cents.shape or not torch.allclose(torch.sort(o, 0).values, torch.sort(cents, 0).values, atol=1e-9):
            fails.append(dict(clause='voxel_filter_centroids', signature=f'n={n},vox={vox}'))
        torch.manual_seed(rng.randrange(1 << 30))
        orand = pp.voxel_filter(pts, vox, random=True)
        ok = orand.ndim == 2 and orand.shape[0] == len(uniq) and all(any(torch.equal(row, pts[i]) for i in range(n)) for row in orand)
        if ok:
            ks = ((orand[:, :vd] - minp) / torch.tensor(vox, dtype=torch.float64)).to(torch.int64)
            ok = len({tuple(x.tolist()) for x in ks}) == len(uniq)
        if not ok: fails.append(dict(clause='voxel_filter_random_member_per_voxel', signature=f'n={n},vox={vox}'))
        # voxel_filter on grid-aligned clouds (integer lattice, integer voxel sizes): a point whose offset from the minimum is an exact
        # multiple of the voxel size belongs to the voxel that starts there - exact integer reference (p - min) // v, both dtypes
        for ldt in (torch.float32, torch.float64):
            vsz = [rng.choice([1, 2, 3, 7, 10, 41, 47, 49, 55, 61]) for _ in range(min(d, 3))]
            lat = torch.randint(-200, 200, (n, d + fch), generator=g)
            lpts = lat.to(ldt)
            lv = len(vsz)
            lo = voxfn(lpts, [float(v) for v in vsz]); evals += 1
            kint = (lat[:, :lv] - lat[:, :lv].min(0).values) // torch.tensor(vsz)
            groups = {}
            for i in range(n): groups.setdefault(tuple(kint[i].tolist()), []).append(i)
            lc = torch.stack([lpts[v].double().mean(0) for _, v in sorted(groups.items())])
            if lo.shape != lc.shape or not torch.allclose(torch.sort(lo.double(), 0).values, torch.sort(lc, 0).values, atol=1e-3 if ldt == torch.float32 else 1e-9):
                fails.append(dict(clause='voxel_filter_lattice_points', signature=f'{str(ldt).split(".")[-1]}/vox={vsz}', n=n, voxels_returned=int(lo.shape[0]), voxels_expected=len(groups)))
        # voxel_filter on clouds whose voxel GRID is huge (2^33 cells per axis and more: the grid has far more than 2^64 cells, the cloud a
        # few dozen points): voxels are identified by their integer index ROWS, whatever the size of the grid
        if t % 3 == 0:
            hd = rng.choice([3, 4, 6])
            E_ = 2 ** 13 if hd == 6 else 2 ** 32            # extent per axis (a power of two: products of extents wrap to 0 in 64-bit keys)
            base_i = torch.randint(0, E_ - 1001, (max(2, n // 2), hd), generator=g)
            base_i[0] = 0; base_i[1] = E_ - 1               # two corner points pin the extent of every axis to exactly E_
            frac = torch.rand(base_i.shape[0], hd, dtype=torch.float64, generator=g) * 0.4 + 0.05
            twin = base_i.double() + frac + 0.3                                           # a second point in the same voxel of every first one
            shift = torch.zeros(hd, dtype=torch.float64); shift[rng.randrange(2)] = float(rng.choice([1, 2, 1000]))
            other = (base_i.double() + frac + shift)[2:]                                       # ... and one in a DIFFERENT voxel that differs in one index only
            hp = torch.cat([base_i.double() + frac, twin, other], 0)
            hp = hp[torch.randperm(hp.shape[0], generator=g)]
            ho = pp.voxel_filter(hp, [1.0] * hd); evals += 1
            hk = torch.floor(hp - hp.min(0).values).to(torch.int64)
            hg = {}
            for i in range(hp.shape[0]): hg.setdefault(tuple(hk[i].tolist()), []).append(i)
            hc = torch.stack([hp[v].mean(0) for _, v in sorted(hg.items())])
            if ho.shape != hc.shape or not torch.allclose(torch.sort(ho, 0).values, torch.sort(hc, 0).values, rtol=1e-12, atol=1e-3):
                fails.append(dict(clause='voxel_filter_huge_grid', signature=f'd={hd}', n=int(hp.shape[0]), voxels_returned=int(ho.shape[0]), voxels_expected=len(hg)))
        # reprojerr is ZERO for pixels produced by point2pixel - for every reduction, whether or not an input is tracked by autograd (a pose
        # being optimised, points of a bundle adjustment), in both dtypes
        if t % 4 == 0:
            for cdt in (torch.float64, torch.float32):
                cp = torch.randn(5, 3, dtype=cdt, generator=g) + torch.tensor([0.0, 0.0, 6.0], dtype=cdt)
                Kc = torch.tensor([[500.0, 0, 320.0], [0, 480.0, 240.0], [0, 0, 1.0]], dtype=cdt); Xc = pp.randn_SE3(sigma=0.1, dtype=cdt)
                px = pp.point2pixel(cp, Kc, Xc)
                for red in ('none', 'norm', 'sum'):
                    for track in ('plain', 'pose requires grad', 'points require grad', 'no_grad'):
                        cpp = cp.clone().requires_grad_(track == 'points require grad'); Xcc = pp.SE3(Xc.tensor().clone().requires_grad_(track == 'pose requires grad'))
                        try:
                            if track == 'no_grad':
                                with torch.no_grad(): e_ = pp.reprojerr(cpp, px, Kc, Xcc, reduction=red)
                            else:
                                e_ = pp.reprojerr(cpp, px, Kc, Xcc, reduction=red)
                        except Exception as ex:
                            fails.append(dict(clause='reprojerr_raises', signature=f'{red}/{track}', error=f'{type(ex).__name__}: {ex}'[:100])); continue
                        evals += 1
                        if float(e_.detach().abs().max()) > 64 * torch.finfo(cdt).eps * 640:
                            fails.append(dict(clause='reprojerr_zero_for_projected_pixels', signature=f'{red}/{track}/{str(cdt).split(".")[-1]}', err=float(e_.detach().abs().max())))
        # B camera poses against ONE unbatched cloud of N points - documented result (B, N, 2): every camera sees every point, also when B == N
        if t % 4 == 1:
            for (Bc, Nc) in ((3, 5), (5, 5), (4, 4), (1, 1)):
                cpt = torch.randn(Nc, 3, dtype=torch.float64, generator=g) + torch.tensor([0.0, 0.0, 7.0], dtype=torch.float64)
                Kc = torch.tensor([[500.0, 0, 320.0], [0, 480.0, 240.0], [0, 0, 1.0]], dtype=torch.float64); Xs = pp.randn_SE3(Bc, sigma=0.1, dtype=torch.float64)
                try:
                    pxs = pp.point2pixel(cpt, Kc, Xs); evals += 1
                    want = torch.stack([pp.point2pixel(cpt, Kc, Xs[b]) for b in range(Bc)], 0)
                    if tuple(pxs.shape) != (Bc, Nc, 2) or not torch.allclose(pxs, want, atol=1e-9):
                        fails.append(dict(clause='point2pixel_every_pose_against_every_point', signature=f'B={Bc},N={Nc}', got=list(pxs.shape)))
                    er = pp.reprojerr(cpt, want, Kc, Xs, reduction='norm')
                    if tuple(er.shape) != (Bc, Nc) or float(er.abs().max()) > 1e-8:
                        fails.append(dict(clause='reprojerr_zero_for_projected_pixels', signature=f'batched poses B={Bc},N={Nc}', err=float(er.abs().max())))
                except Exception as ex:
                    fails.append(dict(clause='point2pixel_raises', signature=f'B={Bc},N={Nc}', error=f'{type(ex).__name__}: {ex}'[:120]))
        # random_filter
        num = rng.randrange(0, n + 1)
        rf = pp.random_filter(pts, num)
        evals += 1
        rows = [tuple(x.tolist()) for x in rf]
        allrows = [tuple(x.tolist()) for x in pts]
        if len(rows) != num or len(set(rows)) != num or any(x not in allrows for x in rows):
            fails.append(dict(clause='random_filter_distinct_input_points', signature=f'n={n},num={num}'))
        if t < 2: samples.append(dict(n=n, d=d, features=fch, ord=str(ord_), k=k))
        if len(fails) > 8: break
    return dict(evaluations=evals, distinct_nontrivial=evals, rule='random clouds with outliers at random positions; each (function, cloud) pair counted; continuous coordinates exclude ties',
                bound='1..300 points (quick: <= 60), dims 1..6, up to 2 feature channels', failures=fails[:8], samples=samples)


@obligation('C18.canary.farthest_neighbour', functions=[f'{GEO}:knn_filter'], canary=True, max_paths=256, timeout=300)
def canary(env):
    geo = env.load(GEO); T = env.T
    P = cloud(env, 'p', 3, 1)
    out = geo.knn_filter(P, k=1)
    exp = []
    for i in range(3):
        d2 = [((P[i] - P[j]) ** 2).sum() for j in range(3)]
        others = [j for j in range(3) if j != i]
        far = others[0] if bool(d2[others[0]] > d2[others[1]]) else others[1]
        exp.append((P[i] + P[far]) / 2)
    env.eq('mean with the farthest point', out, T.stack(exp, 0))
