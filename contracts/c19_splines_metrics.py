"""C19 - splines interpolate and are equivariant; APE/RPE are alignment-invariant; geodesic loss.

Deductive core (symbolic data): chspline passes through the inputs, reproduces uniform straight lines,
returns (N-1)k+1 samples; bspline on translation-valued poses (identity or common rotation): continuity across
segments, constant-velocity reproduction, left equivariance under an arbitrary fixed pose, extrapolate end
points; the relative pose X_i^-1 X_j is unchanged by left multiplication (the identity behind rpe invariance);
geodesic_loss is the rotation angle of x y^-1 in [0, pi], symmetric; error statistics are the documented
formulas (ordering Max >= RMSE >= Mean >= Min >= 0 is the power-mean lemma).
Bounded stand-ins (real code): bspline with rotations (constant twist), ape/rpe invariances, float intervals.
"""
from fractions import Fraction as Q
from pvc.registry import obligation, bounded, property_meta
from specs import lie as S
from contracts.common import *

property_meta('C19', level='proof', min_obligations=15,
              trusted_base=['L-power-mean: max >= rms >= mean >= min >= 0 for non-negative samples',
                            'Exp(a xi) Exp(b xi) = Exp((a+b) xi) (one-parameter subgroup) for the constant-twist clause with rotations: bounded stand-in only',
                            'C02 (Log contracts), C03 (group laws)'],
              assumptions=['bspline is proved for poses with a common rotation (translations symbolic); with varying rotations: bounded stand-in',
                           'ape with alignment relies on uniqueness of the Umeyama optimum (C17): bounded stand-in'],
              explanation='algebraic core of splines/metrics as exact identities; remaining clauses labelled stand-ins')

SPL = 'pypose.function.spline'
LOSS = 'pypose.module.loss'
APE = 'pypose.metric.ape_rpe'


for (N, k) in ((3, 2), (4, 3), (3, 4)):
    def mk(N=N, k=k):
        @obligation(f'C19.chspline.N{N}.k{k}', functions=[f'{SPL}:chspline'], max_paths=8)
        def ch(env):
            sp = env.load(SPL); T = env.T
            P = T.stack([env.vec(f'p{i}', 2) for i in range(N)], 0)
            itv = Q(1, k) if env.sym else 1.0 / k
            out = sp.chspline(P, interval=itv)
            env.holds('sample count is (N-1) k + 1', out.shape[-2] == (N - 1) * k + 1)
            for i in range(N):
                env.eq(f'passes through point {i} at its integer time', out[i * k], P[i])
            p0, v = env.vec('line_p0', 2), env.vec('line_v', 2)
            line = T.stack([p0 + i * v for i in range(N)], 0)
            out2 = sp.chspline(line, interval=itv)
            ts = [Q(j, k) if env.sym else j / k for j in range((N - 1) * k + 1)]
            env.eq('uniformly sampled straight line is reproduced exactly', out2, T.stack([p0 + t * v for t in ts], 0))
            env.eq('input untouched', P, P.clone())
    mk()


def trans_poses(env, pp, ts, G=None):
    """SE3 poses with translations ts and identity rotation (optionally left-multiplied by G)"""
    T = env.T
    rows = []
    for t in ts:
        one = t[0:1] * 0 + 1
        rows.append(T.cat([t, one * 0, one * 0, one * 0, one], -1))
    X = lie(pp, 'SE3', T.stack(rows, 0))
    if G is not None:
        X = lie(pp, 'SE3', G).unsqueeze(0) @ X if False else (lie(pp, 'SE3', G.reshape(1, 7)) @ X)
    return X


@obligation('C19.bspline.translations', functions=[f'{SPL}:bspline'], max_paths=16, timeout=400)
def bs(env):
    sp = env.load(SPL); pp = env.load('pypose'); op = env.load(OPS); T = env.T
    k = 2
    itv = Q(1, k) if env.sym else 1.0 / k
    ts = [env.vec(f't{i}', 3) for i in range(5)]
    X = trans_poses(env, pp, ts)
    out = sp.bspline(X, interval=itv)
    # cumulative cubic B-spline in the vector space of translations: basis at s: from the documented matrix
    def basis(s):
        return ((5 + 3 * s - 3 * s * s + s ** 3) / 6, (1 + 3 * s + 3 * s * s - 2 * s ** 3) / 6, (s ** 3) / 6)
    half = Q(1, 2) if env.sym else 0.5
    exp_rows = []
    for seg in range(2):
        for s in (0, half):
            b = basis(s)
            p = ts[seg] + b[0] * (ts[seg + 1] - ts[seg]) + b[1] * (ts[seg + 2] - ts[seg + 1]) + b[2] * (ts[seg + 3] - ts[seg + 2])
            exp_rows.append(p)
    b = basis(1)
    exp_rows.append(ts[1] + b[0] * (ts[2] - ts[1]) + b[1] * (ts[3] - ts[2]) + b[2] * (ts[4] - ts[3]))
    env.holds('sample count', out.shape[-2] == 2 * k + 1)
    env.eq('translations follow the cumulative cubic B-spline basis', raw(out)[:, 0:3], T.stack(exp_rows, 0))
    env.eq('rotations stay the common rotation', raw(out)[:, 3:7], raw(X)[0:1, 3:7].expand(2 * k + 1, 4))
    # continuity: end of segment 0 (s -> 1) equals start of segment 1 (s = 0)
    b1 = basis(1)
    end0 = ts[0] + b1[0] * (ts[1] - ts[0]) + b1[1] * (ts[2] - ts[1]) + b1[2] * (ts[3] - ts[2])
    env.eq('continuous across segments', raw(out)[k, 0:3], end0)
    # constant velocity reproduction: t_i = p0 + i v  ->  sample j is p0 + (1 + j/k) v
    p0, v = env.vec('p0', 3), env.vec('v', 3)
    Xl = trans_poses(env, pp, [p0 + i * v for i in range(5)])
    outl = sp.bspline(Xl, interval=itv)
    env.eq('constant-velocity motion is reproduced at the right times', raw(outl)[:, 0:3],
           T.stack([p0 + (1 + (Q(j, k) if env.sym else j / k)) * v for j in range(2 * k + 1)], 0))


for _num, _den in ((3, 10), (2, 5), (7, 10), (1, 4)):
    def mk(num=_num, den=_den):
        @obligation(f'C19.bspline.sample_times.{num}_{den}', functions=[f'{SPL}:bspline'], max_paths=16, timeout=400)
        def bs_times(env):
            """intervals that do not divide 1: every segment is sampled at the multiples j*interval < 1 of the interval (not at evenly
            spread points), so a constant-velocity motion is reproduced at the times (segment + 1) + j * interval, plus the end point"""
            import math
            sp = env.load(SPL); pp = env.load('pypose'); T = env.T
            itv = Q(num, den) if env.sym else num / den
            k = math.ceil(den / num)                      # multiples of the interval in [0, 1)
            p0, v = env.vec('p0', 3), env.vec('v', 3)
            Xl = trans_poses(env, pp, [p0 + i * v for i in range(5)])
            out = sp.bspline(Xl, interval=itv)
            env.holds('sample count is (N - 3) k + 1', out.shape[-2] == 2 * k + 1)
            times = [1 + seg + j * itv for seg in range(2) for j in range(k)] + [3]
            env.eq('constant-velocity motion is reproduced at the multiples of the interval', raw(out)[:, 0:3], T.stack([p0 + t * v for t in times], 0))
    mk()


@obligation('C19.bspline.equivariance', functions=[f'{SPL}:bspline'], max_paths=16, timeout=400)
def bs_eq(env):
    sp = env.load(SPL); pp = env.load('pypose'); op = env.load(OPS); T = env.T
    itv = Q(1, 2) if env.sym else 0.5
    ts = [env.vec(f't{i}', 3) for i in range(4)]
    G = group_elem(env, 'SE3', 'G', qregimes=('generic',))
    X = trans_poses(env, pp, ts)
    GX = lie(pp, 'SE3', T.stack([op.SE3_Mul.forward(G, raw(X)[i]) for i in range(4)], 0))
    a = sp.bspline(GX, interval=itv)
    b = sp.bspline(X, interval=itv)
    Gb = T.stack([op.SE3_Mul.forward(G, raw(b)[i]) for i in range(b.shape[0])], 0)
    env.eq('bspline commutes with left multiplication by a fixed pose', raw(a), Gb)


@obligation('C19.bspline.extrapolate', functions=[f'{SPL}:bspline'], max_paths=16, timeout=400)
def bs_ex(env):
    sp = env.load(SPL); pp = env.load('pypose'); T = env.T
    itv = Q(1, 2) if env.sym else 0.5
    ts = [env.vec(f't{i}', 3) for i in range(2)]
    X = trans_poses(env, pp, ts)
    out = sp.bspline(X, interval=itv, extrapolate=True)
    env.eq('extrapolate: starts at the first pose', raw(out)[0], raw(X)[0])
    env.eq('extrapolate: ends at the last pose', raw(out)[-1], raw(X)[-1])


@obligation('C19.relative_pose_invariance', functions=[f'{OPS}:SE3_Mul.forward', f'{OPS}:SE3_Inv.forward'])
def relpose(env):
    """(G X)^-1 (G Y) = X^-1 Y : rpe is unchanged by left-multiplying a trajectory by a fixed pose"""
    op = env.load(OPS); pp = env.load('pypose'); T = env.T
    G, X, Y = (group_elem(env, 'SE3', n) for n in 'GXY')
    mul, inv = op.SE3_Mul.forward, op.SE3_Inv.forward
    env.eq('relative pose is left-invariant', mul(inv(mul(G, X)), mul(G, Y)), mul(inv(X), Y))
    a = lie(pp, 'SE3', X).Inv() @ lie(pp, 'SE3', Y)
    env.eq('LieTensor form used by rpe', raw(a), mul(inv(X), Y))


@obligation('C19.geodesic_loss', functions=[f'{LOSS}:geodesic_loss', f'{LOSS}:GeodesicLoss.forward'], max_paths=64, timeout=300)
def geo(env):
    ls = env.load(LOSS); pp = env.load('pypose'); op = env.load(OPS); T = env.T
    x = env.unitquat('x', regimes=('generic', 'neg', 'identity')); y = env.unitquat('y', regimes=('generic', 'neg'))
    tx = env.vec('tx', 3)
    X = lie(pp, 'SE3', T.cat([tx, x], -1).reshape(1, 7)); Y = lie(pp, 'SO3', y.reshape(1, 4))
    e = op.SO3_Mul.forward(x, op.SO3_Inv.forward(y))
    ne = T.linalg.norm(e[0:3], dim=-1); eps = env.eps(x)
    env.assume('relative rotation in the generic regime of the quaternion log (other regimes: C02)', (ne > eps) & (e[3].abs() > eps))
    th = ls.geodesic_loss(X, Y, reduction='none')
    ang = T.linalg.norm(op.SO3_Log.forward(e), dim=-1)
    env.eq('loss is the rotation angle |Log(rot(x) rot(y)^-1)|', th.reshape(()), ang)
    env.holds('angle in [0, pi]', (th >= 0) & (th <= T.pi))
    th2 = ls.geodesic_loss(Y, X, reduction='none')
    env.eq('symmetric in its arguments', th2, th)
    env.eq('mean reduction', ls.geodesic_loss(X, Y, reduction='mean'), th.mean())
    env.eq('sum reduction', ls.geodesic_loss(X, Y, reduction='sum'), th.sum())
    env.eq('identical rotations give zero', ls.geodesic_loss(Y, Y, reduction='sum'), 0)


@obligation('C19.geodesic_loss.reductions', functions=[f'{LOSS}:geodesic_loss', f'{LOSS}:GeodesicLoss.forward'], max_paths=16, timeout=300, no_validate=True,
            note='Log by contract (an abstract rotation vector per relative rotation; its value is C02 / C19.geodesic_loss)')
def geo_reductions(env):
    """the reductions are taken over the BROADCAST result: one reference rotation against a batch, a batch against one, a column against a
    row - 'none' has the broadcast shape, 'mean' is the mean of that result, 'sum' its sum; function and module form"""
    ls = env.load(LOSS); pp = env.load('pypose'); T = env.T
    if env.sym:
        from pvc import storch as st
        lt = env.load(LT)
        memo = {}
        class LogStub:
            @staticmethod
            def apply(x):
                rows = x.reshape(-1, 4); out = []
                for i in range(rows.shape[0]):
                    key = tuple(repr(e) for e in st._T(rows[i])._a.flat)
                    if key not in memo: memo[key] = env.fresh_matrix(f'log{len(memo)}_', 1, 3)[0]
                    out.append(memo[key])
                return T.stack(out, 0).reshape(tuple(x.shape[:-1]) + (3,))
        env.stub(lt, 'SO3_Log', LogStub)
    qs = [env.unitquat(f'q{i}', regimes=('generic',)) for i in range(4)]
    one = lie(pp, 'SO3', qs[0]); two = lie(pp, 'SE3', T.cat([T.stack([env.vec('t1', 3), env.vec('t2', 3)], 0), T.stack(qs[1:3], 0)], -1))
    for a, b, tag, shape in ((one, two, 'one against a batch', (2,)), (two, one, 'a batch against one', (2,)),
                             (lie(pp, 'SO3', T.stack(qs[0:2], 0).reshape(2, 1, 4)), lie(pp, 'SO3', T.stack(qs[2:4], 0).reshape(1, 2, 4)), 'a column against a row', (2, 2))):
        none = ls.geodesic_loss(a, b, reduction='none')
        env.holds(f"{tag}: 'none' has the broadcast shape", tuple(none.shape) == shape)
        env.eq(f"{tag}: 'mean' is the mean over the broadcast result", ls.geodesic_loss(a, b, reduction='mean'), none.mean())
        env.eq(f"{tag}: 'sum' is the sum over the broadcast result", ls.geodesic_loss(a, b, reduction='sum'), none.sum())
        env.eq(f"{tag}: the module form (default reduction) is the mean", ls.GeodesicLoss()(a, b), none.mean())
        env.eq(f"{tag}: GeodesicLoss('sum') - the documented argument given positionally - is the sum", ls.GeodesicLoss('sum')(a, b), none.sum())
        env.eq(f"{tag}: GeodesicLoss('none') is the batched result", ls.GeodesicLoss('none')(a, b), none)


@obligation('C19.error_statistics', functions=[f'{APE}:compute_error', f'{APE}:StampedSE3.__init__'], max_paths=64, timeout=300)
def stats(env):
    ap = env.load(APE); pp = env.load('pypose'); T = env.T
    ts = [env.vec(f't{i}', 3) for i in range(2)]; us = [env.vec(f'u{i}', 3) for i in range(2)]
    R = ap.StampedSE3(None, trans_poses(env, pp, ts)); E = ap.StampedSE3(None, trans_poses(env, pp, us))
    res = ap.compute_error(R, E, output='translation', mtype='ape', otype='All')
    err = [T.linalg.norm(us[i] - ts[i], dim=-1) for i in range(2)]
    big = err[0] if bool(err[0] >= err[1]) else err[1]; small = err[1] if bool(err[0] >= err[1]) else err[0]
    env.eq('Max is the largest error', res['Max'], big); env.eq('Min is the smallest error', res['Min'], small)
    env.eq('Mean', res['Mean'], (err[0] + err[1]) / 2)
    env.eq('RMSE squared is the mean squared error', res['RMSE'] ** 2, (err[0] ** 2 + err[1] ** 2) / 2)
    env.eq('SSE', res['SSE'], err[0] ** 2 + err[1] ** 2)
    env.holds('Max >= RMSE >= Mean >= Min >= 0', (res['Max'] >= res['RMSE']) & (res['RMSE'] >= res['Mean']) & (res['Mean'] >= res['Min']) & (res['Min'] >= 0))
    same = ap.compute_error(R, ap.StampedSE3(None, trans_poses(env, pp, ts)), output='translation', mtype='ape', otype='All')
    env.eq('identical trajectories: zero Max', same['Max'], 0); env.eq('identical trajectories: zero RMSE', same['RMSE'], 0)


@obligation('C19.matching_time_indices', functions=[f'{APE}:matching_time_indices'], max_paths=256, timeout=300)
def mti(env):
    """time association: a stamp of the first sequence is paired with the NEAREST stamp of the (shifted) second one, and only if that
    nearest stamp is closer than max_diff - whatever the spacing of the stamps relative to max_diff (dense sequences included)"""
    ape = env.load(APE); T = env.T
    s1 = env.scalar('a0', regimes=('generic', 'small'))
    s2 = T.cat([env.scalar(f'b{i}', regimes=('generic', 'small')) for i in range(3)], -1)
    env.assume('the second sequence is sorted (time stamps)', (s2[0] < s2[1]) & (s2[1] < s2[2]))
    md = env.scalar('max_diff', positive=True, regimes=('generic', 'large', 'small'))[0]
    off = env.scalar('offset', regimes=('zero', 'generic'))[0]
    ds = [(s1[0] - (s2[j] + off)).abs() for j in range(3)]          # |.| splits on signs: linear arithmetic only
    for u, v in ((0, 1), (1, 2), (0, 2)):
        env.assume('no exact tie between two stamps (probability zero)', (ds[u] - ds[v]) != 0)
    for u in range(3):
        env.assume('no stamp at distance exactly max_diff (probability zero)', (ds[u] - md) != 0)
    i1, i2 = ape.matching_time_indices(s1, s2, md if env.sym else float(md), off if env.sym else float(off))
    j = 0
    for c in (1, 2):
        if bool(ds[c] < ds[j]): j = c
    hit = bool(ds[j] < md)
    env.holds('the stamp is matched iff its nearest partner is closer than max_diff', list(i1) == ([0] if hit else []))
    env.holds('it is paired with its nearest stamp of the second sequence', list(i2) == ([j] if hit else []))


@bounded('C19.geodesic_loss_float', functions=[f'{LOSS}:geodesic_loss'])
def geo_float(rng, tier):
    """real code, float32 and float64: y = Exp(delta * axis) @ x with a known angle delta, log-uniform from far below sqrt(eps) up to pi:
    the returned angle is delta within 32 eps (absolute) + 128 eps (relative), in both argument orders and under each reduction - the
    angle is well conditioned as |Log|, so nothing is lost at small angles"""
    import torch, pypose as pp, math
    N = 300 if tier == 'quick' else 5000
    fails = []; evals = 0; samples = []
    g = torch.Generator().manual_seed(rng.randrange(1 << 30))
    for dt in (torch.float64, torch.float32):
        eps = torch.finfo(dt).eps
        worst = 0.0
        for k in range(N):
            delta = 10 ** rng.uniform(math.log10(eps) + 0.5, math.log10(3.1)) if k % 5 else rng.uniform(0.05, 3.1)
            ax = torch.randn(3, dtype=torch.float64, generator=g); ax = ax / ax.norm()
            x = pp.randn_SO3(dtype=torch.float64, generator=g) if k % 3 else pp.identity_SO3(dtype=torch.float64)
            y = pp.so3(delta * ax).Exp() @ x
            # the inputs are rounded to dt; their true relative angle moves by at most a few eps
            xd, yd = pp.SO3(x.tensor().to(dt)), pp.SO3(y.tensor().to(dt))
            true = float((pp.SO3(yd.tensor().double()) @ pp.SO3(xd.tensor().double()).Inv()).Log().norm())
            vals = dict(xy=float(pp.geodesic_loss(xd[None], yd[None], reduction='none')), yx=float(pp.geodesic_loss(yd[None], xd[None], reduction='none')),
                        mean=float(pp.geodesic_loss(xd[None], yd[None], reduction='mean')), sum=float(pp.geodesic_loss(xd[None], yd[None], reduction='sum')))
            evals += 1
            tol = 32 * eps + 128 * eps * true
            err = max(abs(v - true) for v in vals.values())
            worst = max(worst, err / tol)
            if not err <= tol:
                fails.append(dict(clause='geodesic_loss_is_the_angle_in_floating_point', signature=f'{str(dt).split(".")[-1]}/angle~1e{int(math.floor(math.log10(delta)))}',
                                  angle=true, returned=vals, tol=tol))
        samples.append(dict(dtype=str(dt), worst_error_over_tolerance=worst))
    uniq = {}
    for f in fails: uniq.setdefault(f['signature'], f)
    return dict(evaluations=evals, distinct_nontrivial=evals, rule='known relative angles log-uniform in [3 eps, 3.1], random axes and bases; distinct by seed',
                bound=f'{N} pairs per dtype', failures=list(uniq.values())[:6], samples=samples)


@bounded('C19.metrics_and_splines', functions=[f'{APE}:ape', f'{APE}:rpe', f'{SPL}:bspline', f'{SPL}:chspline'])
def numeric(rng, tier):
    """real code: ape/rpe zero on identical trajectories, rpe left-invariant, ape invariant under rigid/similarity transform of the
    estimate with align(/scale), statistics ordering; bspline constant twist + equivariance with rotations; chspline counts for float intervals"""
    import torch, math, pypose as pp
    N = 12 if tier == 'quick' else 120
    fails = []; samples = []; evals = 0
    torch.manual_seed(rng.randrange(1 << 30))
    d = torch.float64
    for t in range(N):
        n = rng.choice([3, 5, 20, 60]) if tier == 'quick' else rng.choice([3, 5, 20, 60, 200])
        stamps = torch.cumsum(torch.rand(n, dtype=d) + 0.5, 0)
        ref = pp.randn_SE3(n, dtype=d); est = pp.randn_SE3(n, sigma=0.1, dtype=d) @ ref
        jit = stamps + (torch.rand(n, dtype=d) - 0.5) * 0.004
        for et in ('translation', 'rotation', 'pose', 'radian'):
            z = pp.metric.ape(stamps, ref, jit.clone(), ref, etype=et); evals += 1
            if not all(float(v) < 1e-6 for k_, v in z.items() if k_ in ('Max', 'RMSE', 'Mean', 'Min')):
                fails.append(dict(clause='ape_zero_on_identical', signature=et))
            r = pp.metric.ape(stamps, ref, jit.clone(), est, etype=et); evals += 1
            if not (float(r['Max']) >= float(r['RMSE']) - 1e-12 >= float(r['Mean']) - 2e-12 >= float(r['Min']) - 3e-12 >= -1e-12):
                fails.append(dict(clause='statistics_ordering', signature=et, res={k_: float(v) for k_, v in r.items()}))
        # the 'degree' error type is the 'radian' one in degrees - every statistic of it, and the same ordering
        for fn_ in (pp.metric.ape, pp.metric.rpe):
            if n < 4 and fn_ is pp.metric.rpe: continue
            rr = fn_(stamps, ref, jit.clone(), est, etype='radian'); dg = fn_(stamps, ref, jit.clone(), est, etype='degree'); evals += 2
            if not (float(dg['Max']) >= float(dg['RMSE']) - 1e-9 >= float(dg['Mean']) - 2e-9 >= float(dg['Min']) - 3e-9 >= -1e-9):
                fails.append(dict(clause='statistics_ordering', signature=f'degree/{fn_.__name__}', res={k_: float(v) for k_, v in dg.items()}))
            for k_ in ('Max', 'Min', 'Mean', 'Median', 'RMSE', 'STD'):
                if k_ in rr and k_ in dg and abs(float(dg[k_]) - float(rr[k_]) * 180 / math.pi) > 1e-6 * (1 + abs(float(dg[k_]))):
                    fails.append(dict(clause='degree_statistics_are_the_radian_ones_in_degrees', signature=f'{fn_.__name__}/{k_}', degree=float(dg[k_]), radian=float(rr[k_])))
        G = pp.randn_SE3(dtype=d)
        if n >= 4:
            a = pp.metric.rpe(stamps, ref, jit.clone(), est); b = pp.metric.rpe(stamps, ref, jit.clone(), G @ est); c = pp.metric.rpe(stamps, G @ ref, jit.clone(), est)
            evals += 3
            for nm, o in (('estimate', b), ('reference', c)):
                if abs(float(a['RMSE']) - float(o['RMSE'])) > 1e-8 * (1 + float(a['RMSE'])):
                    fails.append(dict(clause='rpe_left_invariance', signature=nm, a=float(a['RMSE']), b=float(o['RMSE'])))
            z = pp.metric.rpe(stamps, ref, jit.clone(), ref)
            if float(z['Max']) > 1e-6: fails.append(dict(clause='rpe_zero_on_identical', signature='translation'))
            for et in ('translation', 'rotation', 'pose', 'radian'):
                a1 = pp.metric.ape(stamps, ref, jit.clone(), est, etype=et, align=True); b1 = pp.metric.ape(stamps, ref, jit.clone(), G @ est, etype=et, align=True); evals += 2
                if abs(float(a1['RMSE']) - float(b1['RMSE'])) > 1e-6 * (1 + float(a1['RMSE'])):
                    fails.append(dict(clause='ape_align_invariance', signature=f'rigid/{et}', a=float(a1['RMSE']), b=float(b1['RMSE'])))
            s = 10 ** rng.uniform(-0.5, 0.5)
            est_s = pp.SE3(torch.cat([s * (G @ est).translation(), (G @ est).rotation().tensor()], -1))
            for et in ('translation', 'rotation'):
                a2 = pp.metric.ape(stamps, ref, jit.clone(), est, etype=et, align=True, scale=True); b2 = pp.metric.ape(stamps, ref, jit.clone(), est_s, etype=et, align=True, scale=True); evals += 2
                if abs(float(a2['RMSE']) - float(b2['RMSE'])) > 1e-6 * (1 + float(a2['RMSE'])):
                    fails.append(dict(clause='ape_align_scale_invariance', signature=f'similarity/{et}', a=float(a2['RMSE']), b=float(b2['RMSE'])))
            for et in ('translation', 'rotation'):
                a3 = pp.metric.rpe(stamps, ref, jit.clone(), est, etype=et, align=True); b3 = pp.metric.rpe(stamps, ref, jit.clone(), G @ est, etype=et, align=True); evals += 2
                if abs(float(a3['RMSE']) - float(b3['RMSE'])) > 1e-6 * (1 + float(a3['RMSE'])):
                    fails.append(dict(clause='rpe_align_invariance', signature=f'rigid/{et}', a=float(a3['RMSE']), b=float(b3['RMSE'])))
        # float32 poses (the default dtype) with float64 EPOCH time stamps (1.3e9 s, 10 Hz): stamps are matched in float64 - identical
        # trajectories have zero error, and the aligned error of a noisy copy is that of the same data with small stamps
        if t % 3 == 0 and n >= 4:
            ep = 1311868163.0 + 0.1 * torch.arange(n, dtype=d) + (torch.rand(n, dtype=d) - 0.5) * 1e-3
            small = ep - 1311868163.0
            r32 = pp.SE3(ref.tensor().float()); e32 = pp.SE3(est.tensor().float())
            for nm_, fn_ in (('ape', lambda st_, a_, b_: pp.metric.ape(st_, a_, st_.clone(), b_, etype='translation')), ('rpe', lambda st_, a_, b_: pp.metric.rpe(st_, a_, st_.clone(), b_))):
                try:
                    z0 = fn_(ep, r32, r32); zs = fn_(ep, r32, e32); zr = fn_(small, r32, e32); evals += 3
                    if float(z0['Max']) > 1e-4:
                        fails.append(dict(clause=f'{nm_}_zero_on_identical', signature='float32 poses, float64 epoch stamps', max=float(z0['Max'])))
                    if abs(float(zs['RMSE']) - float(zr['RMSE'])) > 1e-3 * (1 + float(zr['RMSE'])):
                        fails.append(dict(clause=f'{nm_}_independent_of_the_time_origin', signature='float32 poses, float64 epoch stamps', a=float(zs['RMSE']), b=float(zr['RMSE'])))
                except Exception as e:
                    fails.append(dict(clause=f'{nm_}_raises', signature='float32 poses, float64 epoch stamps', error=f'{type(e).__name__}: {e}'[:160]))
        # planar trajectories (a ground robot: z = 0, rotations about z): the cross-covariance of the alignment has rank 2 and its SVD lands in
        # the reflection case for about half of the rigid placements of the estimate - the aligned errors must not depend on the placement
        if n >= 4:
            ang = torch.cumsum(0.2 * torch.randn(n, dtype=d), 0); xy = torch.cumsum(torch.rand(n, 2, dtype=d), 0)
            def planar(xy_, ang_):
                q = torch.stack([torch.zeros_like(ang_), torch.zeros_like(ang_), torch.sin(ang_ / 2), torch.cos(ang_ / 2)], -1)
                return pp.SE3(torch.cat([xy_, torch.zeros(len(ang_), 1, dtype=d), q], -1))
            pref = planar(xy, ang); pest = planar(xy + 0.02 * torch.randn(n, 2, dtype=d), ang + 0.01 * torch.randn(n, dtype=d))
            for trial in range(3):
                Gp = pp.randn_SE3(dtype=d)
                for et in ('translation', 'rotation'):
                    for sc_ in (False, True):
                        try:
                            a5 = pp.metric.ape(stamps, pref, stamps, pest, etype=et, align=True, scale=sc_); b5 = pp.metric.ape(stamps, pref, stamps, Gp @ pest, etype=et, align=True, scale=sc_); evals += 2
                        except Exception as e:
                            fails.append(dict(clause='ape_raises', signature=f'planar/{et}/scale={sc_}', error=f'{type(e).__name__}: {e}'[:160])); continue
                        if abs(float(a5['RMSE']) - float(b5['RMSE'])) > 1e-6 * (1 + float(a5['RMSE'])) or abs(float(a5['Max']) - float(b5['Max'])) > 1e-6 * (1 + float(a5['Max'])):
                            fails.append(dict(clause='ape_align_invariance', signature=f'planar trajectory/{et}/scale={sc_}', a=float(a5['RMSE']), b=float(b5['RMSE'])))
        # rpe with every pairing option (frame / distance association, all pairs or consecutive, pairs taken from the reference): the pairing
        # depends on the SHAPE of the trajectory only, so rpe stays invariant under left multiplication - also for a trajectory that starts
        # close to the origin (closer than delta) and is moved away from it
        if n >= 6:
            step = pp.se3(torch.tensor([0.35, 0.05, -0.02, 0.0, 0.02, 0.03], dtype=d)).Exp()
            start = pp.SE3(torch.tensor([0.3, -0.2, 0.4, 0, 0, 0, 1], dtype=d))
            walk = [start]
            for _ in range(n - 1): walk.append(walk[-1] @ step @ pp.se3(0.02 * torch.randn(6, dtype=d)).Exp())
            wref = pp.SE3(torch.stack([w.tensor() for w in walk])); west = wref @ pp.se3(0.01 * torch.randn(n, 6, dtype=d)).Exp()
            Gfar = pp.SE3(torch.cat([torch.tensor([4.0, -3.0, 2.5], dtype=d), pp.randn_SO3(dtype=d).tensor()]))
            for assoc, allp, rp in (('distance', False, False), ('distance', True, False), ('distance', False, True), ('frame', False, False), ('frame', True, False)):
                try:
                    kw = dict(associate=assoc, delta=1.0 if assoc == 'distance' else 2, all=allp, rpair=rp)
                    a4 = pp.metric.rpe(stamps, wref, stamps, west, **kw); b4 = pp.metric.rpe(stamps, wref, stamps, Gfar @ west, **kw)
                    c4 = pp.metric.rpe(stamps, Gfar @ wref, stamps, west, **kw); evals += 3
                    for nm, o in (('estimate moved', b4), ('reference moved', c4)):
                        if abs(float(a4['RMSE']) - float(o['RMSE'])) > 1e-8 * (1 + float(a4['RMSE'])) or abs(float(a4['Max']) - float(o['Max'])) > 1e-8 * (1 + float(a4['Max'])):
                            fails.append(dict(clause='rpe_left_invariance', signature=f'{nm}/associate={assoc},all={allp},rpair={rp}', a=float(a4['RMSE']), b=float(o['RMSE'])))
                except Exception as e:
                    fails.append(dict(clause='rpe_raises', signature=f'associate={assoc},all={allp},rpair={rp}', error=f'{type(e).__name__}: {e}'[:160]))
        # bspline: constant twist reproduction and equivariance with rotations
        xi = pp.randn_se3(sigma=0.3, dtype=d); T0 = pp.randn_SE3(dtype=d); m = rng.randrange(4, 9)
        poses = pp.SE3(torch.stack([(T0 @ (pp.se3(i * xi.tensor())).Exp()).tensor() for i in range(m)]))
        itv = rng.choice([0.5, 0.25, 0.2, 0.1])
        out = pp.bspline(poses, interval=itv); evals += 1
        kk = len(torch.arange(0, 1, itv))
        exp = torch.stack([(T0 @ pp.se3((1 + j * itv) * xi.tensor()).Exp()).matrix() for j in range(out.shape[0] - 1)])
        if float((out.matrix()[:-1] - exp).abs().max()) > 1e-7: fails.append(dict(clause='bspline_constant_twist', signature=f'itv={itv},m={m}', err=float((out.matrix()[:-1] - exp).abs().max())))
        Hh = pp.randn_SE3(dtype=d)
        o2 = pp.bspline(Hh @ poses, interval=itv)
        if float(((Hh @ out).matrix() - o2.matrix()).abs().max()) > 1e-8: fails.append(dict(clause='bspline_equivariance', signature=f'itv={itv}'))
        if m >= 5 and float((out.matrix()[kk] - pp.bspline(poses[1:], interval=itv).matrix()[0]).abs().max()) > 1e-8:
            fails.append(dict(clause='bspline_continuity', signature=f'itv={itv}'))
        # bspline on GENERIC poses (consecutive relative twists do not commute): the curve is continuous across the knots - the step from the
        # last sample of a segment to the first of the next is of the size of the steps inside the segments (interval 0.01)
        gp = pp.randn_SE3(6, sigma=0.8, dtype=d)
        go = pp.bspline(gp, interval=0.01).matrix(); evals += 1
        gstep = (go[1:] - go[:-1]).abs().amax((-1, -2))
        kg = 100
        knots = [j * kg - 1 for j in range(1, (go.shape[0] - 1) // kg)]           # step index from u = 0.99 of segment j-1 to u = 0 of segment j
        inner = torch.ones_like(gstep, dtype=torch.bool); inner[knots] = False
        if knots and float(gstep[knots].max()) > 3 * float(gstep[inner].max()) + 1e-9:
            fails.append(dict(clause='bspline_continuous_across_segments', signature='generic poses, interval 0.01', jump=float(gstep[knots].max()), inner_step=float(gstep[inner].max())))
        # ... and equivariant under left multiplication (generic poses)
        Hg = pp.randn_SE3(dtype=d)
        if float(((Hg @ pp.bspline(gp, interval=0.25)).matrix() - pp.bspline(Hg @ gp, interval=0.25).matrix()).abs().max()) > 1e-8:
            fails.append(dict(clause='bspline_equivariance', signature='generic poses'))
        # chspline: sample count and interpolation for float intervals
        pts = torch.randn(rng.randrange(2, 20), 3, dtype=d)
        o = pp.chspline(pts, interval=itv); evals += 1
        if o.shape[0] != (pts.shape[0] - 1) * kk + 1 or float((o[::kk] - pts).abs().max()) > 1e-9:
            fails.append(dict(clause='chspline_count_and_interpolation', signature=f'itv={itv},N={pts.shape[0]}', got=o.shape[0]))
        # chspline: a uniformly sampled straight line is reproduced to the precision of the INPUT dtype, also between the knots and for
        # intervals that float32 cannot represent (a time grid built in another precision shows up here only)
        for dt_, tol_ in ((torch.float64, 1e-12), (torch.float32, 1e-5)):
            Nl = rng.choice([2, 7, 33, 60]); itl = rng.choice([0.1, 0.3, 0.7, 0.25])
            a_ = torch.randn(1, 3, dtype=dt_); b_ = torch.randn(1, 3, dtype=dt_) * 3
            line = a_ + b_ * torch.arange(Nl, dtype=dt_).view(-1, 1)
            ol = pp.chspline(line, interval=itl); evals += 1
            g64 = torch.arange(0, 1, itl, dtype=d); kl = g64.numel()
            Tl = (torch.arange(Nl, dtype=d).view(-1, 1) + g64).view(-1)[:(Nl - 1) * kl + 1]
            refl = a_.double() + b_.double() * Tl.view(-1, 1)
            if ol.dtype != dt_ or ol.shape != refl.shape:
                fails.append(dict(clause='chspline_line_dtype_shape', signature=f'{dt_},itv={itl},N={Nl}', got=f'{ol.dtype},{tuple(ol.shape)}'))
            elif float((ol.double() - refl).abs().max()) > tol_ * (1 + float(refl.abs().max())):
                fails.append(dict(clause='chspline_straight_line_to_input_precision', signature=f'{dt_},itv={itl},N={Nl}', err=float((ol.double() - refl).abs().max())))
        if t < 2: samples.append(dict(n=n, itv=itv))
        if len(fails) > 8: break
    return dict(evaluations=evals, distinct_nontrivial=evals, rule='random trajectories of 3..200 poses with timestamp jitter below the association threshold; random constant-twist splines; each call counted',
                bound='3..200 poses (quick <= 60), intervals {0.5,0.25,0.2,0.1}', failures=fails[:8], samples=samples)


@obligation('C19.canary.loss_is_chord', functions=[f'{LOSS}:geodesic_loss'], canary=True, max_paths=64, timeout=300)
def canary(env):
    ls = env.load(LOSS); pp = env.load('pypose'); op = env.load(OPS); T = env.T
    x = env.unitquat('x', regimes=('generic',)); y = env.unitquat('y', regimes=('generic',))
    e = op.SO3_Mul.forward(x, op.SO3_Inv.forward(y))
    env.assume('generic regime', (T.linalg.norm(e[0:3], dim=-1) > env.eps(x)) & (e[3] > env.eps(x)))
    th = ls.geodesic_loss(lie(pp, 'SO3', x.reshape(1, 4)), lie(pp, 'SO3', y.reshape(1, 4)), reduction='none')
    env.eq('chordal distance instead of the angle', th.reshape(()), 2 * T.linalg.norm(e[0:3], dim=-1))


# ape / rpe with align(/scale) hand the alignment to svdstf: "ape with align is unchanged by a rigid / similarity transform of the estimate"
# rests on svdstf returning THE least-squares similarity (both determinant cases of the SVD) - its contract in c17_align.py, discharged in
# this check too.  (A planar trajectory puts the SVD into the reflection case for about half of the rigid placements of the estimate.)
from contracts import c17_align as _c17
obligation('C19.callee.svdstf', functions=['pypose.function.geometry:svdstf'], max_paths=16, no_validate=True, tol=1e-7, cex_samples=100,
           note='callee contract of ape/rpe(align=True) (same contract function as C17.svdstf)')(_c17.svdstf)
