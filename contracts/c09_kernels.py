"""C09 - kernels match closed forms; correctors preserve the robust gradient and Hessian.

Kernels: value = documented closed form on every path, rho(0) = 0, rho' >= 0 on x >= 0 (exact derivative +
sign reasoning over atom facts), defined everywhere on x >= 0, Huber C^1 at delta^2, negative input raises.
Correctors: proved for an ABSTRACT kernel: autograd returns g1 = rho'(x) > 0 and g2 = rho''(x) (any sign) -
assumed contract of torch.autograd.functional.jacobian / torch.autograd.grad on an elementwise kernel.
"""
from fractions import Fraction as Q
from pvc.registry import obligation, bounded, property_meta
from contracts.common import *

property_meta('C09', level='proof', min_obligations=40,
              trusted_base=['assumed contract of torch.autograd.functional.jacobian / autograd.grad on sum(kernel(x)): elementwise rho\'(x), rho\'\'(x)',
                            'monotonicity facts of exp/log/atan/sqrt atoms'],
              assumptions=['residual shapes traced: (1,2) and (2,1) with 2 Jacobian columns (entries fully symbolic)'],
              explanation='closed forms by normal form over sqrt/log/exp/atan atoms; corrector identities polynomial modulo sqrt relations')

KER = 'pypose.optim.kernel'
COR = 'pypose.optim.corrector'
XREG = ('generic', 'zero', 'small', 'large')


def kernel_obligation(name, make, spec, params):
    @obligation(f'C09.{name}', functions=[f'{KER}:{name}.forward', f'{KER}:{name}.__init__'], max_paths=16)
    def ob(env):
        ker = env.load(KER); T = env.T
        ps = {p: env.scalar(p, positive=(sgn > 0), regimes=('generic', 'small', 'large'))[0] * (1 if sgn > 0 else 1) for p, sgn in params.items()}
        for p, sgn in params.items():
            if sgn < 0:
                ps[p] = -env.scalar(p + '_abs', positive=True, regimes=('generic', 'small', 'large'))[0]
        k = make(ker, ps)
        x = env.scalar('x', nonneg=True, regimes=XREG)
        y = k(x)
        env.eq('value_is_documented_closed_form', y, spec(T, x, ps))
        env.safe('finite_on_nonnegative_input', y)
        z = k(x * 0)
        env.eq('zero_at_zero', z, 0)
        env.safe('finite_at_zero', z)
        xp = env.scalar('xp', positive=True, regimes=('generic', 'small', 'large'))
        d = env.jacobian(lambda v: k(v), xp)
        env.holds('nondecreasing_derivative_nonnegative', d >= 0)
        neg = -env.scalar('neg', positive=True)
        env.raises('negative_input_rejected', AssertionError, lambda: k(neg))
    return ob


kernel_obligation('PseudoHuber', lambda ker, p: ker.PseudoHuber(p['delta']),
                  lambda T, x, p: 2 * p['delta'] ** 2 * (T.sqrt(1 + x / p['delta'] ** 2) - 1), {'delta': 1})
kernel_obligation('Cauchy', lambda ker, p: ker.Cauchy(p['delta']),
                  lambda T, x, p: p['delta'] ** 2 * T.log(1 + x / p['delta'] ** 2), {'delta': 1})
kernel_obligation('SoftLOne', lambda ker, p: ker.SoftLOne(p['delta']),
                  lambda T, x, p: 2 * (p['delta'] * T.sqrt(1 / p['delta'] ** 2 + x) - 1), {'delta': 1})
kernel_obligation('Arctan', lambda ker, p: ker.Arctan(p['delta']),
                  lambda T, x, p: p['delta'] ** 2 * T.atan(x / p['delta'] ** 2), {'delta': 1})
kernel_obligation('Scale', lambda ker, p: ker.Scale(1 / (1 + p['c'])),
                  lambda T, x, p: x / (1 + p['c']), {'c': 1})


@obligation('C09.Tolerant', functions=[f'{KER}:Tolerant.forward', f'{KER}:Tolerant.__init__'], max_paths=16)
def tolerant(env):
    ker = env.load(KER); T = env.T
    import math
    a = env.scalar('a', positive=True, regimes=('generic', 'small'))[0]
    b = -env.scalar('b_abs', positive=True, regimes=('generic',))[0]
    if not env.sym:
        a, b = float(a), float(b)
    k = ker.Tolerant(a, b)
    x = env.scalar('x', nonneg=True, regimes=XREG)
    y = k(x)
    spec = b * T.log(1 + T.exp((x - a) / b)) - b * T.log(1 + T.exp(x * 0 - a / b))
    env.eq('value_is_documented_closed_form', y, spec)
    env.safe('finite_on_nonnegative_input', y)
    env.eq('zero_at_zero', k(x * 0), 0)
    xp = env.scalar('xp', positive=True, regimes=('generic', 'small', 'large'))
    d = env.jacobian(lambda v: k(v), xp)
    env.holds('nondecreasing_derivative_nonnegative', d >= 0)
    neg = -env.scalar('neg', positive=True)
    env.raises('negative_input_rejected', AssertionError, lambda: k(neg))


@obligation('C09.Huber', functions=[f'{KER}:Huber.forward', f'{KER}:Huber.__init__'], max_paths=32)
def huber(env):
    ker = env.load(KER); T = env.T
    delta = env.scalar('delta', positive=True, regimes=('generic', 'small', 'large'))[0]
    k = ker.Huber(delta)
    # x = t^2 with t >= 0, so that sqrt(x) = t and the threshold x = delta^2 is t = delta
    t = env.scalar('t', nonneg=True, regimes=('generic', 'zero', 'small', 'large'))
    x = t * t
    y = k(x)
    inner = bool((t < delta).all())
    if inner:
        env.eq('quadratic_region_identity', y, x)
    else:
        env.eq('linear_region_closed_form', y, 2 * delta * t - delta * delta)
    env.safe('finite', y)
    env.eq('zero_at_zero', k(x * 0), 0)
    # derivative w.r.t. x = (d/dt) / (2 t)
    tp = env.scalar('tp', positive=True, regimes=('generic', 'small', 'large'))
    dy_dt = env.jacobian(lambda v: k(v * v), tp)
    env.holds('nondecreasing_derivative_nonnegative', dy_dt >= 0)
    # value and slope at the threshold t = delta: the linear branch is taken there; it must agree with
    # the quadratic branch's value delta^2 and slope 1
    th = delta + t * 0
    yth = k(th * th)
    env.eq('value_continuous_at_threshold', yth, delta * delta)
    if env.sym:
        s = env.jacobian(lambda v: k(v * v), tp)     # slope in t on the path of tp
        if not bool((tp < delta).all()):
            from pvc import algebra as A, storch as st
            tv = list(tp._a.flat[0].num.vars())[0]
            slope_x = (s / (2 * tp))._a.flat[0].subs({tv: delta._a.flat[0] if hasattr(delta, '_a') else delta})
            env.eq('slope_continuous_at_threshold', st.tensor([slope_x]), 1)
    neg = -env.scalar('neg', positive=True)
    env.raises('negative_input_rejected', AssertionError, lambda: k(neg * delta * 0 + neg))


# --------------------------------------------------------------------------------------------------
# correctors with an abstract kernel
# --------------------------------------------------------------------------------------------------

class AbstractKernel:
    """rho is unknown; autograd hands back g1 = rho'(x) > 0, g2 = rho''(x) (sign: see `curv`).
    numeric twin: the same sampled g1, g2 realised by the user-defined kernel
    rho_i(z) = g1_i (z - x_i) + g2_i (z - x_i)^2 / 2  (so rho'(x_i) = g1_i, rho''(x_i) = g2_i)."""
    def __init__(self, env, n, curv):
        self.env, self.n, self.curv = env, n, curv
        T = env.T
        g1 = [[env.scalar(f'g1_{i}', positive=True, regimes=('generic', 'small', 'large'))[0]] for i in range(n)]
        g2 = []
        for i in range(n):
            if curv == '+': g2.append([env.scalar(f'g2_{i}', positive=True, regimes=('generic', 'small', 'large'))[0]])
            elif curv == '-': g2.append([-env.scalar(f'g2n_{i}', positive=True, regimes=('generic', 'small'))[0]])
            else: g2.append([env.scalar(f'g2z_{i}', regimes=('zero',))[0] * 0])
        if env.sym:
            from pvc import storch as st
            self.g1 = st.tensor(g1); self.g2 = st.tensor(g2)
            def jac_(func, x, **k):
                self.seen_at = x                  # the point the slope is taken at
                return self.g1.reshape(x.shape)
            st.set_external('autograd.functional.jacobian', jac_)
            calls = []
            def grad(outputs, inputs, create_graph=False, **k):
                calls.append(1)
                if len(calls) % 2 == 1:
                    self.seen_at = inputs
                    r = self.g1.reshape(inputs.shape); r.requires_grad = True      # create_graph=True: the slope is differentiable again
                    return (r,)
                return (self.g2.reshape(inputs.shape),)
            st.set_external('autograd.grad', grad)
        else:
            self.g1 = T.stack([T.stack(r) for r in g1]); self.g2 = T.stack([T.stack(r) for r in g2])
            self.x0 = None

    def __call__(self, x):
        self.seen_at = x if self.env.sym else x.detach().clone()        # where the kernel (and so its derivatives) is evaluated
        if self.env.sym:
            return x * 0
        if self.x0 is None or self.x0.shape != x.shape:
            self.x0 = x.detach().clone()
        dz = x - self.x0
        return self.g1.reshape(x.shape) * dz + self.g2.reshape(x.shape) * dz * dz / 2

    def grads(self, x):
        return self.g1, self.g2


def robust_sums(T, R, J, g1, g2):
    """sum_i rho'_i J_i^T R_i   and   sum_i rho'_i J_i^T J_i + 2 rho''_i J_i^T R_i R_i^T J_i"""
    n, d = R.shape
    Jb = J.reshape(n, d, J.shape[-1])
    grad = None; hess = None
    for i in range(n):
        Ji, Ri = Jb[i], R[i]
        g = g1[i, 0] * (Ji.transpose(-1, -2) @ Ri)
        JR = Ji.transpose(-1, -2) @ Ri
        h = g1[i, 0] * (Ji.transpose(-1, -2) @ Ji) + 2 * g2[i, 0] * (JR.unsqueeze(-1) @ JR.unsqueeze(-2))
        grad = g if grad is None else grad + g
        hess = h if hess is None else hess + h
    return grad, hess


def sym_matrix(env, name, n, m, **kw):
    T = env.T
    return T.stack([env.vec(f'{name}{i}', m, **kw) for i in range(n)], 0)


for (n, d) in ((1, 2), (2, 1)):
    for curv in ('+', '0', '-'):
        def mk(n=n, d=d, curv=curv):
            tag = f'n{n}d{d}_curv{ {"+": "pos", "0": "zero", "-": "neg"}[curv] }'

            @obligation(f'C09.FastTriggs.{tag}', functions=[f'{COR}:FastTriggs.forward'], max_paths=16)
            def fast(env):
                cor = env.load(COR); T = env.T
                k = AbstractKernel(env, n, curv)
                R = sym_matrix(env, 'R', n, d); J = sym_matrix(env, 'J', n * d, 2)
                c = cor.FastTriggs(k)
                R2, J2 = c(R=R, J=J)
                g1, g2 = k.grads((R * R).sum(-1, keepdim=True))
                grad, _ = robust_sums(T, R, J, g1, g2)
                env.eq('JtR_is_robust_gradient', J2.transpose(-1, -2) @ R2.reshape(-1), grad)
                env.safe('finite', R2, J2)

            @obligation(f'C09.Triggs.{tag}', functions=[f'{COR}:Triggs.forward', f'{COR}:Triggs.compute_grads'], max_paths=32)
            def triggs(env):
                cor = env.load(COR); T = env.T
                k = AbstractKernel(env, n, curv)
                R = sym_matrix(env, 'R', n, d, regimes=('generic', 'zero')); J = sym_matrix(env, 'J', n * d, 2)
                c = cor.Triggs(k)
                x = (R * R).sum(-1, keepdim=True)
                if curv == '+':
                    env.assume('all residuals non-zero (the corrected region)', x > 0)
                R2, J2 = c(R=R, J=J)
                g1, g2 = k.grads(x)
                grad, hess = robust_sums(T, R, J, g1, g2)
                env.eq('JtR_is_robust_gradient', J2.transpose(-1, -2) @ R2.reshape(-1), grad)
                if curv == '+':
                    env.eq('JtJ_is_robust_gauss_newton_hessian', J2.transpose(-1, -2) @ J2, hess)
                else:
                    c2 = cor.FastTriggs(k)
                    R3, J3 = c2(R=R, J=J)
                    env.eq('coincides_with_FastTriggs_R', R2, R3)
                    env.eq('coincides_with_FastTriggs_J', J2, J3)
                env.safe('finite', R2, J2)
        mk()


for _cn in ('FastTriggs', 'Triggs'):
    def mk(cname=_cn):
        @obligation(f'C09.{cname}.rank3_residual', functions=[f'{COR}:{cname}.forward'], max_paths=32, timeout=300)
        def rank3(env):
            """a residual with two batch axes, shape (2, 2, 2): item (b1, b2) is weighted with the slope of ITS OWN squared norm, in R' and in the
            matching rows of J' (row-major flattening), so J'^T R' is still the robust gradient"""
            cor = env.load(COR); T = env.T
            k = AbstractKernel(env, 4, '0' if cname == 'FastTriggs' else '-')
            R2d = sym_matrix(env, 'R', 4, 2); J = sym_matrix(env, 'J', 8, 2)
            R = R2d.reshape(2, 2, 2)
            c = getattr(cor, cname)(k)
            Rc, Jc = c(R=R, J=J)
            g1, g2 = k.grads((R2d * R2d).sum(-1, keepdim=True))
            grad, _ = robust_sums(T, R2d, J, g1, g2)
            env.eq('JtR_is_robust_gradient', Jc.transpose(-1, -2) @ Rc.reshape(-1), grad)
            env.eq('each residual item is scaled by the square root of its own slope', Rc.reshape(4, 2) * Rc.reshape(4, 2), g1 * R2d * R2d)
            env.safe('finite', Rc, Jc)
    mk()


for _cn in ('FastTriggs', 'Triggs'):
    def mk(cname=_cn):
        @obligation(f'C09.{cname}.evaluation_point', functions=[f'{COR}:{cname}.forward'] + ([f'{COR}:Triggs.compute_grads'] if cname == 'Triggs' else []), max_paths=16)
        def evalpoint(env):
            """the kernel and its derivatives are evaluated AT x_i = |R_i|^2 - the very argument the loss applies the kernel to - for every
            residual, however small (the abstract-kernel contracts above are silent about WHERE rho' is taken)"""
            cor = env.load(COR); T = env.T
            k = AbstractKernel(env, 1, '-')
            R = sym_matrix(env, 'R', 1, 2, regimes=('generic', 'tiny', 'zero')); J = sym_matrix(env, 'J', 2, 2)
            getattr(cor, cname)(k)(R=R, J=J)
            env.eq('kernel derivatives are taken at the squared norm of the residual', k.seen_at.reshape(-1), (R * R).sum(-1).reshape(-1))
    mk()


@obligation('C09.Triggs.zero_residual_coincides', functions=[f'{COR}:Triggs.forward'], max_paths=16)
def triggs_zero(env):
    """rho'' > 0 but R_i = 0: coincides with FastTriggs"""
    cor = env.load(COR); T = env.T
    k = AbstractKernel(env, 1, '+')
    R = env.const([[0, 0]]) if not env.sym else env.const([[0, 0]]) * Q(1)
    if not env.sym: R = env.const([[0.0, 0.0]])
    J = sym_matrix(env, 'J', 2, 2)
    R2, J2 = cor.Triggs(k)(R=R, J=J)
    R3, J3 = cor.FastTriggs(k)(R=R, J=J)
    env.eq('coincides_with_FastTriggs_R', R2, R3)
    env.eq('coincides_with_FastTriggs_J', J2, J3)
    env.safe('finite', R2, J2)


def exact_scalar_jacobian_external(env):
    """model of torch.autograd.functional.jacobian(func, x) for a scalar-valued func: evaluate func on fresh symbols, differentiate
    exactly, substitute x back (the contract of the external: it returns d func / d x at x)"""
    from pvc import storch as st, algebra as A, atoms as AT
    import numpy as np
    def jac(func, x, **k):
        xa = st._T(x)._a
        zs = np.empty(xa.shape, dtype=object); vids = {}
        for i in np.ndindex(xa.shape):
            z = A.CTX.sym(f'_jz{len(A.CTX.kind)}', aux=True); zs[i] = z
            (m, cc), = z.num.t.items(); vids[i] = m[0][0]
            A.CTX.add_fact(z >= 0)            # kernels are evaluated at squared norms
        y = st._T(func(st._mk(zs, 'f')))._a.reshape(-1)[0]
        back = {vids[i]: A.Frac.of(xa[i]) for i in vids}
        out = np.empty(xa.shape, dtype=object)
        for i in np.ndindex(xa.shape): out[i] = AT.diff(A.Frac.of(y), vids[i]).subs(back)
        return st._mk(out, 'f')
    st.set_external('autograd.functional.jacobian', jac)


@obligation('C09.selection', functions=['pypose.optim.optimizer:RobustModel.loss', 'pypose.optim.optimizer:GaussNewton.__init__',
                                        'pypose.optim.optimizer:LevenbergMarquardt.__init__'], max_paths=16)
def selection(env):
    """per-residual kernel / corrector selection: loss = sum_k sum_i kernel_k(|r_k,i|^2); default corrector
    of a kernel is FastTriggs(kernel); None kernels are Trivial"""
    optm = env.load('pypose.optim.optimizer'); ker = env.load(KER); cor = env.load(COR); T = env.T
    nn = env.T.nn
    r1 = sym_matrix(env, 'r', 2, 2); r2 = sym_matrix(env, 's', 1, 2)
    class M(nn.Module):
        def __init__(self): super().__init__(); self.w = nn.Parameter(T.zeros(1))       # torch optimizers refuse an empty parameter list
        def forward(self, inp): return r1, r2
    class M1(nn.Module):
        def __init__(self): super().__init__(); self.w = nn.Parameter(T.zeros(1))
        def forward(self, inp): return r1
    k1, k2 = ker.Scale(Q(1, 2) if env.sym else 0.5), ker.Scale(Q(1, 4) if env.sym else 0.25)
    rm = optm.RobustModel(M(), [k1, k2])
    x1, x2 = (r1 * r1).sum(-1), (r2 * r2).sum(-1)
    half, quarter = (Q(1, 2), Q(1, 4)) if env.sym else (0.5, 0.25)
    env.eq('loss_uses_kernel_k_for_residual_k', rm.loss(None, None), (half * x1).sum() + (quarter * x2).sum())
    rm1 = optm.RobustModel(M(), [k1])
    env.eq('single_kernel_applies_to_every_residual', rm1.loss(None, None), (half * x1).sum() + (half * x2).sum())
    # a residual without batch axes, shape (d,): ONE residual item of dimension d (as the correctors treat it), not d scalar items
    rv = env.vec('rv', 3)
    class Mv(nn.Module):
        def __init__(self): super().__init__(); self.w = nn.Parameter(T.zeros(1))
        def forward(self, inp): return rv
    kq = ker.Cauchy(Q(1) if env.sym else 1.0)
    env.eq('loss_of_a_rank_1_residual_is_kernel_of_its_squared_norm', optm.RobustModel(Mv(), [kq]).loss(None, None), kq((rv * rv).sum(-1, keepdim=True)).sum())
    rm0 = optm.RobustModel(M1(), None)
    env.eq('no_kernel_is_plain_sum_of_squares', rm0.loss(None, None), x1.sum())
    for cls in (optm.GaussNewton, optm.LevenbergMarquardt):
        o = cls(M(), kernel=[k1, None])
        # behavioural, not structural: whatever object is selected must act on (R, J) exactly as FastTriggs(kernel_k) does
        env.holds(f'{cls.__name__}_one_default_corrector_per_kernel', len(o.corrector) == 2)
        if env.sym: exact_scalar_jacobian_external(env)
        for k_, kern in enumerate((k1, optm.Trivial())):
            Rk = sym_matrix(env, f'R{cls.__name__}{k_}_', 2, 2); Jk = sym_matrix(env, f'J{cls.__name__}{k_}_', 4, 2)
            got = o.corrector[k_](R=Rk, J=Jk); ref = cor.FastTriggs(kern)(R=Rk, J=Jk)
            env.eq(f'{cls.__name__}_default_corrector_{k_}_acts_as_FastTriggs_of_its_kernel: R', got[0], ref[0])
            env.eq(f'{cls.__name__}_default_corrector_{k_}_acts_as_FastTriggs_of_its_kernel: J', got[1], ref[1])
        env.holds(f'{cls.__name__}_None_kernel_is_Trivial', isinstance(o.model.kernel[1], optm.Trivial))
        o2 = cls(M(), kernel=k1, corrector=cor.Triggs(k1))
        env.holds(f'{cls.__name__}_explicit_corrector_kept', len(o2.corrector) == 1 and isinstance(o2.corrector[0], cor.Triggs))
        o3 = cls(M())
        env.holds(f'{cls.__name__}_no_kernel_no_corrector_is_Trivial', isinstance(o3.corrector[0], optm.Trivial))


# where the selected correctors are USED: the step functions apply corrector k to residual k, and a single corrector (one kernel for a
# model with several outputs) to every residual - the step contract of c07_step.py, discharged in this check too
from contracts import c07_step as _c07
for (_cls, _single), _fn in _c07.CORRECTOR_CONTRACTS.items():
    obligation(f'C09.step.corrector_per_residual.{_cls}' + ('.single' if _single else ''), functions=[f'pypose.optim.optimizer:{_cls}.step'], max_paths=16,
               note='same contract function as C07.corrector_before_weight.*')(_fn)


@obligation('C09.canary.hessian_without_curvature_term', functions=[f'{COR}:Triggs.forward'], canary=True, max_paths=16)
def canary(env):
    cor = env.load(COR); T = env.T
    k = AbstractKernel(env, 1, '+')
    R = sym_matrix(env, 'R', 1, 2); J = sym_matrix(env, 'J', 2, 2)
    R2, J2 = cor.Triggs(k)(R=R, J=J)
    g1, g2 = k.grads((R * R).sum(-1, keepdim=True))
    grad, hess = robust_sums(T, R, J, g1, g2 * 0)
    env.eq('JtJ_without_curvature', J2.transpose(-1, -2) @ J2, hess)


@bounded('C09.correctors_real_kernels', functions=[f'{COR}:FastTriggs.forward', f'{COR}:Triggs.forward', f'{KER}:*.forward'])
def real_kernels(rng, tier):
    """real code, real autograd: every kernel x {FastTriggs, Triggs}, residuals of shape (n, d), d in 1..6, INCLUDING zero residual rows and rows
    exactly at the Huber threshold: J'^T R' is finite and equals sum_i rho'(|R_i|^2) J_i^T R_i with rho' from the documented closed forms"""
    import torch, math, pypose as pp
    d64 = torch.float64
    N = 8 if tier == 'quick' else 60
    fails = []; evals = 0; samples = []
    g = torch.Generator().manual_seed(rng.randrange(1 << 30))
    def slopes(name, p, x):
        if name == 'Huber': return torch.where(x.sqrt() < p, torch.ones_like(x), p / x.sqrt().clamp(min=1e-300))
        if name == 'PseudoHuber': return 1 / (x / p ** 2 + 1).sqrt()
        if name == 'Cauchy': return 1 / (x / p ** 2 + 1)
        if name == 'SoftLOne': return p / (1 / p ** 2 + x).sqrt()
        if name == 'Arctan': return 1 / (1 + (x / p ** 2) ** 2)
        if name == 'Tolerant': a, b = p; e = ((x - a) / b).exp(); return e / (1 + e)
        if name == 'Scale': return torch.full_like(x, p)
    for t in range(N):
        n, dd, k = rng.randrange(2, 6), rng.randrange(1, 7), rng.randrange(1, 4)
        for name in ('Huber', 'PseudoHuber', 'Cauchy', 'SoftLOne', 'Arctan', 'Tolerant', 'Scale'):
            p = (rng.uniform(0.5, 2.0), -rng.uniform(0.5, 2.0)) if name == 'Tolerant' else (rng.uniform(0.3, 1.0) if name == 'Scale' else rng.uniform(0.3, 3.0))
            ker = getattr(pp.optim.kernel, name)(*p) if name == 'Tolerant' else getattr(pp.optim.kernel, name)(p)
            R = torch.randn(n, dd, dtype=d64, generator=g)
            R[0] = 0.0                                            # a zero residual row
            if name == 'Huber':
                R[1] = R[1] / R[1].norm() * p                     # exactly at the threshold
            J = torch.randn(n * dd, k, dtype=d64, generator=g)
            x = (R * R).sum(-1)
            g1 = slopes(name, p, x)
            ref = (J.view(n, dd, k) * (g1[:, None] * R)[..., None]).sum((0, 1))
            for cname in ('FastTriggs', 'Triggs'):
                try:
                    R2, J2 = getattr(pp.optim.corrector, cname)(ker)(R=R.clone(), J=J.clone())
                except Exception as e:
                    fails.append(dict(clause='corrector_raises', signature=f'{cname}/{name}', error=f'{type(e).__name__}: {e}'[:160])); continue
                evals += 1
                out = J2.T @ R2.reshape(-1)
                if not bool(torch.isfinite(R2).all() and torch.isfinite(J2).all()):
                    fails.append(dict(clause='corrected_values_finite', signature=f'{cname}/{name}', note='zero residual row or threshold row')); continue
                if not torch.allclose(out, ref, rtol=1e-7, atol=1e-9):
                    fails.append(dict(clause='JtR_is_robust_gradient', signature=f'{cname}/{name}', err=float((out - ref).abs().max())))
        if t < 1: samples.append(dict(n=n, d=dd, k=k))
    # SATURATED kernels: a residual so large that the kernel is flat to working precision (rho' = 0 and rho'' = +-0 from autograd - Tolerant beyond
    # its exponential, Arctan far out, a user kernel with a flat tail) contributes NOTHING to the gradient; both correctors stay finite and agree
    class Tukey(torch.nn.Module):
        def __init__(self, c): super().__init__(); self.c2 = c * c
        def forward(self, x):
            assert torch.all(x >= 0)
            z = (1 - (x / self.c2).clamp(max=1.0)) ** 3
            return self.c2 / 3 * (1 - z)
    for dt_ in (torch.float32, torch.float64):
        big = 30.0 if dt_ == torch.float32 else 80.0
        for kname, ker in (('Tolerant', pp.optim.kernel.Tolerant()), ('Tolerant(2,-0.5)', pp.optim.kernel.Tolerant(2.0, -0.5)), ('user kernel with a flat tail', Tukey(1.5))):
            Rs = torch.tensor([[0.3, -0.2], [big, big * 0.9], [0.1, 0.4]], dtype=dt_); Js = torch.randn(6, 3, dtype=torch.float64, generator=g).to(dt_)
            xs_ = (Rs * Rs).sum(-1, keepdim=True).clone().requires_grad_(True)
            g1s = torch.autograd.grad(ker(xs_).sum(), xs_)[0].detach().reshape(-1)
            refs = (Js.view(3, 2, 3) * (g1s[:, None] * Rs)[..., None]).sum((0, 1))
            for cname in ('FastTriggs', 'Triggs'):
                try:
                    R2, J2 = getattr(pp.optim.corrector, cname)(ker)(R=Rs.clone(), J=Js.clone()); evals += 1
                except Exception as e:
                    fails.append(dict(clause='corrector_raises', signature=f'{cname}/{kname}/saturated', error=f'{type(e).__name__}: {e}'[:160])); continue
                outs = J2.T @ R2.reshape(-1)
                if not bool(torch.isfinite(R2).all() and torch.isfinite(J2).all()):
                    fails.append(dict(clause='corrected_values_finite', signature=f'{cname}/{kname}/{str(dt_).split(".")[-1]}', note='a residual on the saturated part of the kernel'))
                elif not torch.allclose(outs, refs, rtol=1e-4 if dt_ == torch.float32 else 1e-9, atol=1e-5 if dt_ == torch.float32 else 1e-12):
                    fails.append(dict(clause='JtR_is_robust_gradient', signature=f'{cname}/{kname}/saturated/{str(dt_).split(".")[-1]}', err=float((outs - refs).abs().max())))
    # closed forms to float64 round-off for parameters that float32 cannot represent (a constant of the kernel kept in the default dtype shows
    # here only): value, zero at zero, and the slope FastTriggs uses
    import math as _m
    closed = {'Huber': lambda p, x: x if _m.sqrt(x) < p else 2 * p * _m.sqrt(x) - p * p, 'PseudoHuber': lambda p, x: 2 * p * p * (_m.sqrt(x / (p * p) + 1) - 1),
              'Cauchy': lambda p, x: p * p * _m.log(x / (p * p) + 1), 'SoftLOne': lambda p, x: 2 * (p * _m.sqrt(1 / (p * p) + x) - 1),
              'Arctan': lambda p, x: p * p * _m.atan(x / (p * p)), 'Scale': lambda p, x: p * x}
    for name, fn in closed.items():
        for p in (0.3, 0.7, 1.0 / 3.0, 0.9):
            ker = getattr(pp.optim.kernel, name)(p)
            for xv in (0.0, 1e-3, 0.37, 2.5, 40.0):
                got = float(ker(torch.tensor([xv], dtype=d64))[0]); want = fn(p, xv); evals += 1
                if abs(got - want) > 1e-13 * (1 + abs(want)) + (0 if xv else 1e-15):
                    fails.append(dict(clause='kernel_closed_form_float64', signature=f'{name}', delta=p, x=xv, got=got, want=want))
    # "raises on negative input" in float arithmetic: a negative input however small - also one that an intermediate like x / delta^2 + 1
    # would round away - is rejected, by every kernel, in both dtypes, alone or next to valid entries
    for name in ('Huber', 'PseudoHuber', 'Cauchy', 'SoftLOne', 'Arctan', 'Tolerant', 'Scale'):
        for dt_, tiny_ in ((torch.float64, (-1e-20, -1e-30, -1e-300)), (torch.float32, (-1e-10, -1e-20, -1e-37))):
            for delta in (1.0, 100.0, 0.01):
                try:
                    ker = pp.optim.kernel.Tolerant(delta, -delta) if name == 'Tolerant' else getattr(pp.optim.kernel, name)(delta)
                except AssertionError:
                    continue            # a parameter value this kernel does not admit (Scale: delta in (0, 1])
                for v in tiny_:
                    for x_ in (torch.tensor([v], dtype=dt_), torch.tensor([1.0, v, 2.0], dtype=dt_)):
                        evals += 1
                        try:
                            ker(x_)
                            fails.append(dict(clause='negative_input_rejected_float', signature=f'{name}/{str(dt_).split(".")[-1]}', delta=delta, value=v))
                        except AssertionError:
                            pass
                        except Exception as e:
                            fails.append(dict(clause='negative_input_rejected_float', signature=f'{name}/{str(dt_).split(".")[-1]}', delta=delta, value=v, error=f'{type(e).__name__}: {e}'[:100]))
    uniq = {}
    for f in fails: uniq.setdefault((f['clause'], f['signature']), f)
    return dict(evaluations=evals, distinct_nontrivial=evals, rule='random residuals with one exactly-zero row (and one row exactly at the Huber threshold), 7 kernels x 2 correctors; all distinct',
                bound='n in 2..5, d in 1..6, k in 1..3', failures=list(uniq.values())[:8], samples=samples)
