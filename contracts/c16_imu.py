"""C16 - IMU preintegration equals the documented recursion and is chunking-invariant.

F = 1, 2 frames, batch 1, symbolic dt > 0, gyro, acc, initial state; so3 Exp BY CONTRACT (C01): the rotation
increments Exp(w_k dt_k) are abstract unit quaternions; cumprod by its own contract (C12) but executed for real.
Spec (property statement): dR <- dR Exp(w dt), dv <- dv + dR a dt, dp <- dp + dv dt + 1/2 dR a dt^2, a = acc with
gravity removed using the supplied (or integrated) rotation, composed with the initial state.
"""
from fractions import Fraction as Q
from pvc.registry import obligation, bounded, property_meta
from contracts.common import *

property_meta('C16', level='proof', min_obligations=10,
              trusted_base=['C01 (so3 Exp returns a unit quaternion), C03 (group laws), C12 (cumprod is the ordered fold)',
                            'covariance PSD: sum of congruences A (M diag(c) M^T) A^T with c >= 0 is PSD (linear algebra)'],
              assumptions=['frame counts 1 and 2 symbolically; every frame count 1..200 and random chunkings: bounded stand-in vs a sequential reference'],
              explanation='outputs of the real integrator as polynomial identities in abstract rotation increments')

IMU = 'pypose.module.imu_preintegrator'


def setup(env, F, known_rot):
    pp = env.load('pypose'); T = env.T; lt = env.load(LT)
    drs = [env.unitquat(f'dr{k}', regimes=('generic', 'identity')) for k in range(F)]
    calls = []
    class ExpStub:
        @staticmethod
        def apply(x):
            n = x.reshape(-1, 3).shape[0]
            i0 = len(calls); calls.append(n)
            done = sum(calls[:-1])
            return T.stack([drs[(done + j) % F] for j in range(n)], 0).reshape(tuple(x.shape[:-1]) + (4,))
    env.stub(lt, 'so3_Exp', ExpStub)
    dt = [env.scalar(f'dt{k}', positive=True, regimes=('generic', 'small'))[0] for k in range(F)]
    gyro = [env.vec(f'w{k}', 3) for k in range(F)]
    acc = [env.vec(f'a{k}', 3) for k in range(F)]
    R0 = env.unitquat('R0', regimes=('generic', 'identity')); p0 = env.vec('p0', 3); v0 = env.vec('v0', 3)
    rots = [env.unitquat(f'rot{k}', regimes=('generic',)) for k in range(F)] if known_rot else None
    g = env.scalar('g', regimes=('generic', 'zero'))[0]
    return pp, drs, dt, gyro, acc, R0, p0, v0, rots, g, calls


def spec(env, op, F, drs, dt, acc, R0, p0, v0, rots, g):
    T = env.T
    mul, act, inv = op.SO3_Mul.forward, op.SO3_Act.forward, op.SO3_Inv.forward
    I = R0 * 0; I = T.cat([I[0:3], I[3:4] + 1], -1)
    grav = T.stack([g * 0, g * 0, g])
    dR, dv, dp, t = I, p0 * 0, p0 * 0, dt[0] * 0
    out = []
    for k in range(F):
        dRn = mul(dR, drs[k])
        Rused = rots[k] if rots is not None else mul(R0, dRn)
        a = acc[k] - act(inv(Rused), grav)
        dpn = dp + dv * dt[k] + act(dR, a) * dt[k] * dt[k] / 2
        dvn = dv + act(dR, a) * dt[k]
        dR, dv, dp, t = dRn, dvn, dpn, t + dt[k]
        out.append(dict(rot=mul(R0, dR), vel=v0 + act(R0, dv), pos=p0 + act(R0, dp) + v0 * t))
    return out


def make_integrator(env, pp, R0, p0, v0, g, reset, tag=''):
    T = env.T
    imu = env.load(IMU)
    cov3 = T.stack([env.vec('gyro_cov' + tag, 3)], 0); cova = T.stack([env.vec('acc_cov' + tag, 3)], 0)
    itg = imu.IMUPreintegrator(pos=p0, rot=lie(pp, 'SO3', R0), vel=v0, gravity=g, gyro_cov=cov3, acc_cov=cova, prop_cov=False, reset=reset)
    return itg


for F in (1, 2):
    for known in (False, True):
        def mk(F=F, known=known):
            @obligation(f'C16.recursion.F{F}.{"known_rot" if known else "integrated_rot"}', functions=[f'{IMU}:IMUPreintegrator.forward', f'{IMU}:IMUPreintegrator.integrate',
                        f'{IMU}:IMUPreintegrator.predict', f'{IMU}:IMUPreintegrator._check', f'{IMU}:IMUPreintegrator.__init__'], timeout=300, max_paths=8)
            def ob(env):
                op = env.load(OPS); T = env.T
                pp, drs, dt, gyro, acc, R0, p0, v0, rots, g, calls = setup(env, F, known)
                itg = make_integrator(env, pp, R0, p0, v0, g, reset=True)
                DT = T.stack([d.reshape(1) for d in dt], 0).reshape(1, F, 1)
                G = T.stack(gyro, 0).reshape(1, F, 3); Ac = T.stack(acc, 0).reshape(1, F, 3)
                Rk = lie(pp, 'SO3', T.stack(rots, 0).reshape(1, F, 4)) if known else None
                out = itg(DT, G, Ac, rot=Rk)
                ref = spec(env, op, F, drs, dt, acc, R0, p0, v0, rots, g)
                for k in range(F):
                    env.eq(f'frame {k + 1}: rotation is R0 dR_k', raw(out['rot'])[0, k], ref[k]['rot'])
                    env.eq(f'frame {k + 1}: velocity is v0 + R0 dv_k', out['vel'][0, k], ref[k]['vel'])
                    env.eq(f'frame {k + 1}: position is p0 + R0 dp_k + v0 t_k', out['pos'][0, k], ref[k]['pos'])
                env.holds('rotation output is an SO3 LieTensor', out['rot'].ltype is pp.SO3_type)
                # an explicit init_state overrides the state stored in the module - everywhere: in the composition with the integrated
                # increments AND in the gravity compensation of the integration itself
                R1 = env.unitquat('R1', regimes=('generic',))
                other = make_integrator(env, pp, R1, p0 + 1, v0 * 2, g, reset=True, tag='_b')
                out2 = other(DT, G, Ac, rot=Rk, init_state={'pos': itg.pos, 'rot': itg.rot, 'vel': itg.vel})
                for k in range(F):
                    env.eq(f'explicit init_state, frame {k + 1}: rotation', raw(out2['rot'])[0, k], ref[k]['rot'])
                    env.eq(f'explicit init_state, frame {k + 1}: velocity', out2['vel'][0, k], ref[k]['vel'])
                    env.eq(f'explicit init_state, frame {k + 1}: position', out2['pos'][0, k], ref[k]['pos'])
        mk()


for known_ in (False, True):
    def mk(known=known_):
        @obligation('C16.chunking' + ('.known_rot' if known else ''), functions=[f'{IMU}:IMUPreintegrator.forward'], timeout=300, max_paths=8)
        def chunk(env):
            """the same 2-frame stream in one call or in two calls with reset=False gives the same states (with and without a supplied rotation)"""
            op = env.load(OPS); T = env.T
            pp, drs, dt, gyro, acc, R0, p0, v0, rots, g, calls = setup(env, 2, known)
            DT = T.stack([d.reshape(1) for d in dt], 0).reshape(1, 2, 1)
            G = T.stack(gyro, 0).reshape(1, 2, 3); Ac = T.stack(acc, 0).reshape(1, 2, 3)
            Rk = (lambda i, j: lie(pp, 'SO3', T.stack(rots[i:j], 0).reshape(1, j - i, 4))) if known else (lambda i, j: None)
            one = make_integrator(env, pp, R0, p0, v0, g, reset=True)(DT, G, Ac, rot=Rk(0, 2))
            del calls[:]
            itg = make_integrator(env, pp, R0, p0, v0, g, reset=False)
            # reset=False requires prop_cov=True; the covariance propagation is replaced by a recorder (its structure is checked separately)
            imu = env.load(IMU)
            env.stub(imu.IMUPreintegrator, 'propagate_cov', lambda self=None, cov_input=None, init_cov=None, gyro_cov=None, acc_cov=None: {'cov': init_cov, 'Rij': cov_input['Rij'][..., -1:, :]})
            a = itg(DT[:, 0:1], G[:, 0:1], Ac[:, 0:1], rot=Rk(0, 1)); b = itg(DT[:, 1:2], G[:, 1:2], Ac[:, 1:2], rot=Rk(1, 2))
            for key in ('pos', 'vel'):
                env.eq(f'{key}: first chunk equals frame 1 of the single call', a[key][0, 0], one[key][0, 0])
                env.eq(f'{key}: second chunk continues to frame 2 of the single call', b[key][0, 0], one[key][0, 1])
            env.eq('rot: second chunk continues to frame 2 of the single call', raw(b['rot'])[0, 0], raw(one['rot'])[0, 1])
    mk()


@obligation('C16.propagate_cov.one_frame', functions=[f'{IMU}:IMUPreintegrator.propagate_cov'], timeout=300, max_paths=8,
            note='rotation inputs abstract: Rk.matrix(), Rk.Jr(), Rij.matrix() are arbitrary 3x3 matrices (the congruence structure does not depend on them)')
def cov_one(env):
    """one frame, arbitrary symmetric prior covariance C0:  C1 = A C0 A^T + (Bg Cg Bg^T + Ba Ca Ba^T) / dt  with the documented A, Bg, Ba -
    a congruence of the prior plus a Gram term, hence symmetric (and PSD for PSD C0 and non-negative sensor covariances)"""
    imu = env.load(IMU); T = env.T
    def M3(name): return T.stack([env.vec(f'{name}{i}', 3, regimes=('generic',)) for i in range(3)], 0)
    class Rot:
        def __init__(self, m, jr=None): self.m, self.jr = m, jr
        def matrix(self): return self.m.reshape(1, 1, 3, 3)
        def Jr(self): return self.jr.reshape(1, 1, 3, 3)
        def __getitem__(self, idx): return self
    Rk, Jr_, Rij, Ha = M3('Rk'), M3('Jr'), M3('Rij'), M3('Ha')
    dt = env.scalar('dt', positive=True, regimes=('generic',))[0]
    L0 = T.stack([env.vec(f'c{i}_', 9, regimes=('generic',)) for i in range(9)], 0)
    C0 = L0 + L0.transpose(-1, -2)                       # arbitrary symmetric prior
    cg, ca = env.vec('gyro_cov', 3, regimes=('generic',)), env.vec('acc_cov', 3, regimes=('generic',))
    out = imu.IMUPreintegrator.propagate_cov(dict(dt=dt.reshape(1, 1, 1), Rk=Rot(Rk, Jr_), Rij=Rot(Rij), Ha=Ha.reshape(1, 1, 3, 3)),
                                             C0.reshape(1, 9, 9), cg.reshape(1, 3), ca.reshape(1, 3))
    C1 = out['cov'][0]
    Z = T.zeros(3, 3) if env.sym else T.zeros(3, 3, dtype=C1.dtype)
    I3 = T.eye(3) if env.sym else T.eye(3, dtype=C1.dtype)
    A_ = T.cat([T.cat([Rk.transpose(-1, -2), Z, Z], 1), T.cat([-(Rij @ Ha) * dt, I3, Z], 1), T.cat([-(Rij @ Ha) * dt * dt / 2, I3 * dt, I3], 1)], 0)
    Bg = T.cat([Jr_ * dt, Z, Z], 0); Ba = T.cat([Z, Rij * dt, Rij * dt * dt / 2], 0)
    ref = A_ @ C0 @ A_.transpose(-1, -2) + (Bg @ T.diag(cg) @ Bg.transpose(-1, -2) + Ba @ T.diag(ca) @ Ba.transpose(-1, -2)) / dt
    env.eq('C1 = A C0 A^T + (Bg Cg Bg^T + Ba Ca Ba^T) / dt', C1, ref)
    env.eq('C1 is symmetric for every symmetric prior', C1, C1.transpose(-1, -2))


@obligation('C16.ranks', functions=[f'{IMU}:IMUPreintegrator.forward', f'{IMU}:IMUPreintegrator._check'], timeout=300, max_paths=8)
def ranks(env):
    """input ranks (H), (F,H), (B,F,H) are equivalent"""
    op = env.load(OPS); T = env.T
    pp, drs, dt, gyro, acc, R0, p0, v0, rots, g, calls = setup(env, 1, False)
    outs = []
    for shape in ((), (1,), (1, 1)):
        del calls[:]
        itg = make_integrator(env, pp, R0, p0, v0, g, reset=True)
        outs.append(itg(dt[0].reshape(shape + (1,)), gyro[0].reshape(shape + (3,)), acc[0].reshape(shape + (3,))))
    for key in ('pos', 'vel'):
        env.eq(f'{key}: rank 1 equals rank 3', outs[0][key], outs[2][key])
        env.eq(f'{key}: rank 2 equals rank 3', outs[1][key], outs[2][key])
    env.eq('rot: rank 1 equals rank 3', raw(outs[0]['rot']), raw(outs[2]['rot']))


def make_integrator(env, pp, R0, p0, v0, g, reset, tag=''):
    T = env.T
    imu = env.load(IMU)
    cov3 = T.stack([env.vec('gyro_cov' + tag, 3)], 0); cova = T.stack([env.vec('acc_cov' + tag, 3)], 0)
    return imu.IMUPreintegrator(pos=p0, rot=lie(pp, 'SO3', R0), vel=v0, gravity=g, gyro_cov=cov3, acc_cov=cova, prop_cov=not reset or False, reset=reset) \
        if reset else _nr(imu, pp, T, env, p0, R0, v0, g, cov3, cova)


def _nr(imu, pp, T, env, p0, R0, v0, g, cov3, cova):
    itg = imu.IMUPreintegrator(pos=p0, rot=lie(pp, 'SO3', R0), vel=v0, gravity=g, gyro_cov=cov3, acc_cov=cova, prop_cov=True, reset=False)
    return itg


@bounded('C16.sequential_reference', functions=[f'{IMU}:IMUPreintegrator.forward', f'{IMU}:IMUPreintegrator.propagate_cov'])
def seqref(rng, tier):
    """real code vs a sequential reference: every frame count 1..N, random chunkings, both dtypes; covariance symmetric PSD"""
    import torch, pypose as pp
    N = 40 if tier == 'quick' else 200
    fails = []; samples = []; evals = 0
    g = torch.Generator().manual_seed(rng.randrange(1 << 30))
    for F in range(1, N + 1):
        dtype = torch.float64 if F % 2 else torch.float32
        tol = 1e-9 if dtype == torch.float64 else 2e-3
        B = rng.randrange(1, 4)
        dt = 10 ** (-4 + 4 * torch.rand(B, F, 1, generator=g)).to(dtype)
        dt = dt.clamp(max=0.05)
        gyro = torch.randn(B, F, 3, generator=g).to(dtype); acc = torch.randn(B, F, 3, generator=g).to(dtype)
        if F % 4 == 1 and F <= 61:       # fast rotation (float64 runs): dt up to 1 s, several rad/s on every axis - per-frame increments beyond pi
            dt = (0.3 + 0.7 * torch.rand(B, F, 1, generator=g)).to(dtype); gyro = gyro * 4
        R0 = pp.randn_SO3(B, 1, dtype=dtype); p0 = torch.randn(B, 1, 3, generator=g).to(dtype); v0 = torch.randn(B, 1, 3, generator=g).to(dtype)
        grav = rng.choice([9.81007, 0.0])
        try:
            itg1 = pp.module.IMUPreintegrator(p0, R0, v0, gravity=grav, reset=True).to(dtype)
            one = itg1(dt, gyro, acc)
            grav_used = float(itg1.gravity[2])      # the module stores gravity in its own dtype
        except Exception as e:
            fails.append(dict(clause='imu_raises', signature=f'F={F}', error=f'{type(e).__name__}: {e}'[:160])); continue
        evals += 1
        # sequential reference in float64
        d = torch.float64
        gv = torch.tensor([0, 0, grav_used], dtype=d)
        dR = pp.identity_SO3(B, dtype=d); dv = torch.zeros(B, 3, dtype=d); dp = torch.zeros(B, 3, dtype=d); t = torch.zeros(B, 1, dtype=d)
        R0d = pp.SO3(R0.tensor().to(d))[:, 0]
        err = 0.0
        for k in range(F):
            h = dt[:, k].to(d)
            dRn = dR @ pp.so3(gyro[:, k].to(d) * h).Exp()
            a = acc[:, k].to(d) - (R0d @ dRn).Inv() @ gv
            dp = dp + dv * h + (dR @ a) * h * h / 2
            dv = dv + (dR @ a) * h
            dR = dRn; t = t + h
            pos = p0[:, 0].to(d) + R0d @ dp + v0[:, 0].to(d) * t
            err = max(err, float((one['pos'][:, k].to(d) - pos).abs().max()) / (1 + float(pos.abs().max())))
        if err > tol: fails.append(dict(clause='imu_matches_sequential_recursion', signature=f'F={F},{dtype}', err=err))
        cov = one['cov'].to(d)
        sym = float((cov - cov.mT).abs().max()) / (1e-300 + float(cov.abs().max()))
        mineig = float(torch.linalg.eigvalsh((cov + cov.mT) / 2).min()) / (1e-300 + float(cov.abs().max()))
        if sym > 1e-5 or mineig < -1e-5: fails.append(dict(clause='imu_covariance_symmetric_psd', signature=f'F={F}', asym=sym, mineig=mineig))
        # random chunking with reset=False
        if F >= 2:
            cut = sorted(rng.sample(range(1, F), min(F - 1, rng.randrange(1, 4))))
            itg = pp.module.IMUPreintegrator(p0, R0, v0, gravity=grav, reset=False).to(dtype)
            last = None; lo = 0
            for hi in cut + [F]:
                last = itg(dt[:, lo:hi], gyro[:, lo:hi], acc[:, lo:hi]); lo = hi
            covc = last['cov'].to(d)           # the covariance carried over the chunks (non-zero prior from the second chunk on)
            symc = float((covc - covc.mT).abs().max()) / (1e-300 + float(covc.abs().max()))
            minc = float(torch.linalg.eigvalsh((covc + covc.mT) / 2).min()) / (1e-300 + float(covc.abs().max()))
            if symc > 1e-5 or minc < -1e-5: fails.append(dict(clause='imu_covariance_symmetric_psd', signature=f'chunked F={F},cuts={cut}', asym=symc, mineig=minc))
            e2 = float((last['pos'][:, -1] - one['pos'][:, -1]).abs().max()) / (1 + float(one['pos'][:, -1].abs().max()))
            if e2 > tol: fails.append(dict(clause='imu_chunking_invariant', signature=f'F={F},cuts={cut}', err=e2))
        if F in (1, 3, 7): samples.append(dict(F=F, B=B, err=err))
        if len(fails) > 6: break
    return dict(evaluations=evals, distinct_nontrivial=evals, rule='one run per frame count F = 1..N (every value), random batch 1..3, dt in [1e-4, 0.05] (every fourth run: dt in [0.3, 1] with gyro rates of several rad/s), random chunkings; distinct F',
                bound=f'F <= {N}', failures=fails[:6], samples=samples)


@obligation('C16.canary.gravity_sign', functions=[f'{IMU}:IMUPreintegrator.integrate'], canary=True, timeout=300, max_paths=8)
def canary(env):
    op = env.load(OPS); T = env.T
    pp, drs, dt, gyro, acc, R0, p0, v0, rots, g, calls = setup(env, 1, False)
    itg = make_integrator(env, pp, R0, p0, v0, g, reset=True)
    out = itg(dt[0].reshape(1, 1, 1), gyro[0].reshape(1, 1, 3), acc[0].reshape(1, 1, 3))
    ref = spec(env, op, 1, drs, dt, acc, R0, p0, v0, rots, -g)
    env.eq('velocity with gravity added instead of removed', out['vel'][0, 0], ref[0]['vel'])
