"""C04 - autograd through LieTensor ops gives exact left-perturbation Jacobians.

Contract of every torch.autograd.Function f of operation.py (inputs a_i, output y, cotangent g):
  backward returns, for a Lie-group input X,  g^T d/dtau f(Exp(tau) X)|_0  in slots [:dof] and 0 in the
  last slot; for algebra / Euclidean inputs the ordinary g^T df/da; a group-valued y is read in its own
  left-perturbation coordinates and the last slot of g is ignored.
The right-hand side is obtained by EXACT differentiation of the traced real forward (chain rule through
atoms) along the tangent basis d(Exp(tau) X)/dtau|_0 computed through the real *_Mul.forward.
L-chain (trusted) lifts the per-Function contracts to every expression tree.
"""
from pvc.registry import obligation, bounded, property_meta
from specs import lie as S
from contracts.common import *

property_meta('C04', level='proof', min_obligations=100,
              trusted_base=['L-chain: chain rule for maps between manifolds with left-trivialised differentials (textbook)',
                            'L-series: left Jacobian = sum ad^k/(k+1)! (textbook) - used only to phrase the documented sim3 truncation',
                            'specs/lie.py first_order_element / tangent_coords (first jet of Exp, from the matrix definition)',
                            'torch autograd engine for ops implemented with plain torch ops (Jinvp, broadcasting glue)'],
              assumptions=['gradient convention domain: group-valued intermediates flow only into group operators',
                           'float32/float64 finiteness at identity/zero: bounded stand-in'],
              explanation='per-Function backward contracts proved by exact symbolic differentiation of the traced forward')

KINDS = {  # name pattern -> (input kinds, output kind)
    'Act': (('G', 'p3'), 'p3'), 'Act4': (('G', 'p4'), 'p4'),
    'AdjXa': (('G', 'a'), 'a'), 'AdjTXa': (('G', 'a'), 'a'),
    'Mul': (('G', 'G'), 'G'), 'Inv': (('G',), 'G'),
}


def make_input(env, g, kind, name):
    if kind == 'G': return group_elem(env, g, name)
    if kind == 'a': return alg_elem(env, g, name)
    if kind == 'p3': return env.vec(name, 3)
    if kind == 'p4': return env.vec(name, 4)


def expected_grads(env, op, g, fwd, inputs, kinds, out_kind, cot):
    """list of expected gradient tensors (one per input) from exact differentiation of fwd"""
    T = env.T
    exp = []
    Y = fwd(*inputs)
    dofo = S.DOF[g]
    for i, (x, k) in enumerate(zip(inputs, kinds)):
        def f(xi, i=i):
            a = list(inputs); a[i] = xi
            return fwd(*a)
        J = env.jacobian(f, x)                       # (out_dim, in_dim) ambient partials
        if k == 'G':
            V = tangent_basis(env, op, g, x)         # (dof, dim)
            D = J @ V.transpose(-1, -2)              # (out_dim, dof): d out / d tau_j
        else:
            D = J
        if out_kind == 'G':
            cols = [S.tangent_coords(T, g, Y, D[:, j]) for j in range(D.shape[-1])]
            Dt = T.stack(cols, -1)                   # (dof_out, n_dir)
            e = cot[0:dofo] @ Dt
        else:
            e = cot @ D
        if k == 'G':
            e = T.cat([e, e[0:1] * 0], -1)           # last slot zero
        exp.append(e)
    return exp


for g in GROUPS:
    for what, (kinds, out_kind) in KINDS.items():
        def mk(g=g, what=what, kinds=kinds, out_kind=out_kind):
            cls = f'{g}_{what}'
            @obligation(f'C04.{cls}.backward', functions=[f'{OPS}:{cls}.forward', f'{OPS}:{cls}.setup_context', f'{OPS}:{cls}.backward'],
                        tol=2e-5)
            def ob(env):
                op = env.load(OPS)
                F = getattr(op, cls)
                inputs = [make_input(env, g, k, 'XYZ'[i] if k == 'G' else 'apq'[i]) for i, k in enumerate(kinds)]
                n_out = S.DIM[g] if out_kind == 'G' else (S.DOF[g] if out_kind == 'a' else int(out_kind[1]))
                cot = env.vec('g', n_out)
                out, grads = env.backward(F, inputs, cot)
                exp = expected_grads(env, op, g, F.forward, inputs, kinds, out_kind, cot)
                for i, (gr, e, k) in enumerate(zip(grads, exp, kinds)):
                    env.eq(f'grad_input{i}_{k}', gr, e)
                env.safe('finite', *grads)
                if out_kind == 'G':
                    # result independent of the last slot of the cotangent
                    cot2 = env.T.cat([cot[0:n_out - 1], cot[n_out - 1:] + 1], -1)
                    _, grads2 = env.backward(F, inputs, cot2)
                    for i, (a, b) in enumerate(zip(grads, grads2)):
                        env.eq(f'last_cotangent_slot_ignored{i}', a, b)
        mk()


# --------------------------------------------------------------------------
# Exp / Log
# --------------------------------------------------------------------------
REG = ('generic', 'zero', 'tiny', 'subeps', 'small', 'large')


def alg_input(env, g, name='x'):
    """algebra element with per-block regimes (rotation block may be tiny/zero)"""
    T = env.T
    if g == 'SO3': return env.vec(name, 3, regimes=REG), None
    if g == 'SE3':
        tau, phi = env.vec(name + 't', 3), env.vec(name, 3, regimes=REG)
        return T.cat([tau, phi], -1), phi
    if g == 'RxSO3':
        phi, sg = env.vec(name, 3, regimes=REG), env.scalar(name + 's', regimes=('generic', 'zero', 'tiny', 'small'))
        return T.cat([phi, sg], -1), phi
    tau, phi, sg = env.vec(name + 't', 3), env.vec(name, 3, regimes=REG), env.scalar(name + 's', regimes=('generic', 'zero', 'tiny', 'small'))
    return T.cat([tau, phi, sg], -1), phi


for g in ['SO3', 'SE3', 'RxSO3']:
    def mk(g=g):
        a = S.ALG[g]
        cls = f'{a}_Exp'
        @obligation(f'C04.{cls}.backward', functions=[f'{OPS}:{cls}.forward', f'{OPS}:{cls}.backward', f'{OPS}:{a}_Jl'] +
                    ([f'{OPS}:calcQ'] if g == 'SE3' else []), tol=2e-5, max_paths=16)
        def ob(env):
            op = env.load(OPS); T = env.T
            F = getattr(op, cls)
            x, phi = alg_input(env, g)
            rot = x if phi is None else phi
            theta = T.linalg.norm(rot, dim=-1)
            env.angle_base(theta / 2)
            cot = env.vec('g', S.DIM[g])
            out, (grad,) = env.backward(F, [x], cot)
            J = env.jacobian(F.forward, x)                                   # (dim, dof)
            Dt = T.stack([S.tangent_coords(T, g, out, J[:, j]) for j in range(S.DOF[g])], -1)
            e = cot[0:S.DOF[g]] @ Dt
            if theta > env.eps(x):
                env.eq('grad_is_left_jacobian_pullback', grad, e)
            else:
                # Taylor path: forward and Jl are both truncated series; they agree up to the stated order
                env.eq_order('grad_taylor_agrees_to_order3', grad, e, rot, 4)
            env.safe('finite', grad)
    mk()
