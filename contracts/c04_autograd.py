"""C04 - autograd through LieTensor ops gives exact left-perturbation Jacobians.

Contract of every torch.autograd.Function f of operation.py (inputs a_i, output y, cotangent g):
  backward returns, for a Lie-group input X,  g^T d/dtau f(Exp(tau) X)|_0  in slots [:dof] and 0 in the
  last slot; for algebra / Euclidean inputs the ordinary g^T df/da; a group-valued y is read in its own
  left-perturbation coordinates and the last slot of g is ignored.
The right-hand side is obtained by EXACT differentiation of the traced real forward (chain rule through
atoms) along the tangent basis d(Exp(tau) X)/dtau|_0 computed through the real *_Mul.forward.
L-chain (trusted) lifts the per-Function contracts to every expression tree.
"""
from fractions import Fraction as Q
from pvc.registry import obligation, bounded, property_meta
from specs import lie as S
from contracts.common import *

property_meta('C04', level='proof', min_obligations=100,
              trusted_base=['L-chain: chain rule for maps between manifolds with left-trivialised differentials (textbook)',
                            'L-series: left Jacobian = sum ad^k/(k+1)! (textbook) - used only to phrase the documented sim3 truncation',
                            'specs/lie.py first_order_element / tangent_coords (first jet of Exp, from the matrix definition)',
                            'torch autograd engine for ops implemented with plain torch ops (Jinvp, broadcasting glue)'],
              assumptions=['gradient convention domain: group-valued intermediates flow only into group operators',
                           'float32/float64 finiteness at identity/zero: bounded stand-in'],
              explanation='per-Function backward contracts proved by exact symbolic differentiation of the traced forward')

KINDS = {  # name pattern -> (input kinds, output kind)
    'Act': (('G', 'p3'), 'p3'), 'Act4': (('G', 'p4'), 'p4'),
    'AdjXa': (('G', 'a'), 'a'), 'AdjTXa': (('G', 'a'), 'a'),
    'Mul': (('G', 'G'), 'G'), 'Inv': (('G',), 'G'),
}


def make_input(env, g, kind, name):
    if kind == 'G': return group_elem(env, g, name)
    if kind == 'a': return alg_elem(env, g, name)
    if kind == 'p3': return env.vec(name, 3)
    if kind == 'p4': return env.vec(name, 4)


def expected_grads(env, op, g, fwd, inputs, kinds, out_kind, cot):
    """list of expected gradient tensors (one per input) from exact differentiation of fwd"""
    T = env.T
    exp = []
    Y = fwd(*inputs)
    dofo = S.DOF[g]
    for i, (x, k) in enumerate(zip(inputs, kinds)):
        def f(xi, i=i):
            a = list(inputs); a[i] = xi
            return fwd(*a)
        J = env.jacobian(f, x)                       # (out_dim, in_dim) ambient partials
        if k == 'G':
            V = tangent_basis(env, op, g, x)         # (dof, dim)
            D = J @ V.transpose(-1, -2)              # (out_dim, dof): d out / d tau_j
        else:
            D = J
        if out_kind == 'G':
            cols = [S.tangent_coords(T, g, Y, D[:, j]) for j in range(D.shape[-1])]
            Dt = T.stack(cols, -1)                   # (dof_out, n_dir)
            e = cot[0:dofo] @ Dt
        else:
            e = cot @ D
        if k == 'G':
            e = T.cat([e, e[0:1] * 0], -1)           # last slot zero
        exp.append(e)
    return exp


for g in GROUPS:
    for what, (kinds, out_kind) in KINDS.items():
        def mk(g=g, what=what, kinds=kinds, out_kind=out_kind):
            cls = f'{g}_{what}'
            @obligation(f'C04.{cls}.backward', functions=[f'{OPS}:{cls}.forward', f'{OPS}:{cls}.setup_context', f'{OPS}:{cls}.backward'],
                        tol=2e-5)
            def ob(env):
                op = env.load(OPS)
                F = getattr(op, cls)
                inputs = [make_input(env, g, k, 'XYZ'[i] if k == 'G' else 'apq'[i]) for i, k in enumerate(kinds)]
                n_out = S.DIM[g] if out_kind == 'G' else (S.DOF[g] if out_kind == 'a' else int(out_kind[1]))
                cot = env.vec('g', n_out)
                out, grads = env.backward(F, inputs, cot)
                exp = expected_grads(env, op, g, F.forward, inputs, kinds, out_kind, cot)
                for i, (gr, e, k) in enumerate(zip(grads, exp, kinds)):
                    env.eq(f'grad_input{i}_{k}', gr, e)
                env.safe('finite', *grads)
                # a gradient that is asked for is delivered whether or not the other input asks for one (ctx.needs_input_grad)
                if len(inputs) == 2:
                    for i in range(2):
                        needs = tuple(j == i for j in range(2))
                        _, gsel = env.backward(F, inputs, cot, needs=needs)
                        if gsel[i] is None:
                            env.holds(f'grad_input{i} is delivered when only input {i} requires a gradient', False)
                        else:
                            env.eq(f'grad_input{i} is the same when only input {i} requires a gradient', gsel[i], exp[i])
                if out_kind == 'G':
                    # result independent of the last slot of the cotangent
                    cot2 = env.T.cat([cot[0:n_out - 1], cot[n_out - 1:] + 1], -1)
                    _, grads2 = env.backward(F, inputs, cot2)
                    for i, (a, b) in enumerate(zip(grads, grads2)):
                        env.eq(f'last_cotangent_slot_ignored{i}', a, b)
        mk()


# --------------------------------------------------------------------------
# Exp / Log
# --------------------------------------------------------------------------
REG = ('generic', 'zero', 'tiny', 'subeps', 'sqrteps', 'micro', 'small', 'large')


def alg_input(env, g, name='x'):
    """algebra element with per-block regimes (rotation block may be tiny/zero)"""
    T = env.T
    if g == 'SO3': return env.vec(name, 3, regimes=REG), None
    if g == 'SE3':
        tau, phi = env.vec(name + 't', 3), env.vec(name, 3, regimes=REG)
        return T.cat([tau, phi], -1), phi
    if g == 'RxSO3':
        phi, sg = env.vec(name, 3, regimes=REG), env.scalar(name + 's', regimes=('generic', 'zero', 'tiny', 'small'))
        return T.cat([phi, sg], -1), phi
    tau, phi, sg = env.vec(name + 't', 3), env.vec(name, 3, regimes=REG), env.scalar(name + 's', regimes=('generic', 'zero', 'tiny', 'small'))
    return T.cat([tau, phi, sg], -1), phi


for g in ['SO3', 'SE3', 'RxSO3']:
    def mk(g=g):
        a = S.ALG[g]
        cls = f'{a}_Exp'
        @obligation(f'C04.{cls}.backward', functions=[f'{OPS}:{cls}.forward', f'{OPS}:{cls}.backward', f'{OPS}:{a}_Jl'] +
                    ([f'{OPS}:calcQ'] if g == 'SE3' else []), tol=2e-5, max_paths=16)
        def ob(env):
            op = env.load(OPS); T = env.T
            F = getattr(op, cls)
            x, phi = alg_input(env, g)
            rot = x if phi is None else phi
            theta = T.linalg.norm(rot, dim=-1)
            env.angle_base(theta / 2)
            cot = env.vec('g', S.DIM[g])
            out, (grad,) = env.backward(F, [x], cot)
            J = env.jacobian(F.forward, x)                                   # (dim, dof)
            Dt = T.stack([S.tangent_coords(T, g, out, J[:, j]) for j in range(S.DOF[g])], -1)
            e = cot[0:S.DOF[g]] @ Dt
            if theta > env.eps(x):
                env.eq('grad_is_left_jacobian_pullback', grad, e)
            else:
                # Taylor path: forward and Jl are both truncated series; they agree up to the stated order
                env.eq_order('grad_taylor_agrees_to_order3', grad, e, rot, 4)
            env.safe('finite', grad)
    mk()


QREG = ('generic', 'identity', 'nearpi', 'halfturn', 'small', 'neg')

for g in ['SO3', 'SE3', 'RxSO3']:
    def mk(g=g):
        cls = f'{g}_Log'
        a = S.ALG[g]
        @obligation(f'C04.{cls}.backward', functions=[f'{OPS}:{cls}.forward', f'{OPS}:{cls}.backward', f'{OPS}:{a}_Jl_inv'],
                    tol=2e-5, max_paths=64, timeout=300)
        def ob(env):
            op = env.load(OPS); T = env.T
            F = getattr(op, cls)
            X = group_elem(env, g, 'X', qregimes=QREG)
            _, q, _ = S.parts(g, X)
            n = T.linalg.norm(q[0:3], dim=-1)
            eps = env.eps(X)
            env.assume('regime 1 of the quaternion log (|v| > eps, |w| > eps)', (n > eps) & (q[3].abs() > eps))
            cot = env.vec('g', S.DOF[g])
            rot = op.SO3_Log.forward(q)
            env.assume('|Log X| above the Taylor switch of Jl_inv', T.linalg.norm(rot, dim=-1) > eps)
            out, (grad,) = env.backward(F, [X], cot)
            J = env.jacobian(F.forward, X)                    # (dof, dim)
            V = tangent_basis(env, op, g, X)                  # (dof, dim)
            e = cot @ (J @ V.transpose(-1, -2))
            env.eq('grad_is_inverse_left_jacobian_pullback', grad[0:S.DOF[g]], e)
            env.eq('last_slot_zero', grad[S.DOF[g]:], 0)
            env.safe('finite', grad)
    mk()


# ---- adjoint-action generators: {a}_adj(x) is the differential of {G}_Adj at the identity
for g in GROUPS:
    def mk(g=g):
        a = S.ALG[g]
        @obligation(f'C04.{a}_adj', functions=[f'{OPS}:{a}_adj', f'{OPS}:{g}_Adj'])
        def ob(env):
            op = env.load(OPS); T = env.T
            x = alg_elem(env, g, 'x'); y = alg_elem(env, g, 'y')
            ad = getattr(op, a + '_adj')(x)
            # d/dt Adj(Exp(t x)) y at t = 0, through the real {g}_Adj and the first jet of Exp
            if env.sym:
                from pvc import algebra as A, storch as st
                t = A.CTX.sym('_t', aux=True); tv = list(t.num.vars())[0]
                Ad = getattr(op, g + '_Adj')(S.first_order_element(T, g, x * st.tensor(t)))
                dAd = st._ew1(lambda e: A.Frac(e.num.pdiff(tv)).subs({tv: A.Frac.const(0)}), Ad)
            else:
                h = 1e-6
                Adp = getattr(op, g + '_Adj')(S.first_order_element(T, g, x * h))
                Adm = getattr(op, g + '_Adj')(S.first_order_element(T, g, -x * h))
                dAd = (Adp - Adm) / (2 * h)
            env.eq('adj_is_differential_of_Adj', ad, dAd)
            # Lie bracket consistency: hat(ad(x) y) = [hat x, hat y]
            hx, hy = S.hat(T, g, x), S.hat(T, g, y)
            env.eq('adj_is_lie_bracket', S.hat(T, g, ad @ y), hx @ hy - hy @ hx)
    mk()


@obligation('C04.sim3_Jl.series', functions=[f'{OPS}:sim3_Jl', f'{OPS}:sim3_Jl_inv', f'{OPS}:sim3_adj'], timeout=300)
def sim3_series(env):
    """the documented truncation: sim3_Jl = sum_{k<=5} ad^k/(k+1)!, sim3_Jl_inv = I - ad/2 + ad^2/12 - ad^4/720,
    and Jl * Jl_inv - I has no term of degree < 6 in xi (L-series: true Jl = full series)"""
    op = env.load(OPS); T = env.T
    x = env.vec('x', 7)
    ad = op.sim3_adj(x)
    I = S.eye(T, 7, x[0])
    P = [I]
    for k in range(5): P.append(P[-1] @ ad)
    fact = [1, 2, 6, 24, 120, 720]
    Jl = I * 0
    for k in range(6): Jl = Jl + P[k] / fact[k]
    env.eq('Jl_is_partial_sum_to_ad5', op.sim3_Jl(x), Jl)
    env.eq('Jl_inv_is_bernoulli_sum_to_ad4', op.sim3_Jl_inv(x), I - P[1] / 2 + P[2] / 12 - P[4] / 720)
    env.eq_order('Jl_times_Jl_inv_identity_up_to_degree6', op.sim3_Jl(x) @ op.sim3_Jl_inv(x), I, x, 6)


@obligation('C04.sim3_Exp.backward', functions=[f'{OPS}:sim3_Exp.forward', f'{OPS}:sim3_Exp.backward', f'{OPS}:sim3_Jl'],
            tol=1e-4, max_paths=16, timeout=300)
def sim3_exp_bwd(env):
    """backward = cotangent pulled back through sim3_Jl (exactly, every regime); sim3_Jl is the documented
    truncation of the true left Jacobian (C04.sim3_Jl.series + L-series)"""
    op = env.load(OPS); T = env.T
    F = op.sim3_Exp
    tau = env.vec('xt', 3)
    phi = env.vec('x', 3, regimes=REG)
    sg = env.scalar('xs', regimes=('generic', 'tiny', 'zero'))
    x = T.cat([tau, phi, sg], -1)
    cot = env.vec('g', 8)
    out, (grad,) = env.backward(F, [x], cot)
    env.eq('grad_is_cot_times_sim3_Jl', grad, cot[0:7] @ op.sim3_Jl(x))
    env.safe('finite', grad)


@obligation('C04.Sim3_Log.backward', functions=[f'{OPS}:Sim3_Log.backward', f'{OPS}:sim3_Jl_inv'], timeout=300)
def sim3_log_bwd(env):
    """backward = cotangent pulled back through sim3_Jl_inv at the saved output (any output value)"""
    op = env.load(OPS); T = env.T
    out = env.vec('out', 7); cot = env.vec('g', 7)
    class Ctx: saved_tensors = (out,)
    grad = op.Sim3_Log.backward(Ctx, cot)
    env.eq('grad_is_cot_times_sim3_Jl_inv', grad[0:7], cot @ op.sim3_Jl_inv(out))
    env.eq('last_slot_zero', grad[7:], 0)


# ---- gradients at exactly the identity element / the zero vector: concrete evaluation of the real
# backward through the exact model: no division by zero, and the value is the first-order exact one
def _identity_of(env, g):
    return env.const({'SO3': [0, 0, 0, 1], 'SE3': [0, 0, 0, 0, 0, 0, 1], 'RxSO3': [0, 0, 0, 1, 1], 'Sim3': [0, 0, 0, 0, 0, 0, 1, 1]}[g]) * Q(1) \
        if env.sym else env.const([float(v) for v in {'SO3': [0, 0, 0, 1], 'SE3': [0, 0, 0, 0, 0, 0, 1], 'RxSO3': [0, 0, 0, 1, 1], 'Sim3': [0, 0, 0, 0, 0, 0, 1, 1]}[g]])

for g in GROUPS:
    def mk(g=g):
        a = S.ALG[g]
        @obligation(f'C04.{g}.finite_at_identity', functions=[f'{OPS}:{g}_Log.backward', f'{OPS}:{a}_Exp.backward', f'{OPS}:{g}_Inv.backward',
                                                              f'{OPS}:{g}_Mul.backward', f'{OPS}:{g}_Act.backward', f'{OPS}:{g}_AdjXa.backward',
                                                              f'{OPS}:{g}_AdjTXa.backward', f'{OPS}:{g}_Act4.backward'])
        def ob(env):
            op = env.load(OPS); T = env.T
            I = _identity_of(env, g)
            z = I[0:S.DOF[g]] * 0
            dof, dim = S.DOF[g], S.DIM[g]
            cot_a = env.vec('ga', dof); cot_g = env.vec('gg', dim); p = env.vec('p', 3); p4 = env.vec('h', 4); a_ = env.vec('a', dof)
            zero1 = cot_a[0:1] * 0
            # Log at the identity: d Log(Exp(tau) I)/d tau = identity matrix
            out, (gr,) = env.backward(getattr(op, g + '_Log'), [I], cot_a)
            env.safe('Log_backward_finite_at_identity', gr)
            env.eq('Log_backward_at_identity_is_cotangent', gr, T.cat([cot_a, zero1], -1))
            # Exp at the zero vector: Jl(0) = identity
            out, (gr,) = env.backward(getattr(op, a + '_Exp'), [z], cot_g)
            env.safe('Exp_backward_finite_at_zero', gr)
            env.eq('Exp_backward_at_zero_is_cotangent', gr, cot_g[0:dof])
            for what, ins, cot in (('Inv', [I], cot_g), ('Mul', [I, I], cot_g), ('Act', [I, p], p * 0 + cot_a[0:3]),
                                   ('Act4', [I, p4], p4 * 0 + cot_g[0:4]), ('AdjXa', [I, a_], cot_a), ('AdjTXa', [I, a_], cot_a)):
                out, grads = env.backward(getattr(op, f'{g}_{what}'), ins, cot)
                env.safe(f'{what}_backward_finite_at_identity', *grads)
    mk()


# ---- the segments of the listed operators that are NOT under a hand-written backward (Jl_inv(Log X) p of Jinvp, and the
# LieTensor glue around every Function): reverse-mode autograd differentiates them op by op (trusted), which gives the true Jacobian
# iff no value on the way is cut out of the graph (.detach() / .data).  Contract: no entry of the result is computed from a detached
# value that depends on the input.  Inputs away from the zero rotation (the property's domain for Jinvp).
GEN = ('generic',)
for g in GROUPS:
    def mk(g=g):
        a = S.ALG[g]
        @obligation(f'C04.{g}.Jinvp.plain_autograd_segment', functions=[f'{OPS}:{a}_Jl_inv', f'{LT}:{g}Type.Jinvp'] +
                    ([f'{OPS}:calcQ', f'{OPS}:so3_Jl_inv'] if g == 'SE3' else []), max_paths=32, timeout=300)
        def seg(env):
            op = env.load(OPS); pp = env.load('pypose'); T = env.T
            dof = S.DOF[g]
            x = alg_elem(env, g, 'x', regimes=GEN); p = env.vec('p', dof, regimes=GEN)
            Jl_inv = getattr(op, a + '_Jl_inv')
            env.no_graph_cut('Jl_inv(x) @ p keeps its full dependence on x', lambda z: (Jl_inv(z) @ p.unsqueeze(-1)).squeeze(-1), x)
            env.no_graph_cut('Jl_inv(x) @ p keeps its full dependence on p', lambda q: (Jl_inv(x) @ q.unsqueeze(-1)).squeeze(-1), p)

        @obligation(f'C04.{g}.api_glue.no_graph_cut', functions=[f'{LT}:{g}Type.*', f'{LT}:LieTensor.*', f'{LT}:{a}Type.*'], max_paths=32, timeout=300,
                    first_path_only=True, tol=1e-4,
                    note='value-independent clause: the glue of lietensor.py branches on types and shapes only; one feasible path')
        def glue(env):
            op = env.load(OPS); pp = env.load('pypose'); T = env.T
            dof = S.DOF[g]
            X = group_elem(env, g, 'X', qregimes=GEN); Y = group_elem(env, g, 'Y', qregimes=GEN)
            xa = alg_elem(env, g, 'a', regimes=GEN); pt = env.vec('p', 3, regimes=GEN); h = env.vec('h', 4, regimes=GEN); pa = env.vec('q', dof, regimes=GEN)
            L = lambda Z: lie(pp, g, Z)
            A_ = lambda z: alg(pp, g, z)
            progs = {        # every program ends in an algebra / point / matrix value (group-valued results act on a point) (C04 gradient convention for group-valued results)
                'Log': lambda Z: raw(L(Z).Log()), 'Inv': lambda Z: L(Z).Inv().Act(pt), 'matrix': lambda Z: L(Z).matrix(),
                'Mul (left operand)': lambda Z: (L(Z) @ L(Y)).Act(pt), 'Mul (right operand)': lambda Z: (L(Y) @ L(Z)).Act(pt),
                'Act on 3-vector': lambda Z: L(Z).Act(pt), 'Act on 4-vector': lambda Z: L(Z).Act(h),
                'Adj': lambda Z: raw(L(Z).Adj(A_(xa))), 'AdjT': lambda Z: raw(L(Z).AdjT(A_(xa))),
                'Retr': lambda Z: L(Z).Retr(A_(xa)).Act(pt), 'Jinvp': lambda Z: raw(L(Z).Jinvp(A_(pa))),
            }
            for nm, f in progs.items():
                env.no_graph_cut(f'{nm}: nothing detached between X and the result', f, X, group=g)
            env.no_graph_cut('Exp: nothing detached between x and the result', lambda z: A_(z).Exp().Act(pt), xa)
            env.no_graph_cut('Retr: nothing detached between a and the result', lambda z: L(X).Retr(A_(z)).Act(pt), xa)
            env.no_graph_cut('Adj: nothing detached between a and the result', lambda z: raw(L(X).Adj(A_(z))), xa)
            env.no_graph_cut('Act: nothing detached between p and the result', lambda z: L(X).Act(z), pt)
            env.no_graph_cut('Jinvp: nothing detached between p and the result', lambda q: raw(L(X).Jinvp(A_(q))), pa)
    mk()


# --- a batch whose size equals the vector dimension (3): the hand-written backward treats the batch axis as a batch axis -----------------
# (torch.cross / torch.linalg.cross pick or need an explicit dim; (3, 3) operands are where a missing dim changes the meaning).
for g in GROUPS:
    for what, (kinds, out_kind) in KINDS.items():
        def mk(g=g, what=what, kinds=kinds, out_kind=out_kind):
            cls = f'{g}_{what}'
            @obligation(f'C04.{cls}.backward.batch_of_three', functions=[f'{OPS}:{cls}.forward', f'{OPS}:{cls}.setup_context', f'{OPS}:{cls}.backward'],
                        max_paths=8, timeout=300, tol=2e-5)
            def ob(env):
                op = env.load(OPS); T = env.T
                F = getattr(op, cls)
                n_out = {'p3': 3, 'p4': 4, 'a': S.DOF[g], 'G': S.DIM[g]}[out_kind]
                GEN1 = ('generic',)
                def inp(kind, name):
                    if kind == 'G': return group_elem(env, g, name, qregimes=GEN1)
                    if kind == 'a': return alg_elem(env, g, name, regimes=GEN1)
                    return env.vec(name, 3 if kind == 'p3' else 4, regimes=GEN1)
                items = [[inp(k, f'{"XYZ"[j] if k == "G" else "apq"[j]}{i}') for j, k in enumerate(kinds)] for i in range(3)]
                cots = [env.vec(f'g{i}', n_out, regimes=GEN1) for i in range(3)]
                batched = [T.stack([items[i][j] for i in range(3)], 0) for j in range(len(kinds))]
                out, grads = env.backward(F, batched, T.stack(cots, 0))
                single = [env.backward(F, items[i], cots[i]) for i in range(3)]
                env.eq('forward: item i of the batch is the forward of item i', out, T.stack([single[i][0] for i in range(3)], 0))
                for j in range(len(kinds)):
                    env.eq(f'grad_input{j}: item i of the batched backward is the backward of item i', grads[j], T.stack([single[i][1][j] for i in range(3)], 0))
        mk()


# --- dispatch: the API reaches the result ONLY through the autograd Function whose backward is under contract -------------------------
# The Jacobian convention of C04 lives in the hand-written backward of the Functions (C04.{cls}.backward).  A caller inherits it only if
# the group-typed argument flows into the result through Function.apply and nowhere else - for every broadcast shape class the glue
# accepts (one transform on a cloud, a batch of transforms on one point, ...).  sym: the Function is replaced by an abstract one
# (fresh output symbols); the result must be exactly those symbols and the Function must have been given the (broadcast) arguments.
# num (replay / validation): autograd of the real call against central differences of the left perturbation.
for g in GROUPS:
    def mk(g=g):
        a = S.ALG[g]
        @obligation(f'C04.{g}.api_glue.dispatch', functions=[f'{LT}:{g}Type.Act', f'{LT}:{g}Type.Mul', f'{LT}:{g}Type.Adj', f'{LT}:{g}Type.AdjT',
                                                             f'{LT}:LieTensor.Act', f'{LT}:LieTensor.__matmul__', f'{LT}:LieTensor.__mul__', f'{OPS}:broadcast_inputs'],
                    max_paths=8, timeout=300, first_path_only=True, tol=1e-4,
                    note='value-independent clause: the glue branches on types and shapes only; one feasible path')
        def dispatch(env):
            ltm = env.load(LT); pp = env.load('pypose'); T = env.T
            dof = S.DOF[g]; D = dof + 1
            X = group_elem(env, g, 'X', qregimes=GEN)
            Xb = T.stack([group_elem(env, g, 'X0', qregimes=GEN), group_elem(env, g, 'X1', qregimes=GEN)], 0)
            P = T.stack([env.vec('p0', 3, regimes=GEN), env.vec('p1', 3, regimes=GEN)], 0); pt = env.vec('p', 3, regimes=GEN)
            H = T.stack([env.vec('h0', 4, regimes=GEN), env.vec('h1', 4, regimes=GEN)], 0)
            Ab = T.stack([alg_elem(env, g, 'a0', regimes=GEN), alg_elem(env, g, 'a1', regimes=GEN)], 0)
            L = lambda Z: lie(pp, g, Z); A_ = lambda z: alg(pp, g, z)
            cases = [       # (name, Function, call(Z) with the group argument Z, the group argument, the other argument, width of the result)
                ('one transform on a cloud of 3-vectors (Act)', f'{g}_Act', lambda Z: L(Z).Act(P), X, P, 3),
                ('one transform on a cloud of 3-vectors (@)', f'{g}_Act', lambda Z: L(Z) @ P, X, P, 3),
                ('one transform on a cloud of 3-vectors (*)', f'{g}_Act', lambda Z: L(Z) * P, X, P, 3),
                ('one transform on a batch of clouds', f'{g}_Act', lambda Z: L(Z).Act(T.stack([P, P + 1], 0)), X, T.stack([P, P + 1], 0), 3),
                ('one transform on a cloud of 4-vectors', f'{g}_Act4', lambda Z: L(Z).Act(H), X, H, 4),
                ('a batch of transforms on one point', f'{g}_Act', lambda Z: L(Z).Act(pt), Xb, pt, 3),
                ('a column of transforms on a row of points', f'{g}_Act', lambda Z: L(Z).unsqueeze(-2).Act(P), Xb, P, 3),
                ('one transform times a batch of transforms', f'{g}_Mul', lambda Z: (L(Z) @ L(Xb)).Act(pt), X, Xb, D),
                ('a batch of transforms times one transform', f'{g}_Mul', lambda Z: (L(Xb) @ L(Z)).Act(pt), X, Xb, D),
                ('Adj of one transform on a batch of algebra elements', f'{g}_AdjXa', lambda Z: raw(L(Z).Adj(A_(Ab))), X, Ab, dof),
                ('AdjT of one transform on a batch of algebra elements', f'{g}_AdjTXa', lambda Z: raw(L(Z).AdjT(A_(Ab))), X, Ab, dof),
            ]
            for nm, fname, call, Z, other, width in cases:
                name = f'{nm}: X reaches the result through {fname}.apply only'
                if not env.sym:
                    z0 = Z.reshape(-1)          # no_graph_cut differentiates w.r.t. a 1-d tensor; group-typed rows perturbed one at a time below
                    if Z.dim() == 1:
                        env.no_graph_cut(name, call, Z, group=g)
                    else:
                        env.no_graph_cut(name, lambda z: call(T.stack([z, Z[1]], 0)), Z[0], group=g)
                    continue
                from pvc import storch as st
                st_flat = lambda u: list(st._T(u)._a.flat)
                rec = []
                real = getattr(ltm, fname)
                class Fake:
                    @staticmethod
                    def apply(*args):
                        n = 1
                        for d_ in args[-1].shape[:-1]: n *= d_
                        out = env.fresh_matrix(f'y{len(rec)}_{fname}_{abs(hash(nm)) % 9973}_', n, width).reshape(tuple(args[-1].shape[:-1]) + (width,))
                        rec.append((args, out)); return out
                env.stub(ltm, fname, Fake)
                others = {}
                if fname.endswith('_Mul'):      # the trailing .Act(pt) of the Mul programs: abstract too (keeps the result a function of Mul's output only)
                    class FakeAct:
                        @staticmethod
                        def apply(Xa, pa):
                            others['act_arg'] = Xa; return pa
                    env.stub(ltm, f'{g}_Act', FakeAct)
                try:
                    res = call(Z)
                finally:
                    setattr(ltm, fname, real)
                same = lambda u, v: tuple(u.shape) == tuple(v.shape) and all(x.same(y) for x, y in zip(st_flat(u), st_flat(v)))
                ok = len(rec) == 1
                if ok:
                    args, out = rec[0]
                    through = others['act_arg'] if fname.endswith('_Mul') else res
                    ok = same(through.reshape(-1, width), out.reshape(-1, width))
                    # the Function is given the group argument itself (each broadcast row is one of its rows) in one of its operand slots
                    rows = [r for r in Z.reshape(-1, D)]
                    given = [arg for arg in args if arg.shape[-1] == D]
                    ok = ok and any(all(any(same(r_, zr) for zr in rows) for r_ in arg.reshape(-1, D)) for arg in given)
                if ok: env.holds(name, True)
                else:       # a structural sufficient condition: its failure is a violation only with a failing input of the real code (needs_cex)
                    env._record(name, 'failed', {'needs_cex': True, 'reason': f'{len(rec)} call(s) of {fname}.apply; result is not (only) its output'})
    mk()


@obligation('C04.jacrev.arguments', functions=['pypose.func.jac:jacrev'], max_paths=4, first_path_only=True, no_validate=True,
            note='torch.func.jacrev by contract (a recorder): pp.func.jacrev documents "the exact same functionality"')
def jacrev_arguments(env):
    """pp.func.jacrev(func, argnums, has_aux=, chunk_size=) hands every one of its arguments to torch.func.jacrev - in particular argnums,
    keyword or positional, so that "every input gets its Jacobian".  Concrete twin: the Jacobians w.r.t. argument 1 and w.r.t. (0, 1) of
    an SE3 action against autograd of the plain function."""
    T = env.T
    if env.sym:
        from pvc import storch as st
        import inspect
        jac = env.load('pypose.func.jac')
        seen = []
        def torch_jacrev(func, argnums=0, *, has_aux=False, chunk_size=None, _preallocate_and_copy=False):
            seen.append(dict(func=func, argnums=argnums, has_aux=has_aux, chunk_size=chunk_size)); return lambda *a, **k: ('jacobian', argnums)
        st.set_external('func.jacrev', torch_jacrev)
        env.stub(jac, 'retain_ltype', lambda *a, **k: (lambda fn: fn))       # the ltype-retaining context is C06's contract (C06.retain_ltype_faults)
        f = lambda x, y: x
        out1 = jac.jacrev(f, argnums=1)(1, 2); out2 = jac.jacrev(f, (0, 1), has_aux=True, chunk_size=5)(1, 2); out3 = jac.jacrev(f)(1, 2)
        env.holds('argnums given by keyword reaches torch.func.jacrev', len(seen) >= 1 and seen[0]['argnums'] == 1 and seen[0]['func'] is f)
        env.holds('argnums given positionally (a tuple), has_aux and chunk_size reach torch.func.jacrev',
                  len(seen) >= 2 and seen[1]['argnums'] == (0, 1) and seen[1]['has_aux'] is True and seen[1]['chunk_size'] == 5)
        env.holds('the default is argument 0', len(seen) >= 3 and seen[2]['argnums'] == 0 and seen[2]['has_aux'] is False)
        env.holds('the wrapper returns what the torch function returns', out1 == ('jacobian', 1) and out2 == ('jacobian', (0, 1)) and out3 == ('jacobian', 0))
        return
    import pypose as pp
    X = pp.randn_SE3(dtype=T.float64); p = T.randn(3, dtype=T.float64)
    f = lambda x, y: x.Act(y)
    Rm = X.matrix()[:3, :3]
    J1 = pp.func.jacrev(f, argnums=1)(X, p)
    env.eq('argnums given by keyword reaches torch.func.jacrev', J1, Rm)
    J01 = pp.func.jacrev(f, (0, 1))(X, p)
    env.holds('argnums given positionally (a tuple), has_aux and chunk_size reach torch.func.jacrev',
              isinstance(J01, tuple) and len(J01) == 2 and tuple(J01[1].shape) == (3, 3) and bool(T.allclose(J01[1], Rm)) and tuple(J01[0].shape) == (3, 7))
    J0 = pp.func.jacrev(f)(X, p)
    env.holds('the default is argument 0', tuple(J0.shape) == (3, 7))


@bounded('C04.modjac_models', functions=['pypose.optim.functional:modjac'])
def modjac_models(rng, tier):
    """real code: modjac (the Jacobian GN / LM use) on module structures autograd handles but a functional re-binding of parameters may not: ONE
    group parameter shared by two sub-modules (registered under two names), a parameter used twice in one forward, two independent parameters -
    against central differences of the left perturbation Exp(tau) @ X (float64)"""
    import torch, pypose as pp
    from torch import nn
    from pypose.optim.functional import modjac
    d = torch.float64
    fails = []; evals = 0
    class Link(nn.Module):
        def __init__(self, pose): super().__init__(); self.pose = pose
        def forward(self, p): return self.pose @ p
    class Chain(nn.Module):
        def __init__(self, a, b): super().__init__(); self.first = Link(a); self.second = Link(b)
        def forward(self, p): return self.second(self.first(p)).reshape(-1)
    class Twice(nn.Module):
        def __init__(self, a): super().__init__(); self.pose = a
        def forward(self, p): return (self.pose @ (self.pose @ p)).reshape(-1)
    for gname, dof in (('SO3', 3), ('SE3', 6), ('Sim3', 7)):
        for t in range(2 if tier == 'quick' else 8):
            X0 = getattr(pp, 'randn_' + gname)(dtype=d); Y0 = getattr(pp, 'randn_' + gname)(dtype=d); p = torch.randn(4, 3, dtype=d)
            alg = getattr(pp, gname.lower())
            def fd(build):
                cols = []; h = 1e-6
                for j in range(dof):
                    tau = torch.zeros(dof, dtype=d); tau[j] = h
                    cols.append((build(alg(tau).Exp() @ X0)(p) - build(alg(-tau).Exp() @ X0)(p)) / (2 * h))
                return torch.stack(cols, -1)
            shared = pp.Parameter(X0.clone())
            cases = {'one parameter shared by two sub-modules': (Chain(shared, shared), lambda X: (lambda q: (X @ (X @ q)).reshape(-1))),
                     'one parameter used twice in forward': (Twice(pp.Parameter(X0.clone())), lambda X: (lambda q: (X @ (X @ q)).reshape(-1))),
                     'two independent parameters (Jacobian w.r.t. the first)': (Chain(pp.Parameter(X0.clone()), pp.Parameter(Y0.clone())), lambda X: (lambda q: (Y0 @ (X @ q)).reshape(-1)))}
            for cname, (model, build) in cases.items():
                try:
                    J = modjac(model, input=p, flatten=True)
                except Exception as e:
                    fails.append(dict(clause='modjac_raises', signature=f'{gname}/{cname}', error=f'{type(e).__name__}: {e}'[:140])); continue
                evals += 1
                Jx = J[:, :dof]; ref = fd(build)
                err = float((Jx - ref).abs().max()) / (1 + float(ref.abs().max()))
                if err > (2e-5 if gname != 'Sim3' else 2e-5) or float(J[:, dof].abs().max()) != 0.0:
                    fails.append(dict(clause='modjac_is_the_left_perturbation_jacobian', signature=f'{gname}/{cname}', err=err, last_slot=float(J[:, dof].abs().max())))
    uniq = {}
    for f_ in fails: uniq.setdefault((f_['clause'], f_['signature']), f_)
    return dict(evaluations=evals, distinct_nontrivial=evals, rule='3 group types x 3 module structures, random parameters', bound='4 points, float64',
                failures=list(uniq.values())[:8], samples=[])


@obligation('C04.canary.right_perturbation', functions=[f'{OPS}:SE3_Act.backward'], canary=True)
def canary(env):
    """a right-perturbation Jacobian must be refuted"""
    op = env.load(OPS); T = env.T
    X = group_elem(env, 'SE3', 'X'); p = env.vec('p', 3); cot = env.vec('g', 3)
    out, grads = env.backward(op.SE3_Act, [X, p], cot)
    # right perturbation: X * Exp(tau)
    if env.sym:
        from pvc import algebra as A, storch as st
        taus = [A.CTX.sym(f'_r{j}', aux=True) for j in range(6)]
        tv = [list(t.num.vars())[0] for t in taus]
        Y = op.SE3_Act.forward(op.SE3_Mul.forward(X, S.first_order_element(T, 'SE3', st.tensor(taus))), p)
        zero = {v: A.Frac.const(0) for v in tv}
        D = st.tensor([[A.Frac(e.num.pdiff(v)).subs(zero) for v in tv] for e in Y._a.flat])
        env.eq('right_jacobian', grads[0][0:6], cot @ D)
    else:
        env.eq('right_jacobian', grads[0][0:6], grads[0][0:6] + 1)


@bounded('C04.programs', functions=[f'{LT}:LieTensor.*', f'{OPS}:*.backward'])
def programs(rng, tier):
    """real autograd on random well-typed expression trees (depth <= 6) over Exp, Log, Inv, @, Act (3- and 4-vectors), Adj, AdjT, Retr,
    matrix(), Jinvp (away from zero rotation): float64 gradients vs central differences of the left perturbation Exp(tau)@X (group inputs)
    / plain differences (algebra, point inputs); last slot zero; float32 gradients finite and within sqrt(eps)-level agreement; evaluation
    points: generic, identity / zero, tiny, large rotation away from pi"""
    import torch, math, pypose as pp
    N = 25 if tier == 'quick' else 300
    fails = []; evals = 0; samples = []
    torch.manual_seed(rng.randrange(1 << 30))
    def gen(kind, depth, g, leaves):
        """returns (callable(env)->value, text)"""
        if depth == 0 or rng.random() < 0.15:
            name = rng.choice([k for k in leaves if leaves[k] == kind])
            return (lambda e, name=name: e[name]), name
        if kind == 'G':
            c = rng.choice(['mul', 'inv', 'exp', 'retr'])
            if c == 'mul':
                a, ta = gen('G', depth - 1, g, leaves); b, tb = gen('G', depth - 1, g, leaves); return (lambda e: a(e) @ b(e)), f'({ta}@{tb})'
            if c == 'inv':
                a, ta = gen('G', depth - 1, g, leaves); return (lambda e: a(e).Inv()), f'{ta}.Inv()'
            if c == 'exp':
                a, ta = gen('A', depth - 1, g, leaves); return (lambda e: a(e).Exp()), f'{ta}.Exp()'
            a, ta = gen('G', depth - 1, g, leaves); b, tb = gen('A', depth - 1, g, leaves); return (lambda e: a(e).Retr(b(e))), f'{ta}.Retr({tb})'
        if kind == 'A':
            c = rng.choice(['log', 'adj', 'adjt', 'scale'])
            if c == 'log':
                a, ta = gen('G', depth - 1, g, leaves); return (lambda e: a(e).Log()), f'{ta}.Log()'
            if c == 'scale':
                a, ta = gen('A', depth - 1, g, leaves); return (lambda e: a(e) * 0.5), f'({ta}*0.5)'
            a, ta = gen('G', depth - 1, g, leaves); b, tb = gen('A', depth - 1, g, leaves)
            if c == 'adj': return (lambda e: a(e).Adj(b(e))), f'{ta}.Adj({tb})'
            return (lambda e: a(e).AdjT(b(e))), f'{ta}.AdjT({tb})'
        if kind == 'P':
            c = rng.choice(['act', 'act4', 'matrix'])
            a, ta = gen('G', depth - 1, g, leaves); b, tb = gen('P', depth - 1, g, leaves)
            if c == 'act': return (lambda e: a(e).Act(b(e))), f'{ta}.Act({tb})'
            if c == 'act4': return (lambda e: a(e).Act(torch.cat([b(e), torch.ones_like(b(e)[..., :1]) * 0.7], -1))[..., :3]), f'{ta}.Act4({tb})'
            return (lambda e: (a(e).matrix()[..., :3, :3] @ b(e).unsqueeze(-1)).squeeze(-1)), f'{ta}.matrix()@{tb}'
    for t in range(N):
        g = rng.choice(GROUPS)
        leaves = {'X': 'G', 'Y': 'G', 'a': 'A', 'p': 'P'}
        kind = rng.choice(['A', 'P'])
        f, text = gen(kind, rng.randrange(2, 7), g, leaves)
        randn = getattr(pp, 'randn_' + g); randa = getattr(pp, 'randn_' + S.ALG[g])
        point = rng.choice(['generic', 'identity', 'tiny', 'large'])
        sig = {'generic': 1.0, 'identity': 0.0, 'tiny': 1e-9, 'large': 2.5}[point]
        if g == 'Sim3' and sig > 0.1: sig = 0.1        # sim3 Exp/Log Jacobians are truncated series: agreement only up to C |ad(xi)|^6
        d = torch.float64
        def inputs(dtype):
            torch.manual_seed(1000 + t)
            X = randn(sigma=sig, dtype=dtype) if sig > 0 else getattr(pp, 'identity_' + g)(dtype=dtype)
            Y = randn(sigma=0.5 if g != 'Sim3' else 0.1, dtype=dtype); a = randa(sigma=min(sig, 1.0), dtype=dtype) if sig > 0 else randa(dtype=dtype) * 0
            p = torch.randn(3, dtype=dtype)
            return X, Y, a, p
        w = None
        def scalar(X, Y, a, p):
            out = f(dict(X=X, Y=Y, a=a, p=p))
            out = out.tensor() if hasattr(out, 'ltype') else out
            nonlocal w
            if w is None or w.shape != out.shape: w = torch.linspace(0.3, 1.1, out.numel(), dtype=torch.float64).reshape(out.shape)
            return (w.to(out.dtype) * out).sum()
        try:
            X, Y, a, p = inputs(d)
            Xl, Yl, al, pl = (z.clone().requires_grad_(True) for z in (X, Y, a, p))
            val = scalar(Xl, Yl, al, pl)
            grads = torch.autograd.grad(val, [Xl, Yl, al, pl], allow_unused=True)
        except Exception as e:
            fails.append(dict(clause='program_raises', signature=f'{g}/{point}', program=text, error=f'{type(e).__name__}: {e}'[:160])); continue
        evals += 1
        h = 1e-6
        dof = S.DOF[g]
        ok = True
        for name, lt, gr in (('X', X, grads[0]), ('Y', Y, grads[1])):
            if gr is None: continue
            if not bool(torch.isfinite(gr).all()):
                fails.append(dict(clause='gradient_finite', signature=f'{g}/{point}/float64', program=text)); ok = False; break
            if float(gr.tensor()[..., -1].abs().max() if hasattr(gr, 'ltype') else gr[..., -1].abs().max()) != 0.0:
                fails.append(dict(clause='last_slot_zero', signature=f'{g}/{point}', program=text))
            fd = []
            for j in range(dof):
                tau = torch.zeros(dof, dtype=d); tau[j] = h
                Ep = pp.LieTensor(tau, ltype=getattr(pp, S.ALG[g] + '_type')).Exp(); Em = pp.LieTensor(-tau, ltype=getattr(pp, S.ALG[g] + '_type')).Exp()
                args_p = dict(X=X, Y=Y, a=a, p=p); args_m = dict(args_p)
                args_p[name] = Ep @ lt; args_m[name] = Em @ lt
                fd.append((float(scalar(**args_p)) - float(scalar(**args_m))) / (2 * h))
            fd = torch.tensor(fd, dtype=d)
            gt = (gr.tensor() if hasattr(gr, 'ltype') else gr)[..., :dof]
            err = float((gt - fd).abs().max()) / (1 + float(fd.abs().max()))
            tol = 2e-5 if g != 'Sim3' else 2e-3          # sim3 Exp/Log Jacobians are the documented truncation
            if err > tol:
                fails.append(dict(clause='left_perturbation_jacobian', signature=f'{g}/{point}', program=text, input=name, err=err)); ok = False
        if grads[2] is not None:
            fd = []
            for j in range(a.shape[-1]):
                e_ = torch.zeros_like(a.tensor()); e_[j] = h
                fd.append((float(scalar(X, Y, pp.LieTensor(a.tensor() + e_, ltype=a.ltype), p)) - float(scalar(X, Y, pp.LieTensor(a.tensor() - e_, ltype=a.ltype), p))) / (2 * h))
            err = float(((grads[2].tensor() if hasattr(grads[2], 'ltype') else grads[2]) - torch.tensor(fd, dtype=d)).abs().max()) / (1 + max(abs(v) for v in fd))
            if err > (2e-5 if g != 'Sim3' else 2e-3):
                fails.append(dict(clause='algebra_input_jacobian', signature=f'{g}/{point}', program=text, err=err))
        # float32: finite and sqrt(eps)-level agreement
        try:
            X3, Y3, a3, p3 = inputs(torch.float32)
            Xl, Yl, al, pl = (z.clone().requires_grad_(True) for z in (X3, Y3, a3, p3))
            w = None
            v3 = scalar(Xl, Yl, al, pl)
            g3 = torch.autograd.grad(v3, [Xl, Yl, al, pl], allow_unused=True)
            for gr, gr64 in zip(g3, grads):
                if gr is None or gr64 is None: continue
                a_, b_ = (gr.tensor() if hasattr(gr, 'ltype') else gr).double(), (gr64.tensor() if hasattr(gr64, 'ltype') else gr64)
                if not bool(torch.isfinite(a_).all()):
                    fails.append(dict(clause='gradient_finite', signature=f'{g}/{point}/float32', program=text)); break
        except Exception as e:
            fails.append(dict(clause='program_raises', signature=f'{g}/{point}/float32', program=text, error=f'{type(e).__name__}: {e}'[:160]))
        w = None
        if t < 3: samples.append(dict(group=g, point=point, program=text))
    uniq = {}
    for f_ in fails: uniq.setdefault((f_['clause'], f_['signature']), f_)
    return dict(evaluations=evals, distinct_nontrivial=evals, rule='random well-typed trees of depth 2..6 with algebra / point valued roots; one evaluation per (program, point)',
                bound=f'{N} programs, depth <= 6', failures=list(uniq.values())[:10], samples=samples)
