"""C07 - a GN/LM step is the documented damped, weighted linear solve on the manifold.

The real GaussNewton.step / LevenbergMarquardt.step bodies are traced with by-contract stubs:
  modjac  -> abstract Jacobian blocks J[r][p] of shape residual.shape + param.shape whose last slot is zero
             for group parameters (that is C04's postcondition: left-perturbation coordinates, last slot 0),
  model   -> abstract residual tensors,   solver -> recorder returning an abstract step,
  strategy-> recorder handing out a fresh damping after every trial,  loss -> scripted to force k rejections.
Obligations: the (A, b) seen by the solver equal the documented ones for every weight shape of the
documentation; the parameters move by + (Euclidean / algebra) resp. Exp(delta) @ X (group), in parameter
order; frozen parameters are untouched.
"""
from fractions import Fraction as Q
from pvc.registry import obligation, bounded, property_meta
from contracts.common import *

property_meta('C07', level='proof', min_obligations=20,
              trusted_base=['C04: modjac returns the Jacobian in left-perturbation coordinates with a zero last slot for group parameters (torch.autograd.functional.jacobian / vmap trusted)',
                            'C05/C01: LieTensor.add_ is the retraction Exp(delta[:dof]) @ X',
                            'assumed Moore-Penrose / Cholesky contracts of the solvers are C10'],
              assumptions=['shape set traced: residuals (2,3) | (1,2)+(3,1); parameters Euclidean (2,), SE3 (1,7), so3 (1,3); weights None, R*R, N*R*R, list; all entries symbolic'],
              explanation='solver arguments and parameter update of the real step bodies equal the documented formulas, entries symbolic')

OPT = 'pypose.optim.optimizer'


def sym_tensor(env, name, shape, **kw):
    T = env.T
    n = 1
    for s in shape: n *= s
    return env.vec(name, n, **kw).reshape(*shape)


class Setup:
    """model with the requested parameters, abstract residuals and Jacobian blocks, recorder solver"""
    def __init__(self, env, res_shapes, params, frozen=()):
        self.env = env
        optm = env.load(OPT); pp = env.load('pypose'); T = env.T
        nn = T.nn
        self.optm, self.pp = optm, pp
        vals = {}
        for name, kind in params:
            if kind == 'euclid': vals[name] = nn.Parameter(env.vec(name, 2))
            elif kind == 'SE3': vals[name] = pp.Parameter(lie(pp, 'SE3', group_elem(env, 'SE3', name).reshape(1, 7)))
            elif kind == 'so3': vals[name] = pp.Parameter(alg(pp, 'SO3', env.vec(name, 3).reshape(1, 3)))
            if name in frozen: vals[name].requires_grad = False
        class Model(nn.Module):
            def __init__(self):
                super().__init__()
                for k, v in vals.items(): setattr(self, k, v)
            def forward(self, inp): raise AssertionError('stubbed')
        self.model = Model()
        self.params = [(n, k, vals[n]) for n, k in params]
        self.R = [sym_tensor(env, f'R{i}_', s) for i, s in enumerate(res_shapes)]
        self.J = []
        for i, s in enumerate(res_shapes):
            row = []
            for n, k, p in self.params:
                blk = sym_tensor(env, f'J{i}{n}_', tuple(s) + tuple(p.shape))
                if k == 'SE3':
                    blk = T.cat([blk[..., 0:6], blk[..., 6:7] * 0], -1)      # C04: last slot zero
                row.append(blk)
            self.J.append(tuple(row))
        self.calls = []
        outer = self
        class Solver:
            def __call__(self, A, b):
                outer.calls.append((A.clone(), b.clone()))
                n = A.shape[-1]
                return env.vec(f'delta{len(outer.calls)}_', n).reshape(n, 1)
        self.solver = Solver()

    def install(self, opt):
        env = self.env
        rm = opt.model
        object.__setattr__(rm, 'forward', lambda inp, target=None: tuple(self.R))
        env.stub(self.optm, 'modjac', lambda model, input=None, **k: tuple(self.J))

    # ---- spec (from the documentation)
    def stacked(self):
        T = self.env.T
        r = T.cat([x.reshape(-1) for x in self.R], 0)
        rows = []
        for i, x in enumerate(self.R):
            m = x.numel()
            rows.append(T.cat([blk.reshape(m, -1) for blk in self.J[i]], 1))
        return r, T.cat(rows, 0)

    def weight_matrix(self, weights):
        """block diagonal expansion: one R*R block per residual item, broadcast over leading dims (row-major)"""
        T = self.env.T
        weights = weights if isinstance(weights, (list, tuple)) else [weights]
        blocks = []
        for w, x in zip(weights, self.R):
            d = x.shape[-1]
            if d == 1 and tuple(w.shape[-2:]) != (1, 1): w = w.reshape(tuple(w.shape) + (1, 1))
            lead = x.shape[:-1]
            wb = w.expand(*lead, d, d) if tuple(w.shape[:-2]) != tuple(lead) else w
            wb = wb.reshape(-1, d, d)
            for k in range(wb.shape[0]): blocks.append(wb[k])
        return T.block_diag(*blocks)

    def expected_params(self, delta):
        """parameters after the update: + for Euclidean / algebra, Exp(delta[:dof]) @ X for groups"""
        env = self.env; op = env.load(OPS); T = env.T
        out = []; pos = 0
        for n, k, p in self.params:
            sz = p.numel()
            if not p.requires_grad:
                out.append(raw(p).clone()); continue
            d = delta.reshape(-1)[pos:pos + sz]; pos += sz
            if k == 'SE3':
                out.append(op.SE3_Mul.forward(op.se3_Exp.forward(d[0:6]), raw(p).reshape(7)).reshape(1, 7))
            else:
                out.append(raw(p) + d.reshape(p.shape))
        return out


def check_update(env, S_, before_exp):
    for (n, k, p), e in zip(S_.params, before_exp):
        env.eq(f'parameter {n} ({k}) updated as documented', raw(p), e)


WEIGHTS = {'none': ((2, 3), None), 'RxR': ((2, 3), (3, 3)), 'NxRxR': ((2, 3), (2, 3, 3)),
           'suffix_NxRxR': ((2, 2, 2), (2, 2, 2)),      # weight batch is a proper suffix of the residual batch (row-major tiling)
           'N_1x1': ((2, 3, 1), (3, 1, 1))}             # residual items of size 1: documented N*R*R with R = 1

for wname, (rshape, wshape) in WEIGHTS.items():
    def mk(wname=wname, wshape=wshape, rshape=rshape):
        @obligation(f'C07.GN.step.weight_{wname}', functions=[f'{OPT}:GaussNewton.step', f'{OPT}:RobustModel.normalize_RWJ',
                                                               f'{OPT}:RobustModel.flatten_row_jacobian', f'{OPT}:RobustModel.residuals',
                                                               f'{OPT}:_Optimizer.update_parameter', f'{LT}:SE3Type.add_'], max_paths=16)
        def gn(env):
            T = env.T
            S_ = Setup(env, [rshape], [('p', 'euclid'), ('X', 'SE3')])
            opt = S_.optm.GaussNewton(S_.model, solver=S_.solver)
            S_.install(opt)
            object.__setattr__(opt.model, 'loss', lambda *a, **k: T.zeros(()) if not env.sym else T.tensor(0))
            W = None if wshape is None else sym_tensor(env, 'W', wshape)
            exp_after = None
            opt.step(None, weight=W)
            env.holds('exactly one solve', len(S_.calls) == 1)
            A, b = S_.calls[0]
            r, J = S_.stacked()
            if W is None:
                env.eq('solver matrix is J', A, J); env.eq('solver rhs is -R', b.reshape(-1), -r)
            else:
                Wm = S_.weight_matrix(W)
                env.eq('solver matrix is W J', A, Wm @ J); env.eq('solver rhs is -W R', b.reshape(-1), -(Wm @ r))
        mk_ = gn
    mk()


@obligation('C07.GN.step.update', functions=[f'{OPT}:GaussNewton.step', f'{OPT}:_Optimizer.update_parameter', f'{LT}:SE3Type.add_', f'{LT}:LieType.add_'], max_paths=16)
def gn_update(env):
    T = env.T
    S_ = Setup(env, [(1, 2)], [('p', 'euclid'), ('X', 'SE3'), ('a', 'so3')])
    opt = S_.optm.GaussNewton(S_.model, solver=S_.solver)
    S_.install(opt)
    object.__setattr__(opt.model, 'loss', lambda *a, **k: T.tensor(0) if env.sym else T.zeros(()))
    before = [raw(p).clone() for _, _, p in S_.params]
    # expected from the step the (recorder) solver will return: delta1_
    opt.step(None)
    delta = env.vec('delta1_', 12) if False else None
    A, b = S_.calls[0]
    env.holds('solver unknowns = total parameter entries (Euclidean 2 + SE3 7 + so3 3)', A.shape[-1] == 12)
    # re-derive the expected parameters from the recorded delta (the solver's return value)
    d = env.sample.get('delta1_') if not env.sym else None
    dl = T.tensor(d, dtype=before[0].dtype) if d is not None else _declared(env, 'delta1_')
    # restore 'before' values into a copy for the spec
    exp = []
    pos = 0
    op = env.load(OPS)
    for (n, k, p), b0 in zip(S_.params, before):
        sz = p.numel(); dd = dl.reshape(-1)[pos:pos + sz]; pos += sz
        if k == 'SE3': exp.append(op.SE3_Mul.forward(op.se3_Exp.forward(dd[0:6]), b0.reshape(7)).reshape(1, 7))
        else: exp.append(b0 + dd.reshape(b0.shape))
    check_update(env, S_, exp)
    env.holds('group parameter keeps its ltype', S_.params[1][2].ltype is S_.pp.SE3_type)


def _declared(env, name):
    """the symbolic tensor declared earlier under `name` (sym mode)"""
    from pvc import storch as st, algebra as A
    for d in env.decls:
        if d.name == name:
            return st.tensor([A.Frac.var(v) for v in d.vids])
    raise KeyError(name)


@obligation('C07.GN.step.two_residuals', functions=[f'{OPT}:GaussNewton.step', f'{OPT}:RobustModel.normalize_RWJ'], max_paths=16)
def gn_two(env):
    T = env.T
    S_ = Setup(env, [(1, 2), (3, 1)], [('p', 'euclid'), ('X', 'SE3')])
    opt = S_.optm.GaussNewton(S_.model, solver=S_.solver)
    S_.install(opt)
    object.__setattr__(opt.model, 'loss', lambda *a, **k: T.tensor(0) if env.sym else T.zeros(()))
    W = [sym_tensor(env, 'Wa', (2, 2)), sym_tensor(env, 'Wb', (1,))]
    opt.step(None, weight=W)
    A, b = S_.calls[0]
    r, J = S_.stacked()
    Wm = S_.weight_matrix(W)
    env.eq('stacked residuals in output order, rows of J in the same order', A, Wm @ J)
    env.eq('solver rhs is -W R', b.reshape(-1), -(Wm @ r))


@obligation('C07.LM.step.trials', functions=[f'{OPT}:LevenbergMarquardt.step', f'{OPT}:RobustModel.normalize_RWJ', f'{OPT}:LevenbergMarquardt.update_parameter'],
            max_paths=64)
def lm_trials(env):
    """k-th trial solves A_k delta = -J^T W R with A_0 = clamp_diag(J^T W J, min, max), A_k = A_{k-1} + lambda_k diag(A_{k-1})"""
    T = env.T
    S_ = Setup(env, [(2, 3)], [('p', 'euclid')])
    lams = []
    class Strategy:
        defaults = {'damping': Q(1, 100) if env.sym else 0.01}
        def update(self, pg, *a, **k):
            pg['damping'] = env.scalar(f'lam{len(lams) + 2}', positive=True)[0]
            lams.append(pg['damping'])
    mn = env.scalar('min', positive=True)[0]; mx = mn + env.scalar('width', positive=True)[0]
    opt = S_.optm.LevenbergMarquardt(S_.model, solver=S_.solver, strategy=Strategy(), reject=2, min=mn, max=mx)
    S_.install(opt)
    # scripted losses: every trial is worse, so 3 trials (reject = 2) are made
    seq = iter([1, 2, 3, 4, 5, 6])
    object.__setattr__(opt.model, 'loss', lambda *a, **k: (T.tensor(next(seq)) if env.sym else T.tensor(float(next(seq)))))
    W = sym_tensor(env, 'W', (3, 3))
    r, J = S_.stacked()
    Wm = S_.weight_matrix(W)
    H = J.transpose(-1, -2) @ Wm @ J
    lam1 = opt.param_groups[0]['damping']
    opt.step(None, weight=W)
    env.holds('reject + 1 = 3 trials', len(S_.calls) == 3)
    cl = []
    for i in range(H.shape[0]):
        d0 = H[i, i]
        cl.append((mn if bool(d0 < mn) else (mx if bool(d0 > mx) else d0)).reshape(1) if hasattr(d0, 'reshape') else d0)
    A0 = H - T.diag(T.diagonal(H)) + T.diag(T.cat([c + H[0:1, 0] * 0 for c in cl], 0))
    Ak = A0
    for k, lam in enumerate([lam1] + lams[:2]):
        Ak = Ak + lam * T.diag(T.diagonal(Ak))
        A, b = S_.calls[k]
        env.eq(f'trial {k + 1}: matrix is A_k = A_(k-1) + lambda_k diag(A_(k-1))', A, Ak)
        env.eq(f'trial {k + 1}: rhs is -J^T W R', b.reshape(-1), -(J.transpose(-1, -2) @ Wm @ r))


@obligation('C07.LM.step.clamp_before_damping', functions=[f'{OPT}:LevenbergMarquardt.step'], max_paths=32)
def lm_clamp_first(env):
    """one trial on a one-parameter problem: the system solved is clamp(J^T W J, min, max) * (1 + lambda) - the documented order, clamp FIRST, damping
    on the clamped diagonal (so the damped diagonal may exceed max and a diagonal below min is lifted to min before it is damped)"""
    T = env.T
    S_ = Setup(env, [(1, 2)], [('p', 'euclid')])
    class Strategy:
        defaults = {'damping': Q(1, 100) if env.sym else 0.01}
        def update(self, pg, *a, **k): pass
    lam = env.scalar('lam', positive=True)[0]
    mn = env.scalar('min', positive=True)[0]; mx = mn + env.scalar('width', positive=True)[0]
    opt = S_.optm.LevenbergMarquardt(S_.model, solver=S_.solver, strategy=Strategy(), reject=0, min=mn, max=mx)
    S_.install(opt)
    opt.param_groups[0]['damping'] = lam
    seq = iter([1, 2, 3])
    object.__setattr__(opt.model, 'loss', lambda *a, **k: (T.tensor(next(seq)) if env.sym else T.tensor(float(next(seq)))))
    r, J = S_.stacked()
    H = J.transpose(-1, -2) @ J
    opt.step(None)
    env.holds('reject + 1 = 1 trial', len(S_.calls) == 1)
    A, b = S_.calls[0]
    for i in range(H.shape[0]):
        d0 = H[i, i]
        c = mn if bool(d0 < mn) else (mx if bool(d0 > mx) else d0)
        env.eq(f'diagonal entry {i} is clamp(h_ii, min, max) * (1 + lambda)', A[i, i], (c + d0 * 0) * (1 + lam))
        for j in range(H.shape[0]):
            if i != j: env.eq(f'off-diagonal entry {i}{j} is h_ij', A[i, j], H[i, j])


@obligation('C07.frozen_parameter', functions=[f'{OPT}:_Optimizer.update_parameter', f'{OPT}:GaussNewton.step'], max_paths=16)
def frozen(env):
    """parameters with requires_grad=False are untouched and the others are still updated"""
    T = env.T
    S_ = Setup(env, [(1, 2)], [('q', 'euclid'), ('p', 'euclid')], frozen=('q',))
    opt = S_.optm.GaussNewton(S_.model, solver=S_.solver)
    S_.install(opt)
    object.__setattr__(opt.model, 'loss', lambda *a, **k: T.tensor(0) if env.sym else T.zeros(()))
    q0 = raw(S_.params[0][2]).clone(); p0 = raw(S_.params[1][2]).clone()
    env.no_raise('step_with_a_frozen_parameter_completes', Exception, lambda: opt.step(None))
    env.eq('frozen parameter untouched', raw(S_.params[0][2]), q0)


@obligation('C07.canary.unweighted_rhs', functions=[f'{OPT}:GaussNewton.step'], canary=True, max_paths=16)
def canary(env):
    T = env.T
    S_ = Setup(env, [(2, 3)], [('p', 'euclid')])
    opt = S_.optm.GaussNewton(S_.model, solver=S_.solver)
    S_.install(opt)
    object.__setattr__(opt.model, 'loss', lambda *a, **k: T.tensor(0) if env.sym else T.zeros(()))
    W = sym_tensor(env, 'W', (3, 3))
    opt.step(None, weight=W)
    A, b = S_.calls[0]
    r, J = S_.stacked()
    env.eq('rhs without weight', b.reshape(-1), -r)


def corrector_order(env, configs=None):
    """R and J are first passed through the configured corrector (per residual; a single corrector serves every residual), then weighted"""
    T = env.T
    for cls_name in ('GaussNewton', 'LevenbergMarquardt'):
        for single in (False, True):
            if configs is not None and (cls_name, single) not in configs: continue
            S_ = Setup(env, [(1, 2), (3, 1)], [('p', 'euclid')])
            seen = []
            class Corr(T.nn.Module):
                def __init__(self, k): super().__init__(); self.k = k
                def forward(self, R, J):
                    seen.append((self.k, R.shape, J.shape))
                    return R * (self.k + 1), J * (self.k + 2)
            cls = getattr(S_.optm, cls_name)
            ks = (2, 2) if single else (1, 4)
            kw = dict(solver=S_.solver, corrector=Corr(2) if single else [Corr(1), Corr(4)])
            if cls_name == 'LevenbergMarquardt':
                class Strategy:
                    defaults = {'damping': Q(1, 100) if env.sym else 0.01}
                    def update(self, pg, *a, **k): pass
                kw.update(strategy=Strategy(), reject=0)
            opt = cls(S_.model, **kw)
            S_.install(opt)
            object.__setattr__(opt.model, 'loss', lambda *a, **k: T.tensor(0) if env.sym else T.zeros(()))
            tag = f'{cls_name}{"/one corrector for every residual" if single else ""}'
            W = [sym_tensor(env, f'Wa{cls_name}{int(single)}', (2, 2)), sym_tensor(env, f'Wb{cls_name}{int(single)}', (1,))]
            opt.step(None, weight=W)
            A, b = S_.calls[0]
            env.holds(f'{tag}: corrector k is applied to residual k only, once' if not single else f'{tag}: applied to each residual once', [s[0] for s in seen] == list(ks))
            rows = []; rs = []
            for i, (x, k) in enumerate(zip(S_.R, ks)):
                m = x.numel()
                rows.append(T.cat([blk.reshape(m, -1) for blk in S_.J[i]], 1) * (k + 2)); rs.append(x.reshape(-1) * (k + 1))
            Jc, rc = T.cat(rows, 0), T.cat(rs, 0)
            Wm = S_.weight_matrix(W)
            if cls_name == 'GaussNewton':
                env.eq(f'{tag}: solver sees W Jc and -W Rc of the corrected residuals' if single else 'GN: solver sees W Jc and -W Rc of the corrected residuals',
                       T.cat([A, b], -1), T.cat([Wm @ Jc, -(Wm @ rc).unsqueeze(-1)], -1))
            else:
                env.eq(f'{tag}: rhs is -Jc^T W Rc of the corrected residuals' if single else 'LM: rhs is -Jc^T W Rc of the corrected residuals',
                       b.reshape(-1), -(Jc.transpose(-1, -2) @ Wm @ rc))
CORRECTOR_CONTRACTS = {}
for _cls in ('GaussNewton', 'LevenbergMarquardt'):
    for _single in (False, True):
        def _mk(c=_cls, s_=_single):
            def f(env): return corrector_order(env, configs=[(c, s_)])
            f.__doc__ = corrector_order.__doc__
            return f
        CORRECTOR_CONTRACTS[(_cls, _single)] = _mk()
        obligation(f'C07.corrector_before_weight.{_cls}' + ('.single' if _single else ''), functions=[f'{OPT}:{_cls}.step'], max_paths=16)(CORRECTOR_CONTRACTS[(_cls, _single)])


# the clamp of diag(J^T W J) reads min / max from the parameter group, which LevenbergMarquardt.__init__ merges with the strategy's
# defaults and every strategy update mutates: that the group's min / max are and stay LM's own bounds under each real strategy is
# part of the strategy contracts (stated once, in c08_lm.py: check_lm_bounds) and discharged in this check too.
from contracts import c08_lm as _c08
for _nm, _fn in (('Constant', _c08.s_const), ('Adaptive', _c08.s_adapt), ('TrustRegion', _c08.s_tr)):
    obligation(f'C07.callee.strategy.{_nm}', functions=[f'{OPT}:LevenbergMarquardt.__init__', f'pypose.optim.strategy:{_nm}.__init__', f'pypose.optim.strategy:{_nm}.update'],
               max_paths=128, note='callee contract assumed by C07.LM.step.trials (same contract function as C08.strategy.*)')(_fn)


for _cls in ('GaussNewton', 'LevenbergMarquardt'):
    def mk(cls_name=_cls):
        @obligation(f'C07.{cls_name}.weight_is_per_call', functions=[f'{OPT}:{cls_name}.step', f'{OPT}:{cls_name}.__init__'], max_paths=32)
        def per_call(env):
            """a weight passed to step() applies to that call only: the next call without one uses the constructor weight (or none)"""
            T = env.T
            for ctor in (True, False):
                S_ = Setup(env, [(1, 2)], [('p', 'euclid')])
                tag = 'constructor weight W0' if ctor else 'no constructor weight'
                kw = dict(solver=S_.solver)
                if cls_name == 'LevenbergMarquardt':
                    # keep the diagonal clamp of J^T W J inactive without forking: J = I, diagonal weights in (1, max)
                    S_.J = [(T.eye(2).reshape(1, 2, 2) if env.sym else T.eye(2, dtype=S_.R[0].dtype).reshape(1, 2, 2),)]
                    d = [1 + env.scalar(f'd{int(ctor)}{i}', positive=True, regimes=('generic',))[0] for i in range(4)]
                    z = d[0] * 0
                    W0 = T.stack([T.stack([d[0], z]), T.stack([z, d[1]])]); W1 = T.stack([T.stack([d[2], z]), T.stack([z, d[3]])])
                    class Strategy:
                        defaults = {'damping': Q(1, 100) if env.sym else 0.01}
                        def update(self, pg, *a, **k): pass
                    kw.update(strategy=Strategy(), reject=0, min=Q(1, 2) if env.sym else 0.5, max=d[0] + d[1] + d[2] + d[3] + 1)
                else:
                    W0 = sym_tensor(env, f'W0{int(ctor)}', (2, 2)); W1 = sym_tensor(env, f'W1{int(ctor)}', (2, 2))
                if ctor: kw['weight'] = W0
                opt = getattr(S_.optm, cls_name)(S_.model, **kw)
                S_.install(opt)
                seq = iter([5, 4, 3, 2, 1, 0, 0, 0])
                object.__setattr__(opt.model, 'loss', lambda *a, **k: (T.tensor(next(seq)) if env.sym else T.tensor(float(next(seq)))))
                r, J = S_.stacked()
                opt.step(None, weight=W1)
                opt.step(None)
                env.holds(f'{tag}: one solve per call', len(S_.calls) == 2)
                def rhs(W): return -(J.transpose(-1, -2) @ W @ r) if cls_name == 'LevenbergMarquardt' else -(W @ r)
                I2 = T.eye(2) if env.sym else T.eye(2, dtype=r.dtype)
                env.eq(f'{tag}: the call given W1 uses W1', S_.calls[0][1].reshape(-1), rhs(W1))
                env.eq(f'{tag}: the next call without a weight uses ' + ('W0' if ctor else 'no weight'), S_.calls[1][1].reshape(-1), rhs(W0 if ctor else I2))
    mk()


# "all solvers": the steps above are stated for whatever the solver returns; that each shipped direct solver returns the solution of the
# system it is handed, under each of its options, is its own contract (c10_solvers.py), discharged in this check too.
from contracts import c10_solvers as _c10
for _nm, _fn in (('PINV', _c10.pinv_), ('LSTSQ', _c10.lstsq_), ('Cholesky', _c10.chol), ('Cholesky.upper', _c10.chol_upper), ('Cholesky.batch', _c10.chol_batch)):
    obligation(f'C07.callee.solver.{_nm}', functions=[f'pypose.optim.solver:{_nm.split(".")[0]}.forward'], max_paths=32, no_validate=True,
               note='callee contract of the solver handed to GN / LM (same contract function as C10)')(_fn)


@obligation('C07.input_forms', functions=[f'{OPT}:RobustModel.model_forward', f'{OPT}:RobustModel.forward'], max_paths=8)
def input_forms(env):
    """the residual the steps linearise is model(input) for every documented form of `input`: a tensor is THE argument, a tuple is the positional
    arguments, a dict is the KEYWORD arguments - bound by name, whatever the order of its keys"""
    optm = env.load(OPT); T = env.T
    a, b = env.vec('a', 2), env.vec('b', 2)
    class M2(T.nn.Module):
        def __init__(self): super().__init__(); self.w = T.nn.Parameter(T.zeros(1))
        def forward(self, src, dst): return src * 2 - dst * 3
    class M1(T.nn.Module):
        def __init__(self): super().__init__(); self.w = T.nn.Parameter(T.zeros(1))
        def forward(self, x): return x * 5
    rm = optm.RobustModel(M2()); want = a * 2 - b * 3
    env.eq('a tuple is the positional arguments', rm.model_forward((a, b)), want)
    env.eq('a dict in the order of the signature', rm.model_forward({'src': a, 'dst': b}), want)
    env.eq('a dict is bound by NAME (keys in another order)', rm.model_forward({'dst': b, 'src': a}), want)
    env.eq('a tensor is the single argument', optm.RobustModel(M1()).model_forward(a), a * 5)


# "X <- Exp(delta) X for group parameters": update_parameter hands the increment to the parameter's own add_ (C07.GN.step.update checks the
# hand-over on an SE3 parameter); that add_ IS the left retraction for every group type - also for an increment of the group's storage
# width - is the retraction contract of c05_tangent.py, discharged in this check too for every group type.
from contracts import c05_tangent as _c05
from pvc import registry as _R
for _g in GROUPS:
    obligation(f'C07.callee.retraction.{_g}', functions=[f'{LT}:{_g}Type.add_', f'{LT}:LieTensor.add_', f'{LT}:LieType.add_', f'{LT}:LieType.Retr'], max_paths=32,
               note='callee contract of the parameter update (same contract function as C05.{g}.Retr_add)')(_R.OBLIGATIONS[f'C05.{_g}.Retr_add'].fn)

# the direct solvers in floating point (consistent and least-squares systems up to condition 1e8, both dtypes): the bounded stand-in of
# c10_solvers.py is run in this check too - "the step is the least-squares solution with the default solver" is a statement about what
# PINV returns in float arithmetic as well (normal-equation shortcuts square the condition number and pass every exact-arithmetic contract)
bounded('C07.callee.solver.float', functions=['pypose.optim.solver:PINV.forward', 'pypose.optim.solver:LSTSQ.forward', 'pypose.optim.solver:Cholesky.forward'])(_c10.direct_float)
