"""C20 - stopping controllers stop exactly on their documented conditions, within budget.

Per-step contracts (real StopOnPlateau.step / ReduceToBason.step from an ARBITRARY symbolic state):
post-state = transition of the spec automaton taken from the property statement.  Because the contract
holds from every state, the claims "true until, false from the first stopping step", "stays false until
reset" and "at most `steps` controller steps" follow by induction over the loss history (inductive
invariant: _continual => steps < max_steps; ghost: run length = patience_count).
Driver loops (scheduler.optimize, MPC.forward, ICP.forward) are cut mechanically at their `while`.
"""
from fractions import Fraction as Q
from pvc.registry import obligation, bounded, property_meta
from pvc import loopcut
from contracts.common import *

property_meta('C20', level='proof', min_obligations=30,
              trusted_base=['induction over the loss history from the per-step contracts (stated in this file)',
                            'frame of the driver-loop bodies: the stubbed callees (optimizer.step, lqr, knn, svdtf) do not touch controller state'],
              assumptions=['losses handed to ReduceToBason are positive (they are sums of squares / costs); batched losses are traced with one item'],
              explanation='Hoare-style per-step contracts over symbolic controller state, all paths; loop cut of the drivers')

SCH = 'pypose.optim.scheduler'
STP = 'pypose.utils.stepper'


def make_sop(env, continual):
    sch = env.load(SCH); optm = env.load('pypose.optim.optimizer')
    class Opt(optm._Optimizer):
        def __init__(self): pass
    o = Opt()
    o.last = env.scalar('last')[0]; o.loss = env.scalar('loss')[0]
    o.reject_count = env.scalar('rejects', nonneg=True, regimes=('zero', 'generic'))[0]
    s = sch.StopOnPlateau.__new__(sch.StopOnPlateau)
    s.optimizer, s.verbose = o, False
    s.max_steps = env.scalar('max_steps', positive=True)[0]
    s.steps = env.scalar('steps', nonneg=True, regimes=('zero', 'generic', 'large'))[0]
    s.patience = env.scalar('patience', positive=True)[0]
    s.patience_count = env.scalar('count', nonneg=True, regimes=('zero', 'generic'))[0]
    s.decreasing = env.scalar('decreasing')[0]
    s._continual = continual
    s.continual = sch._Scheduler.Continual(s)
    return s, o


for cont in (True, False):
    def mk(cont=cont):
        @obligation(f'C20.StopOnPlateau.step.from_{"running" if cont else "stopped"}', functions=[f'{SCH}:StopOnPlateau.step', f'{SCH}:_Scheduler.iscontinual'],
                    max_paths=64)
        def ob(env):
            s, o = make_sop(env, cont)
            n0, c0, M, P, d = s.steps, s.patience_count, s.max_steps, s.patience, s.decreasing
            last, loss, rej = o.last, o.loss, o.reject_count
            s.step(loss)
            # spec automaton (property statement)
            n1 = n0 + 1
            c1 = c0 + 1 if bool((last - loss) < d) else 0
            stop = bool(n1 >= M) or bool(c1 >= P) or bool(rej > 0)
            env.eq('steps_incremented_by_one', s.steps, n1)
            env.eq('patience_count_is_run_length_of_failed_decreases', s.patience_count, c1)
            env.holds('continual_is_previous_and_not_stop', s.continual() == (cont and not stop))
            env.holds('stays_false_once_false', (not cont) <= (not s.continual()))
            env.holds('invariant_continual_implies_steps_below_budget', (not s.continual()) or bool(s.steps < M))
            env.eq('controller_does_not_touch_optimizer', o.loss, loss)
    mk()


def make_rtb(env, continual, first):
    stp = env.load(STP)
    s = stp.ReduceToBason.__new__(stp.ReduceToBason)
    s.verbose = False
    s.max_steps = env.scalar('max_steps', positive=True)[0]
    s.steps = env.scalar('steps', nonneg=True, regimes=('zero', 'generic', 'large'))[0]
    s.patience = env.scalar('patience', positive=True)[0]
    s.patience_count = env.scalar('count', nonneg=True, regimes=('zero', 'generic'))[0]
    s.decreasing = env.scalar('decreasing')[0]
    s.tol = env.scalar('tol', positive=True)[0]
    s._continual = continual
    if first:
        s.last = env.T.tensor(float('inf'))
    else:
        s.last = env.scalar('last')            # losses of either sign (a quadratic cost with a linear term is negative at its optimum)
    return s


for cont in (True, False):
    for first in (True, False):
        def mk(cont=cont, first=first):
            @obligation(f'C20.ReduceToBason.step.from_{"running" if cont else "stopped"}{"_first" if first else ""}',
                        functions=[f'{STP}:ReduceToBason.step', f'{STP}:_Stepper.continual'], max_paths=64)
            def ob(env):
                s = make_rtb(env, cont, first)
                n0, c0, M, P, d, tol = s.steps, s.patience_count, s.max_steps, s.patience, s.decreasing, s.tol
                last = s.last
                loss = env.scalar('loss', positive=True) if first else env.scalar('loss')
                # first step: positive losses only - for a negative first loss (inf - loss)/loss = -inf counts a "failed decrease" that has no
                # predecessor; with any positive tol such a loss stops the controller by the tol rule anyway (DESIGN 3.1)
                env.assume('the loss is not exactly zero (the documented relative decrease divides by it)', (loss > 0) | (loss < 0))
                s.step(loss)
                n1 = n0 + 1
                if first:
                    failed = False                      # (inf - loss)/loss = inf is never below the threshold
                else:
                    failed = bool(((last - loss) / loss < d).all())
                c1 = c0 + 1 if failed else 0
                stop = bool((loss < tol).all()) or bool(n1 >= M) or bool(c1 >= P)
                env.eq('steps_incremented_by_one', s.steps, n1)
                env.eq('patience_count_is_run_length_of_failed_decreases', s.patience_count, c1)
                env.holds('continual_is_previous_and_not_stop', s.continual() == (cont and not stop))
                env.eq('last_loss_recorded', s.last, loss)
                env.holds('invariant_continual_implies_steps_below_budget', (not s.continual()) or bool(s.steps < M))
        mk()


@obligation('C20.ReduceToBason.reset', functions=[f'{STP}:_Stepper.reset', f'{STP}:ReduceToBason.__init__', f'{STP}:_Stepper.__init__'], max_paths=16)
def reset(env):
    """reset restores the initial state: the state after reset equals the state of a fresh controller"""
    stp = env.load(STP)
    s = make_rtb(env, False, False)
    M, P, d, tol = s.max_steps, s.patience, s.decreasing, s.tol
    s.reset()
    f = stp.ReduceToBason(steps=M, patience=P, decreasing=d, tol=tol)
    env.holds('continual_true', s.continual() is True and f.continual() is True)
    env.eq('steps_zero', s.steps, f.steps)
    env.eq('patience_count_zero', s.patience_count, f.patience_count)
    env.eq('last_is_infinite', s.last, f.last)
    env.eq('budget_unchanged', s.max_steps, f.max_steps)


@obligation('C20.StopOnPlateau.init', functions=[f'{SCH}:StopOnPlateau.__init__', f'{SCH}:_Scheduler.__init__'])
def sop_init(env):
    sch = env.load(SCH); optm = env.load('pypose.optim.optimizer')
    class Opt(optm._Optimizer):
        def __init__(self): pass
    M = env.scalar('max_steps', positive=True)[0]; P = env.scalar('patience', positive=True)[0]
    s = sch.StopOnPlateau(Opt(), steps=M, patience=P, decreasing=env.scalar('d')[0])
    env.holds('initially_continual', s.continual() is True)
    env.eq('initial_steps', s.steps, 0); env.eq('initial_count', s.patience_count, 0)
    env.eq('budget', s.max_steps, M)
    env.raises('non_optimizer_rejected', TypeError, lambda: sch.StopOnPlateau(object(), steps=M))


@obligation('C20.controllers.options_as_given', functions=[f'{STP}:ReduceToBason.__init__', f'{SCH}:StopOnPlateau.__init__'], max_paths=32)
def options_as_given(env):
    """the thresholds the stopping conditions are stated with are the ones the caller configured - also an explicit zero (tol = 0: never stop
    on tol for positive losses; decreasing = 0: equal losses are not failed decreases)"""
    stp = env.load(STP); sch = env.load(SCH); optm = env.load('pypose.optim.optimizer')
    class Opt(optm._Optimizer):
        def __init__(self): pass
    M = env.scalar('max_steps', positive=True)[0]; P = env.scalar('patience', positive=True)[0]
    d = env.scalar('d', regimes=('generic', 'zero'))[0]; tol = env.scalar('tol', regimes=('generic', 'zero'))[0]
    f = stp.ReduceToBason(steps=M, patience=P, decreasing=d, tol=tol)
    env.eq('ReduceToBason: decreasing as given', f.decreasing, d); env.eq('ReduceToBason: tol as given', f.tol, tol)
    env.eq('ReduceToBason: patience as given', f.patience, P); env.eq('ReduceToBason: budget as given', f.max_steps, M)
    for z in (0, 0.0):
        f0 = stp.ReduceToBason(steps=7, patience=3, decreasing=z, tol=z)
        env.holds(f'ReduceToBason: explicit zero thresholds ({z!r}) are kept', f0.decreasing == 0 and f0.tol == 0 and f0.patience == 3 and f0.max_steps == 7)
        s0 = sch.StopOnPlateau(Opt(), steps=7, patience=3, decreasing=z)
        env.holds(f'StopOnPlateau: explicit zero threshold ({z!r}) is kept', s0.decreasing == 0 and s0.patience == 3 and s0.max_steps == 7)
    s = sch.StopOnPlateau(Opt(), steps=M, patience=P, decreasing=d)
    env.eq('StopOnPlateau: decreasing as given', s.decreasing, d); env.eq('StopOnPlateau: patience as given', s.patience, P)


@bounded('C20.loss_precision', functions=[f'{STP}:ReduceToBason.step', f'{SCH}:StopOnPlateau.step'])
def loss_precision(rng, tier):
    """real code: the stopping decisions are taken on the losses AS GIVEN (float64 tensors, scalar or batched, python floats): relative
    decreases of 1e-8 per step against a threshold of 1e-9, and plateaus of huge losses (1e40), against a python-float model of the documented
    conditions"""
    import torch
    from pypose.utils.stepper import ReduceToBason
    fails = []; evals = 0
    def model(losses, steps, patience, decreasing, tol):
        last = float('inf'); count = 0; out = []
        cont = True
        for n, l in enumerate(losses, 1):
            stop = l < tol or n >= steps
            count = count + 1 if (last - l) / l < decreasing else 0
            last = l
            stop = stop or count >= patience
            cont = cont and not stop
            out.append(cont)
        return out
    cases = {'fine decreases (1e-8 relative, threshold 1e-9)': ([1.0 * (1 - 1e-8) ** k for k in range(8)], dict(steps=6, patience=2, decreasing=1e-9, tol=1e-30)),
             'plateau of huge losses (1e40)': ([1e40] * 8, dict(steps=6, patience=2, decreasing=1e-3, tol=1e-5)),
             'ordinary': ([1.0, 0.5, 0.4999, 0.49989, 0.49988, 0.3], dict(steps=6, patience=2, decreasing=1e-3, tol=1e-5))}
    for name, (losses, kw) in cases.items():
        want = model(losses, **kw)
        # (a python float is converted by torch.tensor(loss), i.e. to the default dtype - documented behaviour; only the ordinary history is run in that form)
        for form in ('float64 0-d tensor', 'float64 batch of 2') + (('python float',) if name == 'ordinary' else ()):
            c = ReduceToBason(**kw); got = []
            for l in losses:
                if not c.continual(): got.append(False); continue
                c.step(torch.tensor(l, dtype=torch.float64) if form == 'float64 0-d tensor' else torch.tensor([l, l], dtype=torch.float64) if form == 'float64 batch of 2' else l)
                got.append(bool(c.continual()))
            evals += 1
            if got != want[:len(got)]:
                fails.append(dict(clause='decisions_on_the_losses_as_given', signature=f'{name}/{form}', got=got, want=want))
    # BATCHED losses with mixed progress: "all losses in the batch have to satisfy the condition": one element on a plateau while another still
    # decreases by the configured amount is NOT a failed step; both on a plateau is
    for name, hist, kw, want in (('one element plateaus, one halves', [[8.0, 2.0 ** -k] for k in range(8)], dict(steps=6, patience=2, decreasing=0.1, tol=1e-30), [True] * 5 + [False] * 3),
                                 ('both elements plateau', [[8.0, 3.0]] * 8, dict(steps=6, patience=2, decreasing=0.1, tol=1e-30), [True, True, False] + [False] * 5)):
        for dt_ in (torch.float64, torch.float32):
            c = ReduceToBason(**kw); got = []
            for l in hist:
                if not c.continual(): got.append(False); continue
                c.step(torch.tensor(l, dtype=dt_)); got.append(bool(c.continual()))
            evals += 1
            if got != want:
                fails.append(dict(clause='batched_losses_all_elements_decide', signature=f'{name}/{str(dt_).split(".")[-1]}', got=got, want=want))
    return dict(evaluations=evals, distinct_nontrivial=evals, rule='3 loss histories x 3 forms of the loss argument', bound='histories of 6-8 losses', failures=fails[:6], samples=[])


# ---- driver loops -------------------------------------------------------------------------------

class DriverLoop(loopcut.LoopContract):
    """invariant: controller.continual() => steps < max_steps ; variant: max_steps - steps.
    The body must call controller.step exactly once and nothing else may write controller state."""
    def __init__(self, env, ctrl, modifies, on_enter=None):
        self.env, self.ctrl, self.modifies = env, ctrl, modifies
        self.on_enter = on_enter
        self.calls = 0
    def enter(self, frame):
        env, c = self.env, self.ctrl
        # (arbitrary iteration) havoc the controller state under the invariant
        c.steps = env.scalar('steps_h', nonneg=True, regimes=('zero', 'generic'))[0]
        c.patience_count = env.scalar('count_h', nonneg=True, regimes=('zero', 'generic'))[0]
        c._continual = True if bool(c.steps < c.max_steps) and bool(env.scalar('cont_h', regimes=('generic',))[0] > 0) else False
        self.steps_at_head = c.steps
        self.cont_at_head = c._continual
        self.calls = 0
        if self.on_enter: self.on_enter()
    def back(self, frame):
        env, c = self.env, self.ctrl
        env.holds('exactly_one_controller_step_per_iteration', self.calls == 1)
        env.eq('variant_decreases_by_one', c.steps, self.steps_at_head + 1)
        env.holds('invariant_at_back_edge', (not c.continual()) or bool(c.steps < c.max_steps))
    def havoc(self, name, old):
        return old


def count_calls(lc, ctrl):
    real = ctrl.step
    def step(*a, **k):
        lc.calls += 1
        # "once false it stays false until reset": a driver must not make another step (an optimizer / LQR / ICP iteration and a controller
        # step) after the controller has said stop - also not as the first action of a later call of the driver
        lc.env.holds('the driver steps only while the controller says continue', bool(getattr(lc, 'cont_at_head', True)))
        return real(*a, **k)
    ctrl.step = step


@obligation('C20.StopOnPlateau.optimize.loop', functions=[f'{SCH}:StopOnPlateau.optimize'], max_paths=64,
            loops={SCH: {('StopOnPlateau.optimize', 0): 'SOP.optimize'}})
def optimize_loop(env):
    if not env.sym:
        return _optimize_numeric(env)
    s, o = make_sop(env, True)
    fresh = [0]
    def opt_step(input, target=None, weight=None):
        fresh[0] += 1
        o.last = o.loss
        o.loss = env.scalar(f'loss_new{fresh[0]}')[0]
        o.reject_count = env.scalar(f'rej_new{fresh[0]}', nonneg=True, regimes=('zero', 'generic'))[0]
        return o.loss
    o.step = opt_step
    lc = DriverLoop(env, s, modifies=('loss',))
    loopcut.DISPATCH.contracts['SOP.optimize'] = lc
    count_calls(lc, s)
    s.optimize(input=None)
    # loop exit: the loop condition is false
    env.holds('exit_only_when_not_continual', not s.continual())


def _optimize_numeric(env):
    """concrete twin: real loop with a scripted optimizer; iterations <= steps budget"""
    s, o = make_sop(env, True)
    M = int(abs(float(s.max_steps)) * 3) + 1
    s.max_steps = M; s.steps = 0; s.patience_count = 0; s.patience = int(abs(float(s.patience)) * 2) + 1
    it = [0]
    def opt_step(input, target=None, weight=None):
        it[0] += 1
        o.last = o.loss; o.loss = o.loss - env.rng.random(); o.reject_count = 0
        return o.loss
    o.step = opt_step
    s.optimize(input=None)
    env.holds('iterations_within_budget', it[0] <= M)
    env.holds('exit_only_when_not_continual', not s.continual())
    n1 = it[0]
    s.optimize(input=None)          # the controller has said stop and was not reset: a second call of the driver makes no step
    env.holds('the driver steps only while the controller says continue', it[0] == n1)


@obligation('C20.MPC.forward.loop', functions=['pypose.module.mpc:MPC.forward'], max_paths=64,
            loops={'pypose.module.mpc': {('MPC.forward', 0): 'MPC.forward'}})
def mpc_loop(env):
    mpc = env.load('pypose.module.mpc'); stp = env.load(STP)
    if not env.sym:
        env.holds('numeric twin: covered by C14 bounded runs', True); return
    ctrl = make_rtb(env, True, False)
    m = mpc.MPC.__new__(mpc.MPC)
    mpc.nn.Module.__init__(m)
    m.stepper = ctrl
    k = [0]
    def lqr(x_init, dt, u_traj=None):
        k[0] += 1
        return env.vec(f'x{k[0]}', 1), env.vec(f'u{k[0]}', 1), env.scalar(f'cost{k[0]}', positive=True)
    object.__setattr__(m, 'lqr', lqr)
    lc = DriverLoop(env, ctrl, modifies=('x', 'u', 'cost', 'best'))
    loopcut.DISPATCH.contracts['MPC.forward'] = lc
    count_calls(lc, ctrl)
    reset_calls = [0]
    real_reset = ctrl.reset
    def reset():
        reset_calls[0] += 1; real_reset()
    ctrl.reset = reset
    m.forward(dt=None, x_init=None)
    env.holds('controller_reset_once_before_the_loop', reset_calls[0] == 1)
    env.holds('exit_only_when_not_continual', not ctrl.continual())


@obligation('C20.drivers.default_controller', functions=['pypose.module.mpc:MPC.__init__', 'pypose.module.icp:ICP.__init__'], max_paths=8)
def default_ctrl(env):
    """every driver object owns its stopping controller: drivers built without an explicit stepper get a FRESH controller with the documented
    budget each (MPC: 10 steps, of which 9 are loop iterations), so constructing or running one driver never changes another one's budget"""
    mpc = env.load('pypose.module.mpc'); icp = env.load('pypose.module.icp'); stp = env.load(STP); T = env.T
    class Sys:        # LQR only stores the system at construction
        pass
    Qm = T.eye(2).reshape(1, 2, 2) if env.sym else T.eye(2).reshape(1, 2, 2)
    pv = T.zeros(1, 2)
    ms = [mpc.MPC(Sys(), Qm, pv, 2) for _ in range(3)]
    env.holds('MPC: three drivers, three distinct default controllers', len({id(m.stepper) for m in ms}) == 3)
    for i, m in enumerate(ms):
        env.holds(f'MPC #{i + 1}: default budget is 10 steps minus the final differentiable pass', int(m.stepper.max_steps) == 9)
    own = stp.ReduceToBason(steps=5)
    m2 = mpc.MPC(Sys(), Qm, pv, 2, stepper=own)
    env.holds('MPC: an explicit stepper is the one used', m2.stepper is own and int(own.max_steps) == 4)
    ics = [icp.ICP() for _ in range(3)]
    env.holds('ICP: three drivers, three distinct default controllers', len({id(c.stepper) for c in ics}) == 3)
    env.holds('ICP: equal default budgets', len({int(c.stepper.max_steps) for c in ics}) == 1)


@obligation('C20.ICP.forward.loop', functions=['pypose.module.icp:ICP.forward'], max_paths=64,
            loops={'pypose.module.icp': {('ICP.forward', 0): 'ICP.forward'}})
def icp_loop(env):
    icp = env.load('pypose.module.icp')
    if not env.sym:
        env.holds('numeric twin: covered by C17 bounded runs', True); return
    from pvc import storch as st
    ctrl = make_rtb(env, True, False)
    m = icp.ICP.__new__(icp.ICP)
    icp.nn.Module.__init__(m)
    m.stepper = ctrl; m.init = None
    k = [0]
    pts = st.zeros(2, 3)
    def knn(a, b, k=1, ord=2, dim=-1):
        return st.tensor([[env.scalar(f'd{len(loopcut.DISPATCH.log)}a', positive=True)[0]], [env.scalar(f'd{len(loopcut.DISPATCH.log)}b', positive=True)[0]]]), st.tensor([[0], [1]], dtype=st.int64)
    class T_:
        def unsqueeze(self, d): return self
        def __matmul__(self, o): return o
    env.stub(icp, 'knn', knn); env.stub(icp, 'svdtf', lambda a, b: T_())
    lc = DriverLoop(env, ctrl, modifies=('knndist', 'knnidx', 'error', 'target', 'knntarget', 'T', 'temporal'))
    loopcut.DISPATCH.contracts['ICP.forward'] = lc
    count_calls(lc, ctrl)
    m.forward(pts, pts)
    env.holds('exit_only_when_not_continual', not ctrl.continual())


@obligation('C20.canary.off_by_one_patience', functions=[f'{SCH}:StopOnPlateau.step'], canary=True, max_paths=64)
def canary(env):
    s, o = make_sop(env, True)
    n0, c0, M, P, d = s.steps, s.patience_count, s.max_steps, s.patience, s.decreasing
    last, loss, rej = o.last, o.loss, o.reject_count
    s.step(loss)
    c1 = c0 + 1 if bool((last - loss) < d) else 0
    stop = bool(n0 + 1 >= M) or bool(c1 > P) or bool(rej > 0)       # wrong: > instead of >=
    env.holds('continual_wrong_spec', s.continual() == (not stop))
