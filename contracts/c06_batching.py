"""C06 - batching, broadcasting and views are transparent; pure ops never mutate inputs; patches undone.

(a) frame contracts `assigns \\nothing` on tensor parameters of every function of the package: static
    interprocedural may-alias/effect analysis on the current source (pvc/frames.py); unflagged => proved under
    the alias table; flagged => confirmed or dismissed by replay on the real code (recipes below).
(b) exhaustive enumeration of the property's own finite domain on the real code: all broadcastable lshape
    pairs of rank <= 3 with extents {0,1,2,3}, every unary/binary LieTensor op vs item-by-item evaluation;
    every name in HANDLED_FUNCTIONS keeps the ltype and selects the same items as on the plain tensor.
(c) dynamic non-mutation sweep of the public API on cloned inputs.
(d) fault enumeration of retain_ltype / func.jacrev: exceptions thrown inside the wrapped function, nested use;
    the patched torch internals must be the original objects afterwards.
Not deductive for (b): a statement about torch's dispatch/broadcast internals (DESIGN 4).
"""
import itertools
from pvc.registry import obligation, bounded, property_meta
from pvc import frames

property_meta('C06', level='other', min_obligations=0,
              trusted_base=['alias table of pvc/frames.py (which torch methods return views)', 'torch broadcasting / __torch_function__ dispatch'],
              assumptions=['frame analysis is intra-procedural per function with call summaries; object fields are not tracked (covered by the dynamic sweep)'],
              explanation='static frame analysis (assigns nothing) + exhaustive enumeration of broadcast shapes and handled functions on the real code + fault enumeration of the patching context manager')

# (function qualname, parameter) pairs that are flagged by the analysis but are not violations, with the reason
DISMISSED = {
    ('Constant.update', 'pg'): 'pg is the optimizer param-group dict (documented state update), not a tensor argument',
    ('Adaptive.update', 'pg'): 'pg is the optimizer param-group dict (documented state update), not a tensor argument',
    ('TrustRegion.update', 'pg'): 'pg is the optimizer param-group dict (documented state update), not a tensor argument',
    ('Parameter.__deepcopy__', 'memo'): 'deepcopy protocol: memo dict',
    ('bvv', 'out'): 'explicit out= parameter', ('bmv', 'out'): 'explicit out= parameter',
    ('runsys', 'x_traj'): 'internal helper (not exported): documented to fill the given state trajectory buffer; LQR passes its own tensor',
    ('pretty_str.replace_nones', 'dct'): 'collect_env helper on a private dict', ('pretty_str.replace_bools', 'dct'): 'collect_env helper on a private dict',
}


def recipes():
    """real-code calls for flagged / public functions: name -> callable() -> list of (argname, before, after)"""
    import torch, pypose as pp
    d = torch.float64
    def chk(fn, **args):
        before = {k: (v.clone() if torch.is_tensor(v) else v) for k, v in args.items()}
        fn(**args)
        out = []
        for k, v in args.items():
            if torch.is_tensor(v):
                a, b = (v.tensor() if hasattr(v, 'ltype') else v), (before[k].tensor() if hasattr(before[k], 'ltype') else before[k])
                out.append((k, bool(torch.equal(a, b)) if a.shape == b.shape else False))
        return out
    R = {}
    def spd(n):
        M = torch.randn(n, n, dtype=d); return M @ M.T + torch.eye(n, dtype=d)
    R['CG.forward'] = lambda: chk(lambda A, b, x: pp.optim.solver.CG()(A, b, x), A=spd(4), b=torch.randn(4, 1, dtype=d), x=torch.randn(4, 1, dtype=d))
    def q2u():
        X = pp.SO3(torch.tensor([[0.3, 0.1, -0.2, 2.0]], dtype=d)); return chk(lambda input: pp.quat2unit(input), input=X)
    R['quat2unit'] = q2u
    def q2u_se3():
        X = pp.SE3(torch.tensor([[1., 2., 3., 0.3, 0.1, -0.2, 2.0]], dtype=d)); return chk(lambda input: pp.quat2unit(input), input=X)
    R['quat2unit[SE3]'] = q2u_se3
    def mti():
        from pypose.metric.ape_rpe import matching_time_indices
        return chk(lambda stamps_1, stamps_2: matching_time_indices(stamps_1, stamps_2, 0.01, 0.5), stamps_1=torch.arange(5, dtype=d), stamps_2=torch.arange(5, dtype=d) - 0.5)
    R['matching_time_indices'] = mti
    def ape_off():
        st = torch.arange(6, dtype=d); P = pp.randn_SE3(6, dtype=d)
        return chk(lambda rstamp, rpose, estamp, epose: pp.metric.ape(rstamp, rpose, estamp, epose, offset=0.25, diff=0.3), rstamp=st, rpose=P, estamp=st - 0.25, epose=P.clone())
    R['ape(offset)'] = ape_off
    def rpe_off():
        st = torch.arange(6, dtype=d); P = pp.randn_SE3(6, dtype=d)
        return chk(lambda rstamp, rpose, estamp, epose: pp.metric.rpe(rstamp, rpose, estamp, epose, offset=0.25, diff=0.3), rstamp=st, rpose=P, estamp=st - 0.25, epose=P.clone())
    R['rpe(offset)'] = rpe_off
    # sweep of the public API
    X, Y = pp.randn_SE3(3, dtype=d), pp.randn_SE3(3, dtype=d); a = pp.randn_se3(3, dtype=d); p = torch.randn(3, 3, dtype=d)
    for name, fn in [('Exp', lambda a_: a_.Exp()), ('Jr', lambda a_: pp.randn_so3(2, dtype=d).Jr())]:
        R[f'lie.{name}'] = (lambda fn=fn: chk(lambda a_: fn(a_), a_=a.clone()))
    for name, fn in [('Log', lambda X_: X_.Log()), ('Inv', lambda X_: X_.Inv()), ('matrix', lambda X_: X_.matrix()), ('euler', lambda X_: X_.euler()),
                     ('rotation', lambda X_: X_.rotation()), ('translation', lambda X_: X_.translation()), ('cumprod', lambda X_: X_.cumprod(0)),
                     ('cummul', lambda X_: pp.cummul(X_.tensor(), 0)), ('tensor', lambda X_: X_.tensor() + 1), ('clone', lambda X_: X_.clone()),
                     ('bspline', lambda X_: pp.bspline(pp.randn_SE3(5, dtype=d), 0.5)), ('geodesic', lambda X_: pp.geodesic_loss(X_, X_))]:
        R[f'lie.{name}'] = (lambda fn=fn: chk(lambda X_: fn(X_), X_=X.clone()))
    for name, fn in [('cummul[method]', lambda X_: X_.cummul(0)), ('cumprod[method]', lambda X_: X_.cumprod(0, left=False)), ('cumops[method]', lambda X_: X_.cumops(0, lambda u, v: u @ v)),
                     ('cummul[function]', lambda X_: pp.cummul(X_, 0)), ('cumprod[function]', lambda X_: pp.cumprod(X_, 0)), ('cumops[function]', lambda X_: pp.cumops(X_, 0, lambda u, v: u @ v))]:
        R[name] = (lambda fn=fn: chk(lambda X_: fn(X_), X_=X.clone()))
    for name, fn in [('mul', lambda X_, Y_: X_ @ Y_), ('Retr', lambda X_, Y_: X_.Retr(a)), ('add', lambda X_, Y_: X_ + a), ('Adj', lambda X_, Y_: X_.Adj(a)),
                     ('AdjT', lambda X_, Y_: X_.AdjT(a)), ('Jinvp', lambda X_, Y_: X_.Jinvp(a)), ('Act', lambda X_, Y_: X_.Act(p))]:
        R[f'lie.{name}'] = (lambda fn=fn: chk(lambda X_, Y_, a_, p_: fn(X_, Y_), X_=X.clone(), Y_=Y.clone(), a_=a, p_=p))
    M = pp.randn_Sim3(2, dtype=d).matrix()
    R['from_matrix'] = lambda: chk(lambda mat: pp.from_matrix(mat, pp.Sim3_type), mat=M.clone())
    R['mat2SO3'] = lambda: chk(lambda mat: pp.mat2SO3(mat), mat=pp.randn_SO3(2, dtype=d).matrix())
    R['euler2SO3'] = lambda: chk(lambda e: pp.euler2SO3(e), e=torch.randn(2, 3, dtype=d))
    pts = torch.randn(12, 4, dtype=d)
    R['knn'] = lambda: chk(lambda a_, b_: pp.knn(a_, b_, k=2), a_=pts.clone(), b_=pts.clone())
    R['nbr_filter'] = lambda: chk(lambda a_: pp.nbr_filter(a_, 1, 1.0, pdim=3), a_=pts.clone())
    R['knn_filter'] = lambda: chk(lambda a_: pp.knn_filter(a_, 2, pdim=3, radius=5.0), a_=pts.clone())
    R['voxel_filter'] = lambda: chk(lambda a_: pp.voxel_filter(a_, [1., 1., 1.]), a_=pts.clone())
    R['random_filter'] = lambda: chk(lambda a_: pp.random_filter(a_, 3), a_=pts.clone())
    R['svdtf'] = lambda: chk(lambda s, t: pp.svdtf(s, t), s=pts[:, :3].clone(), t=pts[:, :3].clone() + 1)
    R['svdstf'] = lambda: chk(lambda s, t: pp.svdstf(s, t), s=pts[:, :3].clone(), t=2 * pts[:, :3].clone() + 1)
    R['chspline'] = lambda: chk(lambda a_: pp.chspline(a_, 0.5), a_=pts.clone())
    R['cart2homo'] = lambda: chk(lambda a_: pp.homo2cart(pp.cart2homo(a_)), a_=pts.clone())
    K = torch.tensor([[500., 0, 320], [0, 500, 240], [0, 0, 1]], dtype=d)
    R['point2pixel'] = lambda: chk(lambda a_, K_: pp.reprojerr(a_, pp.point2pixel(a_, K_), K_), a_=pts[:, :3].clone() + 5, K_=K.clone())
    A4, b4 = spd(4), torch.randn(4, 1, dtype=d)
    for nm, cls in (('PINV', pp.optim.solver.PINV), ('LSTSQ', pp.optim.solver.LSTSQ), ('Cholesky', pp.optim.solver.Cholesky), ('CG', pp.optim.solver.CG)):
        R[f'solver.{nm}'] = (lambda cls=cls: chk(lambda A, b: cls()(A, b), A=A4.clone(), b=b4.clone()))
    for nm in ('Huber', 'PseudoHuber', 'Cauchy', 'SoftLOne', 'Arctan', 'Tolerant', 'Scale'):
        R[f'kernel.{nm}'] = (lambda nm=nm: chk(lambda x: getattr(pp.optim.kernel, nm)()(x), x=torch.rand(5, dtype=d)))
    Rr, Jr = torch.randn(3, 2, dtype=d), torch.randn(6, 2, dtype=d)
    for nm in ('FastTriggs', 'Triggs'):
        R[f'corrector.{nm}'] = (lambda nm=nm: chk(lambda R_, J_: getattr(pp.optim.corrector, nm)(pp.optim.kernel.Cauchy())(R=R_, J=J_), R_=Rr.clone(), J_=Jr.clone()))
    R['bmv'] = lambda: chk(lambda A, v: pp.bmv(A, v), A=A4.clone(), v=b4[:, 0].clone())
    R['bvmv'] = lambda: chk(lambda A, v: pp.bvmv(v, A, v), A=A4.clone(), v=b4[:, 0].clone())
    def lqr():
        n, m, T_ = 2, 1, 4
        sysm = pp.module.LTI(torch.randn(1, n, n, dtype=d) * .5, torch.randn(1, n, m, dtype=d), torch.eye(n, dtype=d)[None], torch.zeros(1, n, m, dtype=d))
        return chk(lambda Q, p_, x0, u0: pp.module.LQR(sysm, Q, p_, T_)(x0, 1, u0), Q=spd(n + m)[None], p_=torch.randn(1, n + m, dtype=d), x0=torch.randn(1, n, dtype=d), u0=torch.randn(1, T_, m, dtype=d))
    R['LQR'] = lqr
    def imu():
        itg = pp.module.IMUPreintegrator(reset=True).double()
        return chk(lambda dt, g, a_: itg(dt, g, a_), dt=torch.full((1, 5, 1), 0.01, dtype=d), g=torch.randn(1, 5, 3, dtype=d), a_=torch.randn(1, 5, 3, dtype=d))
    R['IMUPreintegrator'] = imu
    def ekf():
        class N(pp.module.NLS):
            def state_transition(self, s, i, t=None): return s.cos() + i
            def observation(self, s, i, t=None): return s.sin() + i
        out = []
        for cls in (pp.module.EKF, pp.module.UKF, pp.module.PF):
            f = cls(N(), torch.eye(2, dtype=d) * .1, torch.eye(2, dtype=d) * .1)
            out += chk(lambda x, y, u, P: f(x, y, u, P), x=torch.randn(2, dtype=d), y=torch.randn(2, dtype=d), u=torch.randn(2, dtype=d), P=torch.eye(2, dtype=d))
        return out
    R['filters'] = ekf
    return R


@bounded('C06.frames', functions=['pypose (every function): assigns nothing on tensor parameters'])
def frame_check(rng, tier):
    import os, torch
    repo = os.environ.get('PYPOSE_REPO', '/repo')
    an = frames.Analyzer(repo); fs = an.run()
    pub = [f for f in fs if frames.public(f)]
    flagged = [(f, p, w) for f in pub for p, w in f.mutates.items()]
    fails = []; dismissed = []; confirmed_ok = []
    torch.manual_seed(rng.randrange(1 << 30))
    rec = recipes()
    for f, p, w in flagged:
        key = (f.qual, p)
        if key in DISMISSED:
            dismissed.append(dict(function=f.qual, param=p, why=DISMISSED[key])); continue
        names = [k for k in rec if k.split('[')[0].split('(')[0] in (f.qual, f.name)]
        if not names:
            fails.append(dict(clause='flagged_without_replay', signature=f'{f.mod}:{f.qual}({p})', sites=[f'line {l}: {x}' for l, x in w][:3],
                              note='static frame contract violated and no replay recipe exists', no_input=True))
            continue
        mutated = False
        for nm in names:
            for arg, same in rec[nm]():
                if not same: mutated = True; break
        if mutated:
            fails.append(dict(clause='argument_mutated', signature=f'{f.qual}({p})', module=f.mod, sites=[f'line {l}: {x}' for l, x in w][:3]))
        else:
            confirmed_ok.append(dict(function=f.qual, param=p))
    # dynamic sweep of the public API (also catches mutation through object fields, e.g. ape/rpe with an offset)
    swept = 0
    for nm, r in rec.items():
        try:
            res = r()
        except Exception as e:
            fails.append(dict(clause='recipe_raises', signature=nm, error=f'{type(e).__name__}: {e}'[:200])); continue
        swept += 1
        for arg, same in res:
            if not same and not any(x.get('signature', '').startswith(nm.split('(')[0].split('[')[0]) for x in fails):
                fails.append(dict(clause='argument_mutated', signature=f'{nm}({arg})'))
    return dict(evaluations=len(pub) + swept, distinct_nontrivial=len(pub),
                rule='one frame contract per public function (static analysis) + one dynamic non-mutation call per recipe; non-trivial: the function has tensor parameters',
                bound=f'{len(fs)} functions analysed, {len(pub)} public, {len(flagged)} flagged, {len(dismissed)} dismissed with reason, {swept} dynamic recipes',
                failures=fails[:10], samples=[dict(flagged=[f'{f.qual}({p})' for f, p, w in flagged]), dict(dismissed=dismissed[:4])],
                proved_unflagged=len(pub) - len({f.qual for f, p, w in flagged}))


@bounded('C06.broadcast', functions=['pypose.lietensor.operation:broadcast_inputs', 'pypose.lietensor.lietensor:*Type.Act/Mul/Adj/AdjT/Jinvp'])
def broadcast(rng, tier):
    """every broadcastable pair of lshapes of rank <= 3 with extents {0,1,2,3}: op(X, Y) == item-by-item under torch broadcasting"""
    import torch, pypose as pp
    d = torch.float64
    ext = [0, 1, 2, 3]
    shapes = [()] + [(a,) for a in ext] + [(a, b) for a in ext for b in ext] + ([(a, b, c) for a in ext for b in ext for c in ext] if tier != 'quick' else [(a, b, c) for a in (0, 1, 2) for b in (1, 3) for c in (1, 2)])
    fails = []; evals = 0; pairs = 0
    torch.manual_seed(rng.randrange(1 << 30))
    groups = [('SE3', pp.randn_SE3, pp.randn_se3), ('Sim3', pp.randn_Sim3, pp.randn_sim3)] if tier == 'quick' else \
             [('SO3', pp.randn_SO3, pp.randn_so3), ('SE3', pp.randn_SE3, pp.randn_se3), ('RxSO3', pp.randn_RxSO3, pp.randn_rxso3), ('Sim3', pp.randn_Sim3, pp.randn_sim3)]
    for s1 in shapes:
        for s2 in shapes:
            try:
                out = torch.broadcast_shapes(s1, s2)
            except RuntimeError:
                continue
            pairs += 1
            for gname, rg, ra in groups:
                X = rg(*s1, dtype=d); Y = rg(*s2, dtype=d); a = ra(*s2, dtype=d); p = torch.randn(*s2, 3, dtype=d); p4 = torch.randn(*s2, 4, dtype=d)
                ops = [('Mul', lambda: X @ Y, lambda x, y: x @ y, Y, True), ('Act', lambda: X.Act(p), lambda x, y: x.Act(y), p, False),
                       ('Act4', lambda: X.Act(p4), lambda x, y: x.Act(y), p4, False), ('Adj', lambda: X.Adj(a), lambda x, y: x.Adj(y), a, True),
                       ('AdjT', lambda: X.AdjT(a), lambda x, y: x.AdjT(y), a, True), ('Jinvp', lambda: X.Jinvp(a), lambda x, y: x.Jinvp(y), a, True),
                       ('Retr', lambda: X.Retr(a), lambda x, y: x.Retr(y), a, True)]
                for oname, full, item, other, is_lie in ops:
                    try:
                        r = full()
                    except Exception as e:
                        fails.append(dict(clause='broadcast_raises', signature=f'{gname}.{oname} {s1}x{s2}', error=f'{type(e).__name__}: {e}'[:160])); continue
                    evals += 1
                    rt = r.tensor() if hasattr(r, 'ltype') else r
                    width = {'Mul': X.shape[-1], 'Retr': X.shape[-1], 'Act': 3, 'Act4': 4}.get(oname, a.shape[-1])
                    if tuple(rt.shape) != tuple(out) + (width,):          # the documented shape: broadcast lshape + item width, also for empty batches
                        fails.append(dict(clause='broadcast_shape', signature=f'{gname}.{oname} {s1}x{s2}', got=list(rt.shape), want=list(out) + [width])); continue
                    if is_lie != hasattr(r, 'ltype'):
                        fails.append(dict(clause='result_ltype', signature=f'{gname}.{oname}')); continue
                    if rt.numel() == 0: continue
                    Xe = X.tensor().expand(out + X.shape[-1:]).reshape(-1, X.shape[-1]); Oe = (other.tensor() if hasattr(other, 'ltype') else other)
                    Oe = Oe.expand(out + Oe.shape[-1:]).reshape(-1, Oe.shape[-1]); re = rt.reshape(-1, rt.shape[-1])
                    for i in range(Xe.shape[0]):
                        xi = pp.LieTensor(Xe[i], ltype=X.ltype); oi = pp.LieTensor(Oe[i], ltype=other.ltype) if hasattr(other, 'ltype') else Oe[i]
                        ri = item(xi, oi); ri = ri.tensor() if hasattr(ri, 'ltype') else ri
                        if not torch.allclose(ri, re[i], atol=1e-12):
                            fails.append(dict(clause='broadcast_itemwise', signature=f'{gname}.{oname} {s1}x{s2} item {i}')); break
                # unary ops
                for oname, f in (('Inv', lambda z: z.Inv()), ('Log', lambda z: z.Log()), ('matrix', lambda z: z.matrix())):
                    r = f(X); evals += 1
                    rt = r.tensor() if hasattr(r, 'ltype') else r
                    msz = 3 if gname == 'SO3' else 4          # LieType.matrix: 'To 4x4 matrix' for every type but SO3 (RxSO3 included)
                    want = tuple(s1) + ((msz, msz) if oname == 'matrix' else (X.shape[-1],) if oname == 'Inv' else (X.shape[-1] - 1,))
                    if tuple(rt.shape) != want: fails.append(dict(clause='unary_shape', signature=f'{gname}.{oname} {s1}', got=list(rt.shape), want=list(want)))
            if len(fails) > 10: break
        if len(fails) > 10: break
    # batches that MIX value regimes (identity, tiny and near-pi rotations, exactly pi, gimbal-lock pitch, unit and non-unit scale, generic):
    # every unary op on the batch equals the op item by item - a data-dependent branch taken for the whole batch (any()/all() slips)
    # would show here and nowhere in uniform random batches
    import math
    def quat(axis, ang):
        ax = torch.tensor(axis, dtype=d); ax = ax / ax.norm()
        return torch.cat([ax * math.sin(ang / 2), torch.tensor([math.cos(ang / 2)], dtype=d)])
    lock = pp.euler2SO3(torch.tensor([0.3, math.pi / 2 - 1e-5, 0.5], dtype=d)).tensor()
    quats = [torch.tensor([0., 0, 0, 1], dtype=d), quat([1., 2, 3], 1e-9), quat([1., -1, 0.5], math.pi - 1e-9), torch.tensor([0.6, 0.0, 0.8, 0.0], dtype=d),
             quat([0.2, 1, -1], 1.3), lock, quat([0., 1, 0], -(math.pi / 2 - 1e-6)), quat([3., 1, 2], 2.9)]
    nq = len(quats)
    trans = torch.randn(nq, 3, dtype=d); scal = torch.tensor([1.0, 1.0, 2.5, 1.0, 0.3, 1.0, 1.7, 1.0], dtype=d).unsqueeze(-1)
    Q4 = torch.stack(quats, 0)
    mixed = {'SO3': pp.SO3(Q4), 'SE3': pp.SE3(torch.cat([trans, Q4], -1)), 'RxSO3': pp.RxSO3(torch.cat([Q4, scal], -1)), 'Sim3': pp.Sim3(torch.cat([trans, Q4, scal], -1))}
    for gname, X in mixed.items():
        unary = [('Log', lambda z: z.Log().tensor()), ('Inv', lambda z: z.Inv().tensor()), ('matrix', lambda z: z.matrix()), ('euler', lambda z: z.euler()),
                 ('pp.euler', lambda z: pp.euler(z)), ('Log().Exp()', lambda z: z.Log().Exp().tensor()), ('rotation', lambda z: z.rotation().tensor()),
                 ('Jinvp', lambda z: z.Jinvp(pp.LieTensor(torch.full_like(z.Log().tensor(), 0.3), ltype=z.Log().ltype)).tensor()), ('Log().Jr()', lambda z: z.Log().Jr())]
        for oname, f in unary:
            try:
                r = f(X); evals += 1
                for i in range(nq):
                    ri = f(X[i])
                    if not torch.allclose(r[i], ri, atol=1e-10, rtol=1e-10, equal_nan=True):
                        fails.append(dict(clause='mixed_regime_batch_itemwise', signature=f'{gname}.{oname}', item=i, err=float((r[i] - ri).abs().max()))); break
            except NotImplementedError:
                continue
            except Exception as e:
                fails.append(dict(clause='mixed_regime_batch_raises', signature=f'{gname}.{oname}', error=f'{type(e).__name__}: {e}'[:160]))
    # CUMULATIVE operations in every calling form (function, method, in-place method; left and right order; every batch axis) equal the
    # item-by-item running product
    for gname, gen in (('SO3', pp.randn_SO3), ('SE3', pp.randn_SE3), ('RxSO3', pp.randn_RxSO3), ('Sim3', pp.randn_Sim3)):
        for shape, dim in (((3,), 0), ((2, 3), 1), ((3, 2), 0), ((2, 3, 2), 1), ((1,), 0)):
            Xc = gen(*shape, dtype=d)
            for left in (True, False):
                items = [Xc.select(dim, 0)]
                for k in range(1, shape[dim]):
                    nx = Xc.select(dim, k); items.append(nx @ items[-1] if left else items[-1] @ nx)
                expect = torch.stack([i_.tensor() for i_ in items], dim=dim)
                forms = [('pp.cumprod', lambda z: pp.cumprod(z, dim, left=left)), ('X.cumprod', lambda z: z.cumprod(dim, left=left)), ('X.cumprod_', lambda z: z.cumprod_(dim, left=left)),
                         ('pp.cumprod_', lambda z: pp.cumprod_(z, dim, left=left)), ('X.cumprod_ positional', lambda z: z.cumprod_(dim, left)), ('X.cumprod positional', lambda z: z.cumprod(dim, left))]
                for fname, f in forms:
                    try:
                        z = Xc.clone(); out = f(z); evals += 1
                        if not (tuple(out.shape) == tuple(expect.shape) and torch.allclose(out.tensor(), expect, atol=1e-10, rtol=1e-10)):
                            fails.append(dict(clause='cumulative_product_itemwise', signature=f'{gname}.{fname} left={left}', shape=list(shape), dim=dim))
                        elif fname.split()[0].endswith('_') and not torch.equal(z.tensor(), out.tensor()):
                            fails.append(dict(clause='inplace_cumulative_product_updates_its_operand', signature=f'{gname}.{fname} left={left}', shape=list(shape), dim=dim))
                        elif not fname.split()[0].endswith('_') and not torch.equal(z.tensor(), Xc.tensor()):
                            fails.append(dict(clause='cumulative_product_leaves_its_operand', signature=f'{gname}.{fname} left={left}', shape=list(shape), dim=dim))
                    except Exception as e:
                        fails.append(dict(clause='cumulative_product_raises', signature=f'{gname}.{fname} left={left}', error=f'{type(e).__name__}: {e}'[:160]))
    return dict(evaluations=evals, distinct_nontrivial=pairs, rule='all ordered pairs of lshapes from the stated set that torch can broadcast; each (group, op, pair) is one evaluation; non-trivial: every pair',
                bound='rank <= 3, extents {0,1,2,3}' + (' (quick: rank-3 shapes thinned)' if tier == 'quick' else ''), failures=fails[:8],
                samples=[dict(pair=[[2, 1], [3]], ops=['Mul', 'Act', 'Act4', 'Adj', 'AdjT', 'Jinvp', 'Retr'])], exhaustive=(tier != 'quick'))


@bounded('C06.handled_functions', functions=['pypose.lietensor.lietensor:LieTensor.__torch_function__', 'pypose.lietensor.lietensor:HANDLED_FUNCTIONS'])
def handled(rng, tier):
    """every name in the real HANDLED_FUNCTIONS list keeps the ltype and selects the same items as on the plain tensor"""
    import torch, pypose as pp
    from pypose.lietensor.lietensor import HANDLED_FUNCTIONS
    d = torch.float64
    X = pp.randn_SE3(2, 3, dtype=d); Y = pp.randn_SE3(2, 3, dtype=d)
    idx = torch.tensor([1, 0]); mask = torch.tensor([[True, False, True], [False, True, True]])
    calls = {
        '__getitem__': lambda t, u: t[1, ::2], '__setitem__': None, 'cpu': lambda t, u: t.cpu(), 'cuda': None, 'float': None, 'double': lambda t, u: t.double(),
        'to': lambda t, u: t.to(torch.float64), 'detach': lambda t, u: t.detach(), 'view': lambda t, u: t.view(6, 7), 'view_as': lambda t, u: t.view_as(u), 'squeeze': lambda t, u: t[:1].squeeze(0),
        'unsqueeze': lambda t, u: t.unsqueeze(1), 'cat': lambda t, u: torch.cat([t, u], 0), 'stack': lambda t, u: torch.stack([t, u], 0), 'split': lambda t, u: t.split(1, 0)[1],
        'hsplit': lambda t, u: t.hsplit(3)[1], 'dsplit': None, 'vsplit': lambda t, u: t.vsplit(2)[0], 'tensor_split': lambda t, u: t.tensor_split(2, 0)[1], 'chunk': lambda t, u: t.chunk(3, 1)[2],
        'concat': lambda t, u: torch.concat([t, u], 1), 'column_stack': None, 'dstack': None, 'vstack': lambda t, u: torch.vstack([t, u]), 'hstack': lambda t, u: torch.hstack([t, u]),
        'index_select': lambda t, u: t.index_select(0, idx), 'masked_select': None, 'movedim': lambda t, u: t.movedim(0, 1), 'moveaxis': lambda t, u: t.moveaxis(0, 1),
        'narrow': lambda t, u: t.narrow(1, 1, 2), 'permute': lambda t, u: t.permute(1, 0, 2), 'reshape': lambda t, u: t.reshape(3, 2, 7), 'row_stack': lambda t, u: torch.row_stack([t, u]) if hasattr(torch, 'row_stack') else torch.vstack([t, u]),
        'scatter': None, 'scatter_add': None, 'clone': lambda t, u: t.clone(), 'swapaxes': lambda t, u: t.swapaxes(0, 1), 'swapdims': lambda t, u: t.swapdims(0, 1), 'take': None,
        'take_along_dim': None, 'tile': lambda t, u: t.tile(2, 1, 1), 'copy': None, 'transpose': lambda t, u: t.transpose(0, 1), 'unbind': lambda t, u: t.unbind(0)[1],
        'gather': lambda t, u: t.gather(0, torch.zeros(1, 3, 7, dtype=torch.long)), 'repeat': lambda t, u: t.repeat(2, 1, 1), 'expand': lambda t, u: t[:1].expand(4, 3, 7), 'expand_as': lambda t, u: t[:1].expand_as(u),
        'index_copy': lambda t, u: t.index_copy(0, idx, u), 'index_copy_': None, 'select': lambda t, u: t.select(0, 1), 'select_scatter': lambda t, u: t.select_scatter(u[0], 0, 1),
        'index_put': lambda t, u: t.index_put((idx,), u), 'index_put_': None, 'copy_': None}
    fails = []; evals = 0; covered = []
    # the names are those of the pinned tree's list (each with a call form above) plus whatever the current list adds: a shape-only
    # function that DROPS OUT of the list silently returns a plain Tensor - that is the regression this clause exists for
    for name in dict.fromkeys(list(calls) + list(HANDLED_FUNCTIONS)):
        f = calls.get(name)
        if f is None: continue
        try:
            r = f(X, Y); ref = f(X.tensor(), Y.tensor())
        except Exception as e:
            fails.append(dict(clause='handled_function_raises', signature=name, error=f'{type(e).__name__}: {e}'[:160])); continue
        evals += 1; covered.append(name)
        if not isinstance(r, pp.LieTensor) or getattr(r, 'ltype', None) is not pp.SE3_type:
            fails.append(dict(clause='handled_function_keeps_ltype', signature=name)); continue
        if r.tensor().shape != ref.shape or not torch.equal(r.tensor(), ref):
            fails.append(dict(clause='handled_function_same_items', signature=name))
    # auxiliary operands: the result takes the ltype of the tensor operated on, whatever the second operand is (a LieTensor of another
    # ltype with the same item width, or a plain tensor)
    aux = {'sim3 LieTensor': pp.randn_sim3(2, 3, dtype=d), 'plain tensor': torch.randn(2, 3, 7, dtype=d)}
    for name in ('view_as', 'expand_as', 'index_copy', 'select_scatter', 'index_put'):
        for what, U in aux.items():
            try:
                r = calls[name](X, U); ref = calls[name](X.tensor(), U.tensor() if hasattr(U, 'ltype') else U)
            except Exception as e:
                fails.append(dict(clause='handled_function_raises', signature=f'{name} with a {what} operand', error=f'{type(e).__name__}: {e}'[:160])); continue
            evals += 1
            if not isinstance(r, pp.LieTensor) or getattr(r, 'ltype', None) is not pp.SE3_type:
                fails.append(dict(clause='handled_function_keeps_ltype', signature=f'{name} with a {what} operand', got=str(getattr(r, 'ltype', None)))); continue
            if r.tensor().shape != ref.shape or not torch.equal(r.tensor(), ref):
                fails.append(dict(clause='handled_function_same_items', signature=f'{name} with a {what} operand'))
    # in-place members
    Z = X.clone(); Z[0] = Y[0]; evals += 1
    if not torch.equal(Z.tensor()[0], Y.tensor()[0]) or Z.ltype is not pp.SE3_type: fails.append(dict(clause='setitem', signature='__setitem__'))
    Z = X.clone(); Z.copy_(Y); evals += 1
    if not torch.equal(Z.tensor(), Y.tensor()) or Z.ltype is not pp.SE3_type: fails.append(dict(clause='copy_', signature='copy_'))
    # documented result types
    P = pp.Parameter(X.clone()); import copy; P2 = copy.deepcopy(P); evals += 1
    if getattr(P2, 'ltype', None) is not pp.SE3_type or not torch.equal(P2.tensor(), X.tensor()): fails.append(dict(clause='parameter_deepcopy', signature='Parameter.__deepcopy__'))
    for nm, ctor, tp, dim in (('identity_SE3', lambda: pp.identity_SE3(2, 3, dtype=d), pp.SE3_type, 7), ('randn_so3', lambda: pp.randn_so3(2, dtype=d), pp.so3_type, 3),
                              ('identity_like', lambda: pp.identity_like(X, dtype=d), pp.SE3_type, 7), ('randn_like', lambda: pp.randn_like(X), pp.SE3_type, 7)):
        r = ctor(); evals += 1
        if r.ltype is not tp or r.shape[-1] != dim or r.dtype != d: fails.append(dict(clause='constructor_type', signature=nm))
    # lview / lshape for every ltype (groups AND algebras, whose item width differs from the embedding width): the view has the requested
    # lshape, the same ltype, the item width of the type, and holds the same items in row-major order
    for gname in ('SO3', 'SE3', 'RxSO3', 'Sim3', 'so3', 'se3', 'rxso3', 'sim3'):
        for src, args in (((2, 2), (-1,)), ((4,), (2, 2)), ((2, 3), (3, 2)), ((7, 8), (-1,)), ((0, 2), (0,)), ((), (1,)), ((2, 3, 2), (4, -1))):
            Xl = getattr(pp, 'randn_' + gname)(*src, dtype=d)
            try:
                V = Xl.lview(*args); evals += 1
            except Exception as e:
                fails.append(dict(clause='lview_raises', signature=f'{gname} {src}->{args}', error=f'{type(e).__name__}: {e}'[:120])); continue
            ref = Xl.tensor().reshape(*args, Xl.shape[-1])
            if getattr(V, 'ltype', None) is not Xl.ltype or tuple(V.shape) != tuple(ref.shape) or not torch.equal(V.tensor(), ref) or tuple(V.lshape) != tuple(ref.shape[:-1]):
                fails.append(dict(clause='lview_is_the_view_with_the_requested_lshape', signature=f'{gname}', source=list(src), args=list(args), got=list(V.shape), want=list(ref.shape)))
    # in-place ops on VIEWS ("views are transparent"): identity_ on a non-contiguous view sets exactly the viewed items, in the storage viewed
    for gname in ('SO3', 'SE3', 'RxSO3', 'Sim3'):
        Ie = getattr(pp, 'identity_' + gname)(dtype=d).tensor()
        for vname, mkview in (('[:, :2]', lambda Z: Z[:, :2]), ('[::2]', lambda Z: Z[::2]), ('transpose(0,1)', lambda Z: Z.transpose(0, 1)), ('[1]', lambda Z: Z[1]), ('whole', lambda Z: Z)):
            Zb = getattr(pp, 'randn_' + gname)(3, 3, dtype=d); keep = Zb.tensor().clone()
            Vw = mkview(Zb)
            try:
                r = Vw.identity_(); evals += 1
            except NotImplementedError:
                continue                    # the pinned tree implements identity_ for SO3 only and says so for the other types
            except Exception as e:
                fails.append(dict(clause='identity__raises', signature=f'{gname}{vname}', error=f'{type(e).__name__}: {e}'[:120])); continue
            sel = torch.zeros(3, 3, dtype=torch.bool); mkview(sel).fill_(True)
            ok = bool((Zb.tensor()[sel] == Ie).all()) and torch.equal(Zb.tensor()[~sel], keep[~sel]) and bool((r.tensor() == Ie).all())
            if not ok:
                fails.append(dict(clause='inplace_op_on_a_view_writes_the_viewed_items', signature=f'{gname}.identity_ on X{vname}'))
    # documented DEVICE of results: probed on the always-available `meta` device (no data, shapes / dtypes / devices only) - a constant created on the
    # default device inside an accessor shows here on a CPU-only machine; ops that do not run on meta at all are skipped, not judged
    for gname in ('SO3', 'SE3', 'RxSO3', 'Sim3', 'so3', 'se3', 'rxso3', 'sim3'):
        for lsh in ((), (3,), (2, 3)):
            Xm = getattr(pp, 'randn_' + gname)(*lsh, dtype=d).to('meta')
            for oname, f in (('scale', lambda z: z.scale()), ('rotation', lambda z: z.rotation()), ('translation', lambda z: z.translation()), ('Inv', lambda z: z.Inv()),
                             ('clone', lambda z: z.clone()), ('lview', lambda z: z.lview(-1))):
                try:
                    r = f(Xm)
                except Exception:
                    continue
                evals += 1
                if getattr(r, 'device', Xm.device).type != 'meta' or r.dtype != d:
                    fails.append(dict(clause='result_on_the_device_of_its_input', signature=f'{gname}.{oname}', lshape=list(lsh), got=str(getattr(r, 'device', None))))
    # documented dtype of the *_like / identity / randn constructors: an explicit dtype wins over the documented default
    for src_dt, want in ((torch.float64, torch.float32), (torch.float32, torch.float64)):
        for gname in ('SO3', 'SE3', 'RxSO3', 'Sim3', 'so3', 'se3', 'rxso3', 'sim3'):
            Xs = getattr(pp, 'randn_' + gname)(2, dtype=src_dt)
            for nm, ctor in (('randn_like', lambda: pp.randn_like(Xs, dtype=want)), ('identity_like', lambda: pp.identity_like(Xs, dtype=want)),
                             ('randn_like (default dtype)', lambda: pp.randn_like(Xs)), ('identity_like (default dtype)', lambda: pp.identity_like(Xs)),
                             ('randn_' + gname, lambda: getattr(pp, 'randn_' + gname)(2, dtype=want)), ('identity_' + gname, lambda: getattr(pp, 'identity_' + gname)(2, dtype=want))):
                try:
                    r = ctor(); evals += 1
                except Exception as e:
                    fails.append(dict(clause='constructor_raises', signature=f'{nm}/{gname}', error=f'{type(e).__name__}: {e}'[:120])); continue
                # documented defaults: randn_like -> dtype of the input; identity_like -> the global default dtype
                exp_dt = (src_dt if nm.startswith('randn_like') else torch.get_default_dtype()) if 'default' in nm else want
                if r.dtype != exp_dt or r.ltype is not Xs.ltype or tuple(r.lshape) != (2,):
                    fails.append(dict(clause='constructor_type', signature=f'{nm}/{gname}', got=str(r.dtype), expected=str(exp_dt)))
    return dict(evaluations=evals, distinct_nontrivial=len(covered), rule='one call per name of HANDLED_FUNCTIONS with an applicable call form (names without one are listed as skipped); compared with the same call on the plain tensor',
                bound=f'{len(covered)} of {len(set(HANDLED_FUNCTIONS))} names exercised', failures=fails[:8], samples=[dict(covered=covered[:12])],
                skipped=[n for n in dict.fromkeys(HANDLED_FUNCTIONS) if calls.get(n) is None])


@bounded('C06.retain_ltype_faults', functions=['pypose.lietensor.lietensor:retain_ltype', 'pypose.func.jac:jacrev'])
def faults(rng, tier):
    """exception thrown at every point inside a function wrapped by retain_ltype / func.jacrev (also nested): the patched torch
    internals are the original objects afterwards"""
    import torch, pypose as pp, importlib
    from pypose.lietensor.lietensor import retain_ltype
    targets = [('torch.autograd.forward_ad', 'make_dual'), ('torch._functorch.eager_transforms', '_wrap_tensor_for_grad'), ('torch._functorch.vmap', '_add_batch_dim')]
    def snap(): return [getattr(importlib.import_module(m), n) for m, n in targets]
    orig = snap()
    fails = []; evals = 0
    class Boom(Exception): pass
    def same(tag):
        now = snap()
        for (m, n), a, b in zip(targets, orig, now):
            if a is not b: fails.append(dict(clause='patch_not_undone', signature=f'{tag}: {m}.{n}'))
    # 1. normal exit, 2. exception in the body, 3. nested, 4. nested with inner exception, 5. BaseException
    for tag, body in (('normal', lambda: None), ('raise', lambda: (_ for _ in ()).throw(Boom())), ('keyboard', lambda: (_ for _ in ()).throw(KeyboardInterrupt()))):
        try:
            with retain_ltype(): body()
        except (Boom, KeyboardInterrupt): pass
        evals += 1; same(tag)
    try:
        with retain_ltype():
            with retain_ltype(): raise Boom()
    except Boom: pass
    evals += 1; same('nested-inner-raise')
    try:
        with retain_ltype():
            try:
                with retain_ltype(): raise Boom()
            except Boom: pass
            inner = snap()
            raise Boom()
    except Boom: pass
    evals += 1; same('nested-both-raise')
    # func.jacrev with a function raising at the k-th LieTensor operation
    X = pp.randn_SE3(dtype=torch.float64); p = torch.randn(3, dtype=torch.float64)
    for k in range(4):
        cnt = [0]
        def f(x):
            y = x
            for i in range(3):
                if cnt[0] == k: raise Boom()
                cnt[0] += 1
                y = y @ x if i < 2 else y
            return y.Act(p)
        try:
            pp.func.jacrev(f)(X)
        except Boom: pass
        except Exception as e:
            fails.append(dict(clause='jacrev_unexpected', signature=f'k={k}', error=f'{type(e).__name__}: {e}'[:160]))
        evals += 1; same(f'jacrev-raise-at-{k}')
    J = pp.func.jacrev(lambda x: x.Act(p))(X); evals += 1; same('jacrev-normal')
    if tuple(J.shape) != (3, 7): fails.append(dict(clause='jacrev_shape', signature=str(tuple(J.shape))))
    return dict(evaluations=evals, distinct_nontrivial=evals, rule='one scenario per fault point (normal / raise / BaseException / nested x2 / jacrev raising at the k-th op, k = 0..3 / jacrev normal)',
                bound='3 patched attributes, nesting depth 2', failures=fails[:8], samples=[dict(targets=[f'{m}.{n}' for m, n in targets])], exhaustive=True)


# ---- deductive complement: for fixed small batch shapes, ALL values (symbolic entries): the batched public op equals the item-by-item
# Function-level forward under torch broadcasting, through the real broadcast_inputs / view glue
from pvc.registry import obligation
from contracts.common import *

SHAPES = [((2,), (1,)), ((1,), (2,)), ((2, 1), (2,)), ((), (2,)), ((2,), ())]

for g in ('SO3', 'SE3'):
    for (s1, s2) in SHAPES:
        def mk(g=g, s1=s1, s2=s2):
            tag = f'{"x".join(map(str, s1)) or "scalar"}_{"x".join(map(str, s2)) or "scalar"}'
            @obligation(f'C06.broadcast_symbolic.{g}.{tag}', functions=[f'{OPS}:broadcast_inputs', f'{LT}:{g}Type.Mul', f'{LT}:{g}Type.Act', f'{LT}:{g}Type.Adj'], max_paths=4)
            def ob(env):
                import itertools, numpy as np
                op = env.load(OPS); pp = env.load('pypose'); T = env.T
                def batch(name, shape, maker):
                    n = int(np.prod(shape)) if shape else 1
                    items = [maker(f'{name}{i}') for i in range(n)]
                    return T.stack(items, 0).reshape(tuple(shape) + (items[0].shape[-1],)), items
                Xd, Xi = batch('X', s1, lambda nm: group_elem(env, g, nm))
                Yd, Yi = batch('Y', s2, lambda nm: group_elem(env, g, nm))
                pd, pi_ = batch('p', s2, lambda nm: env.vec(nm, 3))
                ad, ai = batch('a', s2, lambda nm: alg_elem(env, g, nm))
                X, Y, a = lie(pp, g, Xd), lie(pp, g, Yd), alg(pp, g, ad)
                out = tuple(np.broadcast_shapes(s1, s2))
                n1 = int(np.prod(s1)) if s1 else 1; n2 = int(np.prod(s2)) if s2 else 1
                i1 = np.broadcast_to(np.arange(n1).reshape(s1 if s1 else ()), out).reshape(-1)
                i2 = np.broadcast_to(np.arange(n2).reshape(s2 if s2 else ()), out).reshape(-1)
                Z = X @ Y
                env.holds('product lshape is the broadcast shape', tuple(Z.lshape) == out and Z.ltype is ltype(pp, g))
                ref = T.stack([getattr(op, g + '_Mul').forward(Xi[int(u)], Yi[int(v)]) for u, v in zip(i1, i2)], 0).reshape(out + (S.DIM[g],))
                env.eq('batched product equals the item-by-item product', raw(Z), ref)
                P = X.Act(pd)
                refp = T.stack([getattr(op, g + '_Act').forward(Xi[int(u)], pi_[int(v)]) for u, v in zip(i1, i2)], 0).reshape(out + (3,))
                env.eq('batched Act equals the item-by-item action', P, refp)
                Ad = X.Adj(a)
                refa = T.stack([getattr(op, g + '_AdjXa').forward(Xi[int(u)], ai[int(v)]) for u, v in zip(i1, i2)], 0).reshape(out + (S.DOF[g],))
                env.eq('batched Adj equals the item-by-item adjoint action', raw(Ad), refa)
                env.eq('operands untouched', raw(X), Xd)
        mk()
