"""C08 - LM never accepts a worse loss, restores rejected trials, reports the true loss.

The real LevenbergMarquardt.step is traced with its `while` loop cut mechanically (pvc/loopcut.py) and
with by-contract stubs: the model loss is a ghost function ell(P) of the parameter point P (one fresh
symbol per distinct value of P, so (P + D) - D = P gives back the same symbol), modjac / residuals are
abstract tensors, the solver returns an abstract step or raises, the strategy is a recorder (its own
contracts are below).  Loop invariant at the head of the while:
    self.last = self.loss = ell(P0)  /\\  P = P0  /\\  0 <= reject_count <= reject
"""
from fractions import Fraction as Q
from pvc.registry import obligation, bounded, property_meta
from pvc import loopcut
from contracts.common import *

property_meta('C08', level='proof', min_obligations=30,
              trusted_base=['ghost loss ell(P): the robust loss is a function of the parameter point only (same data): RobustModel.loss reads nothing else',
                            'retraction inverse for group parameters: Exp(-d) Exp(d) X = X (obligations C08.retraction_inverse.*)',
                            'frame of the stubbed callees (solver, strategy.update, model) as stated in this file'],
              assumptions=['parameters traced: one Euclidean parameter with 1 and 2 entries (the accept/reject control flow does not depend on the parameter kind; group parameters use the retraction lemma)'],
              explanation='Hoare logic over the cut loop with ghost state, all paths; strategies by path enumeration + z3 (NRA)')

OPT = 'pypose.optim.optimizer'
STR = 'pypose.optim.strategy'


class SolverFailure(Exception):
    pass


class Ghost:
    """ell(P): one symbol per distinct parameter value"""
    def __init__(self, env, params):
        self.env, self.params, self.tab, self.calls = env, params, [], 0
    def point(self):
        return [e for p in self.params for e in p._a.flat]
    def loss(self, *a, **k):
        self.calls += 1
        pt = self.point()
        for (q, sym) in self.tab:
            if all(x.same(y) for x, y in zip(q, pt)): return sym
        sym = self.env.scalar(f'ell{len(self.tab)}', regimes=('generic', 'zero', 'large'))[0]
        from pvc import storch as st
        sym = st.tensor(sym)
        self.tab.append((pt, sym))
        return sym


class LMWhile(loopcut.LoopContract):
    modifies = ('D', 'e', 'self.loss', 'self.reject_count')
    def __init__(self, env, opt, ghost, P0, pg, solves):
        self.env, self.opt, self.ghost, self.P0, self.pg, self.solves = env, opt, ghost, P0, pg, solves
    def _inv(self, tag, rc_expected=None):
        env, o = self.env, self.opt
        env.eq(f'{tag}: parameters equal the parameters before the trial', env.T.stack(self.ghost.point()) if False else _pt(self.ghost), _ptv(self.P0))
        env.eq(f'{tag}: self.loss is the loss at those parameters', o.loss, self.L0)
        env.eq(f'{tag}: self.last is the loss the call started with', o.last, self.L0)
        env.holds(f'{tag}: 0 <= reject_count <= reject', (o.reject_count >= 0) & (o.reject_count <= o.reject))
    def enter(self, frame):
        env, o = self.env, self.opt
        self.L0 = self.ghost.loss()
        self._inv('entry')
        env.eq('entry: reject_count reset to 0', o.reject_count, 0)
        # havoc the loop frame under the invariant (arbitrary iteration)
        o.reject_count = env.scalar('rc', nonneg=True, regimes=('zero', 'generic'), integer=True)[0]
        env.assume('invariant: reject_count <= reject', o.reject_count <= o.reject)
        self.pg['damping'] = env.scalar('damping_h', positive=True)[0]
        A_ = frame['A']
        A_._a[...] = env.fresh_matrix('A_h', *A_.shape)._a
        self.rc_head = o.reject_count
        self.solves_head = self.solves[0]
    def back(self, frame):
        env, o = self.env, self.opt
        self._inv('back edge (rejected trial)')
        env.eq('back edge: reject_count incremented by one', o.reject_count, self.rc_head + 1)
        env.holds('back edge: exactly one solve per trial', self.solves[0] == self.solves_head + 1)


def _pt(ghost):
    from pvc import storch as st
    return st.tensor(ghost.point())
def _ptv(P0):
    from pvc import storch as st
    return st.tensor(P0)


def build_lm(env, nparam, cached, solver_may_fail, strategy_real=None):
    optm = env.load(OPT); T = env.T
    nn = T.nn
    class Model(nn.Module):
        def __init__(self):
            super().__init__()
            self.p = nn.Parameter(env.vec('p', nparam))
        def forward(self, inp): raise AssertionError('stubbed')
    m = Model()
    solves = [0]
    class Solver:
        def __call__(self, A, b):
            solves[0] += 1
            if solver_may_fail and bool(env.scalar(f'solver_fails{solves[0]}', regimes=('generic',))[0] > 0):
                raise SolverFailure('singular')
            return env.vec(f'D{solves[0]}', nparam).reshape(nparam, 1)
    class Recorder:
        defaults = {'damping': Q(1, 1000)}
        def __init__(self): self.calls = []
        def update(self, pg, last, loss, J, D, R, *a, **k):
            self.calls.append((last, loss))
            pg['damping'] = env.scalar(f'damping_new{len(self.calls)}', positive=True)[0]
    strat = strategy_real or Recorder()
    rej = env.scalar('reject', nonneg=True, regimes=('zero', 'generic'), integer=True)[0]
    opt = optm.LevenbergMarquardt(m, solver=Solver(), strategy=strat, reject=rej)
    env.eq('the rejection budget is the reject given to the constructor (0 included: a single trial)', opt.reject, rej)
    ghost = Ghost(env, [m.p])
    rm = opt.model
    object.__setattr__(rm, 'loss', ghost.loss)
    R = env.vec('R', 2)
    object.__setattr__(rm, 'forward', lambda inp, target=None: (R,))
    J = T.stack([env.vec(f'Jrow{i}', nparam) for i in range(2)], 0)
    env.stub(optm, 'modjac', lambda model, input=None, **k: ((J,),))
    if cached:
        opt.loss = ghost.loss()          # precondition: the cached loss is the loss at the current parameters
        # ... and an earlier call left an arbitrary number of rejections behind: the budget is per CALL (entry clause: reset to 0)
        opt.reject_count = env.scalar('rc_previous_call', nonneg=True, regimes=('zero', 'generic', 'large'), integer=True)[0]
    return opt, ghost, solves, strat


for cached in (False, True):
    for fail in (False, True):
        def mk(cached=cached, fail=fail):
            @obligation(f'C08.LM.step.{"cached" if cached else "first_call"}.{"solver_may_raise" if fail else "solver_ok"}',
                        functions=[f'{OPT}:LevenbergMarquardt.step', f'{OPT}:_Optimizer.update_parameter', f'{OPT}:RobustModel.normalize_RWJ',
                                   f'{OPT}:RobustModel.flatten_row_jacobian'],
                        loops={OPT: {('LevenbergMarquardt.step', 2): 'LM.while'}}, max_paths=64, no_validate=True)
            def ob(env):
                if not env.sym:
                    return lm_numeric(env, fail)
                opt, ghost, solves, strat = build_lm(env, 2, cached, fail)
                P0 = ghost.point()
                pg = opt.param_groups[0]
                lc = LMWhile(env, opt, ghost, P0, pg, solves)
                loopcut.DISPATCH.contracts['LM.while'] = lc
                ret = opt.step(None)
                # ---- loop exit (break): accepted trial, exhausted rejections, or solver failure
                Lnow = ghost.loss()
                env.eq('exit: returned value is optimizer.loss', ret, opt.loss)
                env.eq('exit: reported loss is the robust loss at the parameters left behind', opt.loss, Lnow)
                env.holds('exit: not worse than the loss given, unless rejections are exhausted',
                          (Lnow <= lc.L0) | (opt.reject_count >= opt.reject))
                if solves[0] == lc.solves_head:
                    # the solver raised in this trial
                    env.eq('solver failure: parameters as before the trial', _pt(ghost), _ptv(P0))
                    env.eq('solver failure: loss as before the trial', opt.loss, lc.L0)
                env.holds('exit: at most one solve in the last trial', solves[0] <= lc.solves_head + 1)
                env.holds('exit: reject_count <= reject (at most reject+1 trials per call)', opt.reject_count <= opt.reject)
            mk_ = ob
        mk()


def lm_numeric(env, fail):
    """concrete twin: the real loop on a scripted scalar problem whose first k trials increase the loss"""
    import torch
    import pypose as pp
    from pypose.optim.optimizer import LevenbergMarquardt
    rng = env.rng
    k_bad = rng.randrange(0, 6); reject = rng.randrange(0, 5)
    class Model(torch.nn.Module):
        def __init__(self):
            super().__init__(); self.p = torch.nn.Parameter(torch.tensor([rng.uniform(-2, 2)], dtype=torch.float64))
        def forward(self, inp): return self.p * 3.0 - 1.0
    m = Model()
    trial = [0]
    fail_at = rng.randrange(1, 4) if fail else None
    holder = {}
    class Solver:
        def __call__(self, A, b):
            trial[0] += 1
            if trial[0] > 1:          # a new trial starts: the previous one was rejected
                o = holder['opt']
                env.eq('back edge (rejected trial): parameters equal the parameters before the trial', m.p.detach(), holder['p0'])
                env.eq('back edge (rejected trial): self.loss is the loss at those parameters', float(o.loss), holder['l0'])
                env.holds('back edge (rejected trial): 0 <= reject_count <= reject', 0 <= o.reject_count <= reject)
            if fail_at == trial[0]: raise RuntimeError('scripted failure')
            x = torch.linalg.solve(A, b)
            if trial[0] <= k_bad and holder.get('slightly'):
                # a trial that is worse by a HAIR (overshoot to the mirror point and 1e-6 beyond: the loss rises by ~4e-6 relative) is a worse
                # loss all the same and is rejected while rejections remain
                return x * (2 + 2e-6) * (1 + 1e-3)
            return -5 * x if trial[0] <= k_bad else x
    # the reported loss is the ROBUST loss: half of the runs use a non-trivial kernel (residuals beyond its threshold included)
    kern = rng.choice([None, None, pp.optim.kernel.Huber(delta=rng.uniform(0.1, 1.0)), pp.optim.kernel.Cauchy(delta=rng.uniform(0.2, 2.0))])
    opt = LevenbergMarquardt(m, solver=Solver(), reject=reject, strategy=pp.optim.strategy.Constant(1e-3), kernel=kern)
    p0 = m.p.detach().clone(); l0 = float(opt.model.loss(None, None))
    holder.update(opt=opt, p0=p0, l0=l0, slightly=(kern is None and rng.random() < 0.4 and abs(float(m.p) * 3.0 - 1.0) > 0.1))
    ret = opt.step(None)
    lnow = float(opt.model.loss(None, None))
    env.eq('exit: reported loss is the robust loss at the parameters left behind', float(ret), lnow)
    env.holds('exit: not worse than the loss given, unless rejections are exhausted', lnow <= l0 + 1e-12 or opt.reject_count >= reject)
    env.holds('exit: reject_count <= reject (at most reject+1 trials per call)', trial[0] <= reject + 1)
    if fail_at is not None and trial[0] == fail_at:
        env.eq('solver failure: parameters as before the trial', m.p.detach(), p0)


@obligation('C08.GN.step', functions=[f'{OPT}:GaussNewton.step', f'{OPT}:_Optimizer.update_parameter'], max_paths=16, no_validate=True)
def gn(env):
    if not env.sym:
        env.holds('numeric twin: see C07 bounded', True); return
    optm = env.load(OPT); T = env.T; nn = T.nn
    class Model(nn.Module):
        def __init__(self):
            super().__init__(); self.p = nn.Parameter(env.vec('p', 2))
        def forward(self, inp): raise AssertionError('stubbed')
    m = Model()
    class Solver:
        def __call__(self, A, b): return env.vec('D', 2).reshape(2, 1)
    for cached in (False, True):
        opt = optm.GaussNewton(m, solver=Solver())
        ghost = Ghost(env, [m.p])
        rm = opt.model
        object.__setattr__(rm, 'loss', ghost.loss)
        R = env.vec(f'R{cached}', 2)
        object.__setattr__(rm, 'forward', lambda inp, target=None: (R,))
        J = T.stack([env.vec(f'J{cached}{i}', 2) for i in range(2)], 0)
        env.stub(optm, 'modjac', lambda model, input=None, **k: ((J,),))
        L0 = ghost.loss()
        if cached: opt.loss = L0
        ret = opt.step(None)
        tag = 'cached' if cached else 'first call'
        env.eq(f'{tag}: returns the loss at the new parameters', ret, ghost.loss())
        env.eq(f'{tag}: optimizer.loss is the returned value', opt.loss, ret)
        env.eq(f'{tag}: optimizer.last records the previous loss', opt.last, L0)


# ---- retraction inverse: a rejected trial on a group parameter is restored by add_(-D)
for g in ['SO3', 'SE3', 'RxSO3']:
    def mk(g=g):
        a = S.ALG[g]
        @obligation(f'C08.retraction_inverse.{g}', functions=[f'{LT}:{g}Type.add_', f'{OPS}:{a}_Exp.forward', f'{OPS}:{g}_Mul.forward'], max_paths=32)
        def ob(env):
            op = env.load(OPS); pp = env.load('pypose'); T = env.T
            Xd = group_elem(env, g, 'X'); d = alg_elem(env, g, 'd', regimes=('generic', 'zero', 'tiny', 'small'))
            X = lie(pp, g, Xd.clone())
            rot = d if g == 'SO3' else (d[3:6] if g == 'SE3' else d[0:3])
            small = not bool(T.linalg.norm(rot, dim=-1) > env.eps(d))
            X.add_(d)
            X.add_(-d)
            if small:
                # Taylor branch of Exp: restored up to the truncation order (|d|^4 <= eps^4: far below round-off)
                env.eq_order('add_(D) then add_(-D) restores the group parameter up to O(|d|^4)', raw(X), Xd, rot, 4)
            else:
                env.eq('add_(D) then add_(-D) restores the group parameter', raw(X), Xd)
    mk()


# ---- strategies --------------------------------------------------------------------------------

def quality(T, last, loss, J, D, R):
    JD = J @ D
    return (last - loss) / -(JD.transpose(-1, -2) @ (2 * R + JD)).reshape(())


def strategy_inputs(env):
    T = env.T
    last = env.scalar('last')[0]; loss = env.scalar('loss')[0]
    J = T.stack([env.vec('J0', 1), env.vec('J1', 1)], 0); D = env.vec('D', 1).reshape(1, 1); R = env.vec('R', 2).reshape(2, 1)
    return last, loss, J, D, R


@obligation('C08.strategy.Constant', functions=[f'{STR}:Constant.update', f'{STR}:Constant.__init__', f'{OPT}:LevenbergMarquardt.__init__'])
def s_const(env):
    strat = env.load(STR)
    lam = env.scalar('damping', positive=True)[0]
    s = strat.Constant(damping=lam)
    pg, lmn, lmx = lm_group(env, s)
    s.update(pg, last=env.scalar('a')[0], loss=env.scalar('b')[0])
    env.eq('damping unchanged', pg['damping'], lam)
    check_lm_bounds(env, pg, lmn, lmx)


def lm_group(env, s):
    """the parameter group a real LevenbergMarquardt builds around strategy s: LM's own min / max (the clamp of diag(J^T W J), C07)
    live in the same dict as the strategy's hyper-parameters, so the strategy must keep its damping bounds apart from them"""
    optm = env.load(OPT); T = env.T; nn = T.nn
    class Mdl(nn.Module):
        def __init__(self): super().__init__(); self.w = nn.Parameter(T.zeros(1))
        def forward(self, inp): return self.w
    lmn = env.scalar('lm_min', positive=True)[0]; lmx = lmn + env.scalar('lm_width', positive=True)[0]
    opt = optm.LevenbergMarquardt(Mdl(), strategy=s, min=lmn, max=lmx)
    return opt.param_groups[0], lmn, lmx


def check_lm_bounds(env, pg, lmn, lmx):
    env.eq("the group's min is still LevenbergMarquardt's clamp bound", pg['min'], lmn)
    env.eq("the group's max is still LevenbergMarquardt's clamp bound", pg['max'], lmx)


def clampspec(x, lo, hi):
    return lo if bool(x < lo) else (hi if bool(x > hi) else x)


@obligation('C08.strategy.Adaptive', functions=[f'{STR}:Adaptive.update', f'{STR}:Adaptive.__init__', f'{OPT}:LevenbergMarquardt.__init__'], max_paths=64)
def s_adapt(env):
    strat = env.load(STR); T = env.T
    hp = {k: env.scalar(k, positive=True)[0] for k in ('damping', 'high', 'low', 'mn', 'width')}
    up = 1 + env.scalar('up1', positive=True)[0]; down = 1 / (1 + env.scalar('down1', positive=True)[0])
    mn, mx = hp['mn'], hp['mn'] + hp['width']
    s = strat.Adaptive(damping=hp['damping'], high=hp['high'], low=hp['low'], up=up, down=down, min=mn, max=mx)
    pg, lmn, lmx = lm_group(env, s)
    last, loss, J, D, R = strategy_inputs(env)
    q = quality(T, last, loss, J, D, R)
    lam = pg['damping']
    J_0, D_0, R_0 = J.clone(), D.clone(), R.clone()
    s.update(pg, last=last, loss=loss, J=J, D=D, R=R)
    # frame: the strategy reads J, D, R (LM re-reads the residual for the right-hand side of the next trial) - it must not write them
    env.eq('update leaves J untouched', J, J_0); env.eq('update leaves D untouched', D, D_0); env.eq('update leaves R untouched', R, R_0)
    if bool(q > hp['high']): new = lam * down
    elif bool(q > hp['low']): new = lam
    else: new = lam * up
    env.eq('damping moves as documented (down / same / up) then clamps', pg['damping'], clampspec(new, mn, mx))
    env.holds('damping within [min, max]', (pg['damping'] >= mn) & (pg['damping'] <= mx))
    check_lm_bounds(env, pg, lmn, lmx)


@obligation('C08.strategy.TrustRegion', functions=[f'{STR}:TrustRegion.update', f'{STR}:TrustRegion.__init__', f'{OPT}:LevenbergMarquardt.__init__'], max_paths=128)
def s_tr(env):
    strat = env.load(STR); T = env.T
    hp = {k: env.scalar(k, positive=True)[0] for k in ('radius', 'high', 'low', 'mn', 'width')}
    up = 1 + env.scalar('up1', positive=True)[0]; down = 1 / (1 + env.scalar('down1', positive=True)[0])
    factor = 1 / (1 + env.scalar('factor1', positive=True)[0])
    mn, mx = hp['mn'], hp['mn'] + hp['width']
    s = strat.TrustRegion(radius=hp['radius'], high=hp['high'], low=hp['low'], up=up, down=down, factor=factor, min=mn, max=mx)
    pg, lmn, lmx = lm_group(env, s)
    # arbitrary current state of the group: damping = 1/radius_cur, current down factor
    rad = env.scalar('radius_cur', positive=True)[0]; dcur = env.scalar('down_cur', positive=True)[0]
    pg['damping'] = 1 / rad; pg['down'] = dcur
    last, loss, J, D, R = strategy_inputs(env)
    q = quality(T, last, loss, J, D, R)
    J_0, D_0, R_0 = J.clone(), D.clone(), R.clone()
    s.update(pg, last=last, loss=loss, J=J, D=D, R=R)
    # frame: the strategy reads J, D, R (LM re-reads the residual for the right-hand side of the next trial) - it must not write them
    env.eq('update leaves J untouched', J, J_0); env.eq('update leaves D untouched', D, D_0); env.eq('update leaves R untouched', R, R_0)
    if bool(q > hp['high']): nr, nd = up * rad, down
    elif bool(q > hp['low']): nr, nd = rad, down
    else: nr, nd = rad * dcur, dcur * factor
    env.eq('radius moves as documented (up / same / times the shrinking down-factor) then clamps', pg['radius'], clampspec(nr, mn, mx))
    env.eq('down factor resets / shrinks as documented then clamps', pg['down'], clampspec(nd, mn, mx))
    env.eq('damping is the reciprocal radius', pg['damping'], 1 / pg['radius'])
    env.holds('radius within [min, max]', (pg['radius'] >= mn) & (pg['radius'] <= mx))
    check_lm_bounds(env, pg, lmn, lmx)


@obligation('C08.canary.accepts_worse', functions=[f'{OPT}:LevenbergMarquardt.step'], canary=True,
            loops={OPT: {('LevenbergMarquardt.step', 2): 'LM.while'}}, max_paths=64)
def canary(env):
    """a wrong postcondition (always strictly better) must be refuted"""
    if not env.sym:
        env.holds('x', False); return
    opt, ghost, solves, strat = build_lm(env, 1, True, False)
    P0 = ghost.point(); pg = opt.param_groups[0]
    lc = LMWhile(env, opt, ghost, P0, pg, solves)
    loopcut.DISPATCH.contracts['LM.while'] = lc
    opt.step(None)
    env.holds('always strictly better', ghost.loss() < lc.L0)


# "the value returned is the model loss at the parameters left behind": the step contracts above treat the loss as a ghost function ell
# of the parameter point, evaluated by RobustModel.loss.  That loss() IS the documented robust loss - sum over ALL residual outputs of
# kernel_k(|r|^2), one shared kernel serving every output - is the selection contract of c09_kernels.py, discharged in this check too.
from contracts import c09_kernels as _c09
obligation('C08.callee.robust_loss', functions=['pypose.optim.optimizer:RobustModel.loss'], max_paths=16,
           note='callee contract of the loss the LM / GN steps report (same contract function as C09.selection)')(_c09.selection)
