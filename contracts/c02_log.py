"""C02 - Log is the principal inverse of Exp on all four groups.

Contracts on SO3_Log.forward (3 regimes), pm, so3_Jl_inv, SE3_Log, RxSO3_Log, Sim3_Log, *Type.Log.
Top-level postconditions come from the property statement:
  Exp(Log X) is the same transformation as X; |rot(Log X)| <= pi; Log(-q) = Log(q) away from angle pi;
  Log(Inv X) = -Log X; Log(Exp x) = x for |rot x| < pi.
"""
from fractions import Fraction as Q
import sympy as sp
from pvc.registry import obligation, bounded, property_meta
from specs import lie as S, expmap as EM
from contracts.common import *

property_meta('C02', level='proof', min_obligations=30,
              trusted_base=['atan axioms: |atan| < pi/2, odd, sin/cos(atan r) = r/sqrt(1+r^2), 1/sqrt(1+r^2); atan(tan h) = h for |h| < pi/2',
                            'sign of sin/cos on [0, pi/2] (contract precondition of the Log(Exp x) = x lemma)',
                            'L-taylor for the |v| <= eps regime (coefficients compared exactly)'],
              assumptions=['det W(phi, sigma) != 0 for |phi| <= pi (W is singular only at sigma = 0, theta = 2 pi k): assumed precondition of Sim3_Log',
                           'float accuracy near angle pi / |w| <= eps: bounded stand-in'],
              explanation='regime contracts of the quaternion log in atan atoms; inverse lemmas by normal form over the atom relations')

QREG = ('generic', 'identity', 'nearpi', 'halfturn', 'small', 'neg', 'weps')


def so3_log_spec(env, X):
    """principal log of the unit quaternion (v, w), |v| > eps, |w| > eps: 2 atan(|v|/w) v/|v|"""
    T = env.T
    v, w = X[0:3], X[3]
    n = T.linalg.norm(v, dim=-1)
    return 2 * T.atan(n / w) / n * v


@obligation('C02.pm', functions=['pypose.basics.ops:pm'])
def pm_(env):
    ops = env.load('pypose.basics.ops'); T = env.T
    w = env.scalar('w', regimes=('generic', 'zero', 'tiny'))
    r = ops.pm(w)
    if bool((w >= 0).all()):
        env.eq('plus_for_nonnegative', r, 1)
    else:
        env.eq('minus_for_negative', r, -1)


@obligation('C02.SO3_Log.regimes', functions=[f'{OPS}:SO3_Log.forward', 'pypose.basics.ops:pm'], max_paths=16)
def so3log(env):
    op = env.load(OPS); T = env.T
    X = env.unitquat('X', regimes=QREG)
    v, w = X[0:3], X[3]
    n = T.linalg.norm(v, dim=-1)
    eps = env.eps(X)
    out = op.SO3_Log.forward(X)
    big_v = bool(n > eps); big_w = bool(w.abs() > eps)
    th = T.linalg.norm(out, dim=-1)
    if big_v and big_w:
        env.eq('regime1_is_principal_log', out, so3_log_spec(env, X))
        env.holds('rotation_norm_below_pi', th < T.pi)
    elif big_v:
        env.eq('regime2_angle_pi', out, (1 if bool(w >= 0) else -1) * T.pi / n * v)
        env.eq('regime2_norm_is_pi', th, T.pi)
    else:
        # |v| <= eps: third-order Taylor of 2 atan(n/w)/n in n, coefficients exact
        nn, ww = sp.symbols('n w')
        ser = sp.series(2 * sp.atan(nn / ww) / nn, nn, 0, 4).removeO()
        coef = sp.Poly(ser, nn).all_coeffs()[::-1]      # ascending in n
        val = 0
        for k, c in enumerate(coef):
            c = sp.together(c)
            num, den = sp.fraction(c)
            term = Q(int(num)) if num.is_Integer else None
            p = int(sp.degree(den, ww)) if den.has(ww) else 0
            lead = sp.Poly(den, ww).LC() if den.has(ww) else den
            term = Q(int(num), int(lead))
            val = val + term * n ** k / w ** p
        env.eq('regime3_taylor_exact_order3', out, val * v)
    env.safe('defined', out)


@obligation('C02.SO3_Log.symmetries', functions=[f'{OPS}:SO3_Log.forward', f'{OPS}:SO3_Inv.forward'], max_paths=32)
def sym_(env):
    op = env.load(OPS); T = env.T
    X = env.unitquat('X', regimes=QREG)
    n = T.linalg.norm(X[0:3], dim=-1)
    eps = env.eps(X)
    out = op.SO3_Log.forward(X)
    env.eq('log_of_inverse_is_minus_log', op.SO3_Log.forward(op.SO3_Inv.forward(X)), -out)
    if bool(n > eps) and bool(X[3].abs() > eps):
        env.eq('log_of_negated_quaternion', op.SO3_Log.forward(-X), out)


@obligation('C02.SO3.Exp_of_Log', functions=[f'{OPS}:SO3_Log.forward', f'{OPS}:so3_Exp.forward'], max_paths=64)
def explog(env):
    """Exp(Log X) = +-X (same rotation), regime |v| > eps, |w| > eps"""
    op = env.load(OPS); T = env.T
    X = env.unitquat('X', regimes=QREG)
    n = T.linalg.norm(X[0:3], dim=-1)
    eps = env.eps(X)
    env.assume('regime 1 (|v| > eps, |w| > eps)', (n > eps) & (X[3].abs() > eps))
    out = op.SO3_Log.forward(X)
    th = T.linalg.norm(out, dim=-1)
    env.assume('Log X above the small-angle switch of Exp', th > eps)
    Y = op.so3_Exp.forward(out)
    sgn = 1 if bool(X[3] > 0) else -1
    env.eq('exp_log_is_same_rotation', Y, sgn * X)
    env.eq('same_matrix', S.quat_matrix(T, Y), S.quat_matrix(T, X))


@obligation('C02.so3.Log_of_Exp', functions=[f'{OPS}:SO3_Log.forward', f'{OPS}:so3_Exp.forward'], max_paths=64)
def logexp(env):
    """Log(Exp x) = x for eps < |x| < pi (principal branch)"""
    op = env.load(OPS); T = env.T
    x = env.vec('x', 3, regimes=('generic', 'small'))
    th = T.linalg.norm(x, dim=-1)
    eps = env.eps(x)
    env.assume('eps < |x| < pi', (th > eps) & (th < T.pi))
    env.angle_base(th / 2, principal=True)
    s, c = T.sin(th / 2), T.cos(th / 2)
    # first-quadrant signs of sin/cos for 0 < theta/2 < pi/2 (trusted trigonometric fact)
    env.assume('sin, cos > 0 on (0, pi/2)', (s > 0) & (c > 0))
    X = op.so3_Exp.forward(x)
    env.assume('Exp x in regime 1 of Log', (T.linalg.norm(X[0:3], dim=-1) > eps) & (X[3].abs() > eps))
    y = op.SO3_Log.forward(X)
    env.eq('log_exp_is_identity', y, x)


@obligation('C02.so3_Jl_inv', functions=[f'{OPS}:so3_Jl_inv', f'{OPS}:so3_Jl'], max_paths=8)
def jlinv(env):
    op = env.load(OPS); T = env.T
    x = env.vec('x', 3, regimes=('generic', 'zero', 'tiny', 'subeps', 'small', 'large'))
    th = T.linalg.norm(x, dim=-1)
    env.angle_base(th / 2)
    Ji = op.so3_Jl_inv(x); J = op.so3_Jl(x)
    I = S.eye(T, 3, x[0])
    if th > env.eps(x):
        env.assume('sin(theta/2) != 0 (theta not a multiple of 2 pi)', T.sin(th / 2) != 0)
        env.eq('Jl_times_Jl_inv_is_identity', J @ Ji, I)
        env.eq('Jl_inv_times_Jl_is_identity', Ji @ J, I)
    else:
        env.eq_order('taylor_product_identity_to_order3', J @ Ji, I, x, 4)
    env.safe('defined', Ji)


@obligation('C02.SE3_Log', functions=[f'{OPS}:SE3_Log.forward', f'{OPS}:so3_Jl_inv'], max_paths=16)
def se3log(env):
    op = env.load(OPS); T = env.T
    t = env.vec('t', 3); q = env.unitquat('q', regimes=QREG)
    out = op.SE3_Log.forward(T.cat([t, q], -1))
    phi = op.SO3_Log.forward(q)
    env.eq('rotation_part_is_SO3_Log', out[3:6], phi)
    env.eq('translation_part_is_Jl_inv_t', out[0:3], op.so3_Jl_inv(phi) @ t)


@obligation('C02.RxSO3_Log', functions=[f'{OPS}:RxSO3_Log.forward', f'{OPS}:rxso3_Exp.forward'], max_paths=16)
def rxlog(env):
    op = env.load(OPS); T = env.T
    q = env.unitquat('q', regimes=QREG); s = env.scalar('s', positive=True)
    out = op.RxSO3_Log.forward(T.cat([q, s], -1))
    env.eq('rotation_part_is_SO3_Log', out[0:3], op.SO3_Log.forward(q))
    env.eq('scale_part_is_log', out[3:4], T.log(s))
    env.eq('exp_of_log_scale', T.exp(out[3:4]), s)
    env.safe('defined', out)
    sg = env.scalar('sigma')
    env.eq('log_of_exp_scale', op.RxSO3_Log.forward(T.cat([q, T.exp(sg)], -1))[3:4], sg)


def stub_Ws(env, op):
    """by-contract: rxso3_Ws is replaced by an abstract invertible 3x3 matrix (its own contract is C01.rxso3_Ws)"""
    if not env.sym: return None
    W = env.fresh_matrix('W', 3, 3)
    env.stub(op, 'rxso3_Ws', lambda x: W)
    from pvc import storch as st
    env.assume('det W(phi, sigma) != 0', st.det(W) != 0)
    return W


@obligation('C02.Sim3_Log', functions=[f'{OPS}:Sim3_Log.forward'], max_paths=64,
            note='rxso3_Ws by contract (abstract invertible matrix); torch inverse = adjugate/det')
def simlog(env):
    op = env.load(OPS); T = env.T
    t = env.vec('t', 3); q = env.unitquat('q', regimes=QREG); s = env.scalar('s', positive=True)
    qs = T.cat([q, s], -1)
    stub_Ws(env, op)
    out = op.Sim3_Log.forward(T.cat([t, qs], -1))
    ps = op.RxSO3_Log.forward(qs)
    env.eq('rotation_scale_part_is_RxSO3_Log', out[3:7], ps)
    W = op.rxso3_Ws(ps)
    env.eq('W_tau_recovers_translation', W @ out[0:3], t)


for g in GROUPS:
    def mk(g=g):
        @obligation(f'C02.{g}Type.Log', functions=[f'{LT}:{g}Type.Log', f'{LT}:LieTensor.Log'], max_paths=32)
        def disp(env):
            op = env.load(OPS); pp = env.load('pypose')
            X = group_elem(env, g, 'X', qregimes=QREG)
            if g == 'Sim3': stub_Ws(env, op)
            x = lie(pp, g, X).Log()
            env.holds('returns_algebra_ltype', x.ltype is altype(pp, g))
            env.eq('is_Function_forward', raw(x), getattr(op, g + '_Log').forward(X))
    mk()


@obligation('C02.canary.wrong_sign', functions=[f'{OPS}:SO3_Log.forward'], canary=True, max_paths=16)
def canary(env):
    op = env.load(OPS); T = env.T
    X = env.unitquat('X', regimes=QREG)
    env.eq('log_of_inverse_is_log', op.SO3_Log.forward(op.SO3_Inv.forward(X)), op.SO3_Log.forward(X))


@bounded('C02.float_roundtrip', functions=[f'{OPS}:SO3_Log.forward', f'{OPS}:SE3_Log.forward', f'{OPS}:RxSO3_Log.forward', f'{OPS}:Sim3_Log.forward'])
def float_roundtrip(rng, tier):
    """float32/float64: Exp(Log X) is the same transformation, |rot Log X| <= pi, Log(-q) = Log(q) away from pi, Log(Inv X) = -Log X,
    Log(Exp x) = x for |rot x| < pi; quaternions in both hemispheres, |w| within eps of 0, |v| within eps of 0, angles dense near 0 and pi,
    scales in [e^-8, e^8]"""
    import torch, math, pypose as pp
    N = 120 if tier == 'quick' else 1500
    fails = []; evals = 0; samples = []
    def quat(eps):
        ax = [rng.gauss(0, 1) for _ in range(3)]; n = math.sqrt(sum(a * a for a in ax)); ax = [a / n for a in ax]
        kind = rng.choice(['generic', 'near0', 'nearpi', 'w_eps', 'w_zero', 'v_eps', 'neg'])
        if kind == 'generic': ang = rng.uniform(-math.pi, math.pi)
        elif kind == 'near0': ang = rng.choice([0.0, eps * 0.5, eps * 2, math.sqrt(eps), 1e-5])
        elif kind == 'nearpi': ang = math.pi - rng.choice([0.0, 1e-12, 1e-9, 1e-6, 1e-3])
        elif kind == 'w_eps': ang = math.pi - 2 * rng.choice([eps * 0.3, eps * 0.9, eps * 1.1, eps * 3])
        elif kind == 'v_eps': ang = 2 * rng.choice([eps * 0.3, eps * 0.9, eps * 1.1, eps * 3])
        elif kind == 'w_zero': return [ax[0], ax[1], ax[2], rng.choice([0.0, -0.0])], kind
        else: ang = rng.uniform(math.pi, 2 * math.pi)
        s, c = math.sin(ang / 2), math.cos(ang / 2)
        return [ax[0] * s, ax[1] * s, ax[2] * s, c], kind
    for g in ('SO3', 'SE3', 'RxSO3', 'Sim3'):
        for dtype in (torch.float64, torch.float32):
            eps = torch.finfo(dtype).eps
            tol = 256 * eps; tolt = 64 * math.sqrt(eps)
            for k in range(N):
                q, kind = quat(eps)
                t = [rng.gauss(0, 1) * rng.choice([0, 1e-3, 1, 50]) for _ in range(3)]
                s = [math.exp(rng.uniform(-8, 8))]
                data = {'SO3': q, 'SE3': t + q, 'RxSO3': q + s, 'Sim3': t + q + s}[g]
                X = pp.LieTensor(torch.tensor(data, dtype=dtype), ltype=getattr(pp, g + '_type'))
                x = X.Log(); evals += 1
                xt = x.tensor().double()
                rot = xt[3:6] if g in ('SE3', 'Sim3') else xt[0:3]
                sig = f'{g}/{str(dtype).split(".")[-1]}/{kind}'
                if not bool(torch.isfinite(xt).all()):
                    fails.append(dict(clause='log_finite', signature=sig, q=q)); continue
                if float(rot.norm()) > math.pi * (1 + 8 * eps):
                    fails.append(dict(clause='log_rotation_norm_at_most_pi', signature=sig, norm=float(rot.norm())))
                if g in ('RxSO3', 'Sim3'):
                    # the scale is well conditioned over the whole range [e^-8, e^8]: sigma = log(s) to working accuracy, also for s << 1
                    s_dt = float(X.tensor()[-1].double()); sg = float(xt[-1])
                    if abs(sg - math.log(s_dt)) > 16 * eps * (1 + abs(math.log(s_dt))):
                        fails.append(dict(clause='log_scale_is_log_of_scale', signature=sig + ('/s<1' if s_dt < 1 else '/s>=1'), err=abs(sg - math.log(s_dt)), s=s_dt))
                M1, M0 = x.Exp().matrix().double(), X.matrix().double()
                scale_m = float(M0[:3, :3].abs().max())
                if float((M1[:3, :3] - M0[:3, :3]).abs().max()) > tol * scale_m * 4:
                    fails.append(dict(clause='exp_log_same_rotation_scale', signature=sig, err=float((M1[:3, :3] - M0[:3, :3]).abs().max()) / scale_m, q=q))
                if g in ('SE3', 'Sim3'):
                    tn = float(M0[:3, 3].abs().max())
                    if tn > 0 and float((M1[:3, 3] - M0[:3, 3]).abs().max()) > tolt * tn and kind not in ('w_eps', 'w_zero', 'nearpi'):
                        fails.append(dict(clause='exp_log_same_translation', signature=sig, err=float((M1[:3, 3] - M0[:3, 3]).abs().max()) / tn, q=q))
                    # close to the half turn (but not within eps of it) tau = Jl^-1(phi) t is still well conditioned: working accuracy
                    if tn > 0 and kind == 'nearpi' and g == 'SE3' and float((M1[:3, 3] - M0[:3, 3]).abs().max()) > 256 * eps * tn:
                        fails.append(dict(clause='exp_log_same_translation_near_pi', signature=sig, err=float((M1[:3, 3] - M0[:3, 3]).abs().max()) / tn, q=q))
                li = X.Inv().Log().tensor().double()
                if kind not in ('nearpi', 'w_eps', 'w_zero') and float((li + xt).abs().max()) > tolt * (1 + float(xt.abs().max())):
                    fails.append(dict(clause='log_of_inverse_is_minus_log', signature=sig, err=float((li + xt).abs().max())))
                if kind in ('generic', 'near0', 'neg', 'v_eps'):
                    d2 = list(data); o = 3 if g in ('SE3', 'Sim3') else 0
                    for j in range(4): d2[o + j] = -d2[o + j]
                    x2 = pp.LieTensor(torch.tensor(d2, dtype=dtype), ltype=X.ltype).Log().tensor().double()
                    if float((x2 - xt).abs().max()) > tolt * (1 + float(xt.abs().max())):
                        fails.append(dict(clause='log_of_negated_quaternion', signature=sig, err=float((x2 - xt).abs().max())))
                if k < 1: samples.append(dict(type=g, kind=kind))
            # Log(Exp x) = x
            probes = []
            if g == 'Sim3':       # directed probes of the corner regimes recorded as known findings (same as C01)
                probes = [[0.3, -0.2, 0.5, 0.2 * eps, -0.5 * eps, 0.1 * eps, 1.7 * eps], [0.3, -0.2, 0.5, 0, 0.9 * eps, 0, -3.1 * eps],
                          [-0.03, -0.22, -0.45, 0.4 * eps, -0.35 * eps, 0.8 * eps, -0.875 * eps],
                          [0.3, -0.2, 0.5, 2 * eps, -3 * eps, 1 * eps, 2.5 * eps], [0.3, -0.2, 0.5, 40 * eps, 10 * eps, -20 * eps, 30 * eps]]
            for k in range(N // 2 + len(probes)):
                from contracts import floatacc as FA
                a = S.ALG[g]
                xv = probes[k - N // 2] if k >= N // 2 else FA.sample_algebra(rng, a, eps)
                rv = xv[3:6] if g in ('SE3', 'Sim3') else xv[0:3]
                rn = math.sqrt(sum(v * v for v in rv))
                if rn >= math.pi - 1e-2: continue
                xx = pp.LieTensor(torch.tensor(xv, dtype=dtype), ltype=getattr(pp, a + '_type'))
                y = xx.Exp().Log().tensor().double(); evals += 1
                ref = xx.tensor().double()
                err = float((y - ref).abs().max()) / (1e-300 + max(1.0, float(ref.abs().max())))
                if err > tolt:
                    th_ = 'theta<=eps' if rn <= eps else ('theta in (eps,sqrt(eps)]' if rn <= math.sqrt(eps) else 'theta>sqrt(eps)')
                    sg_ = '' if g in ('SO3', 'SE3') else (',|sigma|>eps' if abs(xv[-1]) > eps else ',|sigma|<=eps')
                    fails.append(dict(clause='log_exp_is_identity', signature=f'{a}/{str(dtype).split(".")[-1]}/{th_}{sg_}', err=err, x=xv))
    # BATCHES that mix the regimes of the code (identity rotation, tiny angle, near pi, exactly pi, generic; unit and non-unit scale) in several
    # orders: Log of the batch is Log of each item, whatever its batch mates and its position (masked / scattered computations show here)
    import itertools
    for dtype in (torch.float64, torch.float32):
        eps = torch.finfo(dtype).eps
        def qz(axis, ang):
            ax = torch.tensor(axis, dtype=torch.float64); ax = ax / ax.norm()
            return torch.cat([ax * math.sin(ang / 2), torch.tensor([math.cos(ang / 2)], dtype=torch.float64)])
        quats = [torch.tensor([0., 0, 0, 1], dtype=torch.float64), qz([1., 2, 3], 1e-9), qz([1., -1, 0.5], 1.1), qz([0.2, 1, -1], math.pi - 1e-6), torch.tensor([0.6, 0.0, 0.8, 0.0], dtype=torch.float64), qz([3., 1, 2], 2.9)]
        trans = torch.randn(6, 3, dtype=torch.float64); scal = torch.tensor([1.0, 2.5, 1.0, 0.3, 1.0, 1.7], dtype=torch.float64).unsqueeze(-1)
        Q4 = torch.stack(quats, 0)
        full = {'SO3': Q4, 'SE3': torch.cat([trans, Q4], -1), 'RxSO3': torch.cat([Q4, scal], -1), 'Sim3': torch.cat([trans, Q4, scal], -1)}
        for g, data in full.items():
            X = pp.LieTensor(data.to(dtype), ltype=getattr(pp, g + '_type'))
            single = torch.stack([X[i].Log().tensor() for i in range(6)], 0)
            for order in ([0, 1, 2, 3, 4, 5], [5, 4, 3, 2, 1, 0], [2, 0, 4, 1, 5, 3], [1, 2, 0, 5, 3, 4]):
                try:
                    Lb = X[order].Log().tensor(); evals += 1
                except Exception as e:
                    fails.append(dict(clause='log_of_a_mixed_batch_raises', signature=f'{g}/{str(dtype).split(".")[-1]}', order=order, error=f'{type(e).__name__}: {e}'[:140])); break
                if not torch.allclose(Lb, single[order], atol=64 * eps, rtol=64 * eps, equal_nan=False):
                    fails.append(dict(clause='log_of_a_mixed_batch_is_itemwise', signature=f'{g}/{str(dtype).split(".")[-1]}', order=order,
                                      err=float((Lb - single[order]).abs().nan_to_num(nan=1e9).max())))
                    break
            # batches whose extents coincide with the vector length (3, 3x3, 4): Inv and Log(Inv X) = -Log X are item-wise there too
            for idx in ([2, 0, 5], [[2, 0, 5], [1, 5, 2], [0, 2, 1]], [5, 2, 0, 1]):
                Xs = X[torch.tensor(idx)]; flat = torch.tensor(idx).reshape(-1).tolist()
                try:
                    Ib = Xs.Inv(); Lb = Ib.Log().tensor(); evals += 1
                except Exception as e:
                    fails.append(dict(clause='inverse_of_a_batch_raises', signature=f'{g}/{str(dtype).split(".")[-1]}', error=f'{type(e).__name__}: {e}'[:140])); break
                Ii = torch.stack([X[i].Inv().tensor() for i in flat], 0).reshape(Ib.tensor().shape)
                Li = torch.stack([X[i].Log().tensor() for i in flat], 0).reshape(Lb.shape)
                if not torch.allclose(Ib.tensor(), Ii, atol=64 * eps, rtol=64 * eps):
                    fails.append(dict(clause='inverse_of_a_batch_is_itemwise', signature=f'{g}/{str(dtype).split(".")[-1]}', lshape=list(Ib.lshape), err=float((Ib.tensor() - Ii).abs().max())))
                elif not torch.allclose(Lb, -Li, atol=4096 * eps, rtol=4096 * eps):
                    fails.append(dict(clause='log_of_inverse_is_minus_log', signature=f'{g}/{str(dtype).split(".")[-1]}/batch', lshape=list(Ib.lshape), err=float((Lb + Li).abs().max())))
    best = {}
    for f in fails:
        kk = (f['clause'], f['signature'])
        if kk not in best or f.get('err', 0) > best[kk].get('err', 0): best[kk] = f
    return dict(evaluations=evals, distinct_nontrivial=evals, rule='random valid group elements over the stated quaternion kinds, translations and scales; all distinct',
                bound=f'{N} elements per (type, dtype)', failures=list(best.values())[:12], samples=samples[:4])


# callee contract: Sim3_Log above is verified against an abstract invertible W; that W is the documented coupling matrix is the
# contract of rxso3_Ws (stated once, in c01_exp.py) and is discharged in this check too, so that C02 does not rest on another run.
from contracts import c01_exp as _c01
obligation('C02.callee.rxso3_Ws', functions=[f'{OPS}:rxso3_Ws'], max_paths=16,
           note='callee contract assumed by C02.Sim3_Log (same contract function as C01.rxso3_Ws)')(_c01.ws)
