"""C02 - Log is the principal inverse of Exp on all four groups.

Contracts on SO3_Log.forward (3 regimes), pm, so3_Jl_inv, SE3_Log, RxSO3_Log, Sim3_Log, *Type.Log.
Top-level postconditions come from the property statement:
  Exp(Log X) is the same transformation as X; |rot(Log X)| <= pi; Log(-q) = Log(q) away from angle pi;
  Log(Inv X) = -Log X; Log(Exp x) = x for |rot x| < pi.
"""
from fractions import Fraction as Q
import sympy as sp
from pvc.registry import obligation, bounded, property_meta
from specs import lie as S, expmap as EM
from contracts.common import *

property_meta('C02', level='proof', min_obligations=30,
              trusted_base=['atan axioms: |atan| < pi/2, odd, sin/cos(atan r) = r/sqrt(1+r^2), 1/sqrt(1+r^2); atan(tan h) = h for |h| < pi/2',
                            'sign of sin/cos on [0, pi/2] (contract precondition of the Log(Exp x) = x lemma)',
                            'L-taylor for the |v| <= eps regime (coefficients compared exactly)'],
              assumptions=['det W(phi, sigma) != 0 for |phi| <= pi (W is singular only at sigma = 0, theta = 2 pi k): assumed precondition of Sim3_Log',
                           'float accuracy near angle pi / |w| <= eps: bounded stand-in'],
              explanation='regime contracts of the quaternion log in atan atoms; inverse lemmas by normal form over the atom relations')

QREG = ('generic', 'identity', 'nearpi', 'small', 'neg')


def so3_log_spec(env, X):
    """principal log of the unit quaternion (v, w), |v| > eps, |w| > eps: 2 atan(|v|/w) v/|v|"""
    T = env.T
    v, w = X[0:3], X[3]
    n = T.linalg.norm(v, dim=-1)
    return 2 * T.atan(n / w) / n * v


@obligation('C02.pm', functions=['pypose.basics.ops:pm'])
def pm_(env):
    ops = env.load('pypose.basics.ops'); T = env.T
    w = env.scalar('w', regimes=('generic', 'zero', 'tiny'))
    r = ops.pm(w)
    if bool((w >= 0).all()):
        env.eq('plus_for_nonnegative', r, 1)
    else:
        env.eq('minus_for_negative', r, -1)


@obligation('C02.SO3_Log.regimes', functions=[f'{OPS}:SO3_Log.forward', 'pypose.basics.ops:pm'], max_paths=16)
def so3log(env):
    op = env.load(OPS); T = env.T
    X = env.unitquat('X', regimes=QREG)
    v, w = X[0:3], X[3]
    n = T.linalg.norm(v, dim=-1)
    eps = env.eps(X)
    out = op.SO3_Log.forward(X)
    big_v = bool(n > eps); big_w = bool(w.abs() > eps)
    th = T.linalg.norm(out, dim=-1)
    if big_v and big_w:
        env.eq('regime1_is_principal_log', out, so3_log_spec(env, X))
        env.holds('rotation_norm_below_pi', th < T.pi)
    elif big_v:
        env.eq('regime2_angle_pi', out, (1 if bool(w >= 0) else -1) * T.pi / n * v)
        env.eq('regime2_norm_is_pi', th, T.pi)
    else:
        # |v| <= eps: third-order Taylor of 2 atan(n/w)/n in n, coefficients exact
        nn, ww = sp.symbols('n w')
        ser = sp.series(2 * sp.atan(nn / ww) / nn, nn, 0, 4).removeO()
        coef = sp.Poly(ser, nn).all_coeffs()[::-1]      # ascending in n
        val = 0
        for k, c in enumerate(coef):
            c = sp.together(c)
            num, den = sp.fraction(c)
            term = Q(int(num)) if num.is_Integer else None
            p = int(sp.degree(den, ww)) if den.has(ww) else 0
            lead = sp.Poly(den, ww).LC() if den.has(ww) else den
            term = Q(int(num), int(lead))
            val = val + term * n ** k / w ** p
        env.eq('regime3_taylor_exact_order3', out, val * v)
    env.safe('defined', out)


@obligation('C02.SO3_Log.symmetries', functions=[f'{OPS}:SO3_Log.forward', f'{OPS}:SO3_Inv.forward'], max_paths=32)
def sym_(env):
    op = env.load(OPS); T = env.T
    X = env.unitquat('X', regimes=QREG)
    n = T.linalg.norm(X[0:3], dim=-1)
    eps = env.eps(X)
    out = op.SO3_Log.forward(X)
    env.eq('log_of_inverse_is_minus_log', op.SO3_Log.forward(op.SO3_Inv.forward(X)), -out)
    if bool(n > eps) and bool(X[3].abs() > eps):
        env.eq('log_of_negated_quaternion', op.SO3_Log.forward(-X), out)


@obligation('C02.SO3.Exp_of_Log', functions=[f'{OPS}:SO3_Log.forward', f'{OPS}:so3_Exp.forward'], max_paths=64)
def explog(env):
    """Exp(Log X) = +-X (same rotation), regime |v| > eps, |w| > eps"""
    op = env.load(OPS); T = env.T
    X = env.unitquat('X', regimes=QREG)
    n = T.linalg.norm(X[0:3], dim=-1)
    eps = env.eps(X)
    env.assume('regime 1 (|v| > eps, |w| > eps)', (n > eps) & (X[3].abs() > eps))
    out = op.SO3_Log.forward(X)
    th = T.linalg.norm(out, dim=-1)
    env.assume('Log X above the small-angle switch of Exp', th > eps)
    Y = op.so3_Exp.forward(out)
    sgn = 1 if bool(X[3] > 0) else -1
    env.eq('exp_log_is_same_rotation', Y, sgn * X)
    env.eq('same_matrix', S.quat_matrix(T, Y), S.quat_matrix(T, X))


@obligation('C02.so3.Log_of_Exp', functions=[f'{OPS}:SO3_Log.forward', f'{OPS}:so3_Exp.forward'], max_paths=64)
def logexp(env):
    """Log(Exp x) = x for eps < |x| < pi (principal branch)"""
    op = env.load(OPS); T = env.T
    x = env.vec('x', 3, regimes=('generic', 'small'))
    th = T.linalg.norm(x, dim=-1)
    eps = env.eps(x)
    env.assume('eps < |x| < pi', (th > eps) & (th < T.pi))
    env.angle_base(th / 2, principal=True)
    s, c = T.sin(th / 2), T.cos(th / 2)
    # first-quadrant signs of sin/cos for 0 < theta/2 < pi/2 (trusted trigonometric fact)
    env.assume('sin, cos > 0 on (0, pi/2)', (s > 0) & (c > 0))
    X = op.so3_Exp.forward(x)
    env.assume('Exp x in regime 1 of Log', (T.linalg.norm(X[0:3], dim=-1) > eps) & (X[3].abs() > eps))
    y = op.SO3_Log.forward(X)
    env.eq('log_exp_is_identity', y, x)


@obligation('C02.so3_Jl_inv', functions=[f'{OPS}:so3_Jl_inv', f'{OPS}:so3_Jl'], max_paths=8)
def jlinv(env):
    op = env.load(OPS); T = env.T
    x = env.vec('x', 3, regimes=('generic', 'zero', 'tiny', 'subeps', 'small', 'large'))
    th = T.linalg.norm(x, dim=-1)
    env.angle_base(th / 2)
    Ji = op.so3_Jl_inv(x); J = op.so3_Jl(x)
    I = S.eye(T, 3, x[0])
    if th > env.eps(x):
        env.assume('sin(theta/2) != 0 (theta not a multiple of 2 pi)', T.sin(th / 2) != 0)
        env.eq('Jl_times_Jl_inv_is_identity', J @ Ji, I)
        env.eq('Jl_inv_times_Jl_is_identity', Ji @ J, I)
    else:
        env.eq_order('taylor_product_identity_to_order3', J @ Ji, I, x, 4)
    env.safe('defined', Ji)


@obligation('C02.SE3_Log', functions=[f'{OPS}:SE3_Log.forward', f'{OPS}:so3_Jl_inv'], max_paths=16)
def se3log(env):
    op = env.load(OPS); T = env.T
    t = env.vec('t', 3); q = env.unitquat('q', regimes=QREG)
    out = op.SE3_Log.forward(T.cat([t, q], -1))
    phi = op.SO3_Log.forward(q)
    env.eq('rotation_part_is_SO3_Log', out[3:6], phi)
    env.eq('translation_part_is_Jl_inv_t', out[0:3], op.so3_Jl_inv(phi) @ t)


@obligation('C02.RxSO3_Log', functions=[f'{OPS}:RxSO3_Log.forward', f'{OPS}:rxso3_Exp.forward'], max_paths=16)
def rxlog(env):
    op = env.load(OPS); T = env.T
    q = env.unitquat('q', regimes=QREG); s = env.scalar('s', positive=True)
    out = op.RxSO3_Log.forward(T.cat([q, s], -1))
    env.eq('rotation_part_is_SO3_Log', out[0:3], op.SO3_Log.forward(q))
    env.eq('scale_part_is_log', out[3:4], T.log(s))
    env.eq('exp_of_log_scale', T.exp(out[3:4]), s)
    env.safe('defined', out)
    sg = env.scalar('sigma')
    env.eq('log_of_exp_scale', op.RxSO3_Log.forward(T.cat([q, T.exp(sg)], -1))[3:4], sg)


def stub_Ws(env, op):
    """by-contract: rxso3_Ws is replaced by an abstract invertible 3x3 matrix (its own contract is C01.rxso3_Ws)"""
    if not env.sym: return None
    W = env.fresh_matrix('W', 3, 3)
    env.stub(op, 'rxso3_Ws', lambda x: W)
    from pvc import storch as st
    env.assume('det W(phi, sigma) != 0', st.det(W) != 0)
    return W


@obligation('C02.Sim3_Log', functions=[f'{OPS}:Sim3_Log.forward'], max_paths=64,
            note='rxso3_Ws by contract (abstract invertible matrix); torch inverse = adjugate/det')
def simlog(env):
    op = env.load(OPS); T = env.T
    t = env.vec('t', 3); q = env.unitquat('q', regimes=QREG); s = env.scalar('s', positive=True)
    qs = T.cat([q, s], -1)
    stub_Ws(env, op)
    out = op.Sim3_Log.forward(T.cat([t, qs], -1))
    ps = op.RxSO3_Log.forward(qs)
    env.eq('rotation_scale_part_is_RxSO3_Log', out[3:7], ps)
    W = op.rxso3_Ws(ps)
    env.eq('W_tau_recovers_translation', W @ out[0:3], t)


for g in GROUPS:
    def mk(g=g):
        @obligation(f'C02.{g}Type.Log', functions=[f'{LT}:{g}Type.Log', f'{LT}:LieTensor.Log'], max_paths=32)
        def disp(env):
            op = env.load(OPS); pp = env.load('pypose')
            X = group_elem(env, g, 'X', qregimes=QREG)
            if g == 'Sim3': stub_Ws(env, op)
            x = lie(pp, g, X).Log()
            env.holds('returns_algebra_ltype', x.ltype is altype(pp, g))
            env.eq('is_Function_forward', raw(x), getattr(op, g + '_Log').forward(X))
    mk()


@obligation('C02.canary.wrong_sign', functions=[f'{OPS}:SO3_Log.forward'], canary=True, max_paths=16)
def canary(env):
    op = env.load(OPS); T = env.T
    X = env.unitquat('X', regimes=QREG)
    env.eq('log_of_inverse_is_log', op.SO3_Log.forward(op.SO3_Inv.forward(X)), op.SO3_Log.forward(X))
