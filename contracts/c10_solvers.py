"""C10 - linear solvers and sparse products return correct solutions or fail loudly.

PINV / LSTSQ: wrappers against the ASSUMED contracts of torch.linalg.pinv (Moore-Penrose) and
torch.linalg.lstsq (a least-squares solution): argument passing + result construction are proved;
"min-norm least squares" then is the textbook property of the pseudo-inverse.
Cholesky: against the assumed contract of cholesky_ex (info = 0 => L L^T = A, L lower; info != 0 => L
unspecified, finite) and cholesky_solve (solves (L L^T) x = b): on every non-raising path A x = b.
CG: the `for` loop is cut mechanically; invariant r = b - A x; hence the early exit returns x with
|b - A x| < tol |b| (all iteration counts, all n traced symbolically = 2), b = 0 returns 0.
Convergence within 10 n iterations and the sparse products are labelled bounded stand-ins on the real code.
"""
from fractions import Fraction as Q
from pvc.registry import obligation, bounded, property_meta
from pvc import loopcut
from contracts.common import *

property_meta('C10', level='proof', min_obligations=10,
              trusted_base=['assumed contracts of torch.linalg.pinv / lstsq / cholesky_ex / cholesky_solve (stated in this file)',
                            'Moore-Penrose pseudo-inverse gives the minimum-norm least-squares solution (textbook)',
                            'CG finite termination / convergence rate for SPD systems (textbook; bounded stand-in on the real code)'],
              assumptions=['CG convergence within 10 n iterations for kappa <= 1e3: bounded stand-in', 'block-sparse products: exhaustive small-pattern enumeration on the real code (stand-in)'],
              explanation='wrapper contracts against assumed library contracts; loop-cut CG invariant')

SOL = 'pypose.optim.solver'


def Msym(env, name, n, m):
    T = env.T
    return T.stack([env.vec(f'{name}{i}', m) for i in range(n)], 0)


@obligation('C10.PINV', functions=[f'{SOL}:PINV.forward', f'{SOL}:PINV.__init__'], no_validate=True,
            note='linalg.pinv by contract: the Moore-Penrose inverse of a full-rank argument ((A^T A)^-1 A^T tall, A^T (A A^T)^-1 wide); the cut-offs '
                 'are passed on unchanged (a cut-off that truncates is outside the contract); round-off: bounded stand-in C10.direct_solvers_float')
def pinv_(env):
    sol = env.load(SOL); T = env.T
    A_ = Msym(env, 'A', 3, 2); b = Msym(env, 'b', 3, 1)
    if env.sym:
        from pvc import storch as st
        calls = []
        def pinv(M, atol=None, rtol=None, hermitian=False):
            calls.append((M, atol, rtol, hermitian))
            Mt = M.transpose(-1, -2)
            if M.shape[-2] >= M.shape[-1]: return st.inverse(Mt @ M) @ Mt
            return Mt @ st.inverse(M @ Mt)
        st.set_external('linalg.pinv', pinv)
        env.assume('A has full column rank', st.det(A_.transpose(-1, -2) @ A_) != 0)
        s = sol.PINV(atol=Q(1, 10), rtol=Q(1, 100), hermitian=False)
        x = s(A_, b)
        At = A_.transpose(-1, -2)
        env.eq('result is the least-squares solution (A^T A)^-1 A^T b', x, st.inverse(At @ A_) @ At @ b)
        env.eq('normal equations A^T (A x - b) = 0', At @ (A_ @ x - b), T.zeros(2, 1))
        env.holds('every pinv call receives the configured cut-offs', len(calls) >= 1 and all(c[1] == Q(1, 10) and c[2] == Q(1, 100) for c in calls))
    else:
        x = sol.PINV()(A_, b)
        env.eq('normal equations A^T (A x - b) = 0', A_.transpose(-1, -2) @ (A_ @ x - b), T.zeros(2, 1, dtype=x.dtype))


@obligation('C10.LSTSQ', functions=[f'{SOL}:LSTSQ.forward'], no_validate=True)
def lstsq_(env):
    sol = env.load(SOL); T = env.T
    A_ = Msym(env, 'A', 3, 2); b = Msym(env, 'b', 3, 1)
    if env.sym:
        from pvc import storch as st
        X = env.fresh_matrix('X', 2, 1); calls = []
        class Res: solution = X
        def lstsq(A, B, rcond=None, driver=None):
            calls.append((A, B, rcond, driver)); return Res
        st.set_external('linalg.lstsq', lstsq)
        x = sol.LSTSQ(rcond=None, driver='gelsd')(A_, b)
        env.eq('result is the solution field of lstsq(A, b)', x, X)
        env.holds('lstsq receives A, b and the configured driver', calls[0][0] is A_ and calls[0][1] is b and calls[0][3] == 'gelsd')
    else:
        x = sol.LSTSQ()(A_, b)
        env.eq('normal equations A^T (A x - b) = 0', A_.transpose(-1, -2) @ (A_ @ x - b), T.zeros(2, 1, dtype=x.dtype))


def install_cholesky(env, A_):
    """assumed contract of cholesky_ex: info = 0 => (L lower, L L^T = A); info != 0 => L arbitrary finite"""
    from pvc import storch as st, algebra as A
    T = env.T
    state = {}
    def cholesky_ex(Am, upper=False, **k):
        ok = bool(env.scalar('info_is_zero', regimes=('generic',))[0] > 0)
        state['ok'] = ok
        if ok:
            a, b_, c = Am[0, 0], Am[1, 0], Am[1, 1]
            l00 = T.sqrt(a); l10 = b_ / l00; l11 = T.sqrt(c - l10 * l10)
            L = T.stack([T.stack([l00, l00 * 0]), T.stack([l10, l11])])
            return (L.transpose(-1, -2) if upper else L), st.tensor(0)
        L = env.fresh_matrix('Lgarbage', 2, 2)
        return L, st.tensor(1)
    st.set_external('linalg.cholesky_ex', cholesky_ex)
    return state


CHOL = {}


def chol_upper(env):
    return chol(env, upper=True)


def chol(env, upper=False):
    sol = env.load(SOL); T = env.T
    if not env.sym:
        return chol_numeric(env, upper=upper)
    a, c = env.scalar('a', positive=True)[0], env.scalar('c', positive=True)[0]
    b_ = env.scalar('b')[0]
    A_ = T.stack([T.stack([a, b_]), T.stack([b_, c])])
    rhs = Msym(env, 'r', 2, 1)
    state = install_cholesky(env, A_)
    s = sol.Cholesky(upper=upper)
    try:
        x = s(A_, rhs)
    except AssertionError:
        env.holds('raising is only allowed when the factorisation failed', not state['ok'])
        env._record('fails_loudly_when_not_positive_definite', 'proved', {'backend': 'path'})
        return
    if state['ok']:
        env.assume('positive definite: a > 0, a c - b^2 > 0', (a > 0) & (a * c - b_ * b_ > 0))
    env.eq('A x = b on every non-raising path (a failed factorisation must not return a vector)', A_ @ x, rhs)


obligation('C10.Cholesky', functions=[f'{SOL}:Cholesky.forward'], max_paths=16, no_validate=True)(chol)
obligation('C10.Cholesky.upper', functions=[f'{SOL}:Cholesky.forward', f'{SOL}:Cholesky.__init__'], max_paths=16, no_validate=True,
           note='the upper=True option: the factor returned by cholesky_ex(upper=True) is used as an upper factor')(chol_upper)


@obligation('C10.Cholesky.batch', functions=[f'{SOL}:Cholesky.forward'], max_paths=32, no_validate=True,
            note='cholesky_ex by contract, per batch item: info_i = 0 => L_i L_i^T = A_i; info_i != 0 => L_i arbitrary')
def chol_batch(env):
    """a batch mixing positive-definite and other matrices: the call raises unless EVERY factorisation succeeded"""
    sol = env.load(SOL); T = env.T
    if not env.sym:
        return chol_numeric(env, batch=True)
    from pvc import storch as st
    items = []
    for i in range(2):
        a, c = env.scalar(f'a{i}', positive=True, regimes=('generic',))[0], env.scalar(f'c{i}', positive=True, regimes=('generic',))[0]
        b_ = env.scalar(f'b{i}', regimes=('generic',))[0]
        items.append((a, b_, c))
    A_ = T.stack([T.stack([T.stack([a, b_]), T.stack([b_, c])]) for a, b_, c in items], 0)
    rhs = T.stack([Msym(env, f'r{i}_', 2, 1) for i in range(2)], 0)
    oks = []
    def cholesky_ex(Am, upper=False, **k):
        Ls, infos = [], []
        for i in range(2):
            ok = bool(env.scalar(f'info{i}_is_zero', regimes=('generic',))[0] > 0)
            oks.append(ok)
            if ok:
                a, b_, c = Am[i, 0, 0], Am[i, 1, 0], Am[i, 1, 1]
                l00 = T.sqrt(a); l10 = b_ / l00; l11 = T.sqrt(c - l10 * l10)
                L = T.stack([T.stack([l00, l00 * 0]), T.stack([l10, l11])])
            else:
                L = env.fresh_matrix(f'Lgarbage{i}', 2, 2)
            Ls.append(L.transpose(-1, -2) if upper else L); infos.append(0 if ok else 1)
        return T.stack(Ls, 0), st.tensor(infos)
    st.set_external('linalg.cholesky_ex', cholesky_ex)
    try:
        x = sol.Cholesky()(A_, rhs)
    except AssertionError:
        env.holds('raising is only allowed when a factorisation failed', not all(oks))
        env._record('fails_loudly_when_an_item_is_not_positive_definite', 'proved', {'backend': 'path'})
        return
    env.holds('no vector is returned unless every factorisation of the batch succeeded', all(oks))
    for i, (a, b_, c) in enumerate(items):
        if oks[i]: env.assume(f'item {i} positive definite', (a > 0) & (a * c - b_ * b_ > 0))
    if all(oks):
        env.eq('A_i x_i = b_i for every item', A_ @ x, rhs)


def chol_numeric(env, batch=False, upper=False):
    import torch
    sol = env.load(SOL)
    rng = env.rng
    if batch:
        n = rng.randrange(1, 5); B = rng.randrange(2, 4)
        g = torch.Generator().manual_seed(rng.randrange(1 << 30))
        kinds = [rng.choice(['spd', 'spd', 'indefinite', 'singular']) for _ in range(B)]
        mats = []
        for kind in kinds:
            Mx = torch.randn(n, n, dtype=torch.float64, generator=g)
            if kind == 'spd': Ai = Mx @ Mx.T + torch.eye(n, dtype=torch.float64)
            elif kind == 'indefinite': Ai = Mx + Mx.T; Ai[0, 0] = -abs(Ai[0, 0]) - 1
            else: Ai = (Mx @ Mx.T) * 0 if n == 1 else (Mx[:, :1] @ Mx[:, :1].T)
            mats.append(Ai)
        A_ = torch.stack(mats, 0); b = torch.randn(B, n, 1, dtype=torch.float64, generator=g)
        env.sample['kinds'] = [k == 'spd' for k in kinds] + [n]
        try:
            x = sol.Cholesky(upper=upper)(A_, b)
        except AssertionError:
            env.holds('raising is only allowed when a factorisation failed', not all(k == 'spd' for k in kinds)); return
        env.holds('no vector is returned unless every factorisation of the batch succeeded', all(k == 'spd' for k in kinds))
        if all(k == 'spd' for k in kinds):
            env.eq('A_i x_i = b_i for every item', A_ @ x, b, tol=1e-6)
        return
    kind = rng.choice(['spd', 'indefinite', 'singular'])
    n = rng.randrange(1, 6)
    Mx = torch.randn(n, n, dtype=torch.float64, generator=torch.Generator().manual_seed(rng.randrange(1 << 30)))
    if kind == 'spd': A_ = Mx @ Mx.T + torch.eye(n, dtype=torch.float64)
    elif kind == 'indefinite': A_ = Mx + Mx.T - 3 * torch.eye(n, dtype=torch.float64) * (1 if n > 1 else 1); A_[0, 0] = -abs(A_[0, 0]) - 1
    else: A_ = (Mx @ Mx.T) * 0 if n == 1 else (Mx[:, :1] @ Mx[:, :1].T)
    b = torch.randn(n, 1, dtype=torch.float64, generator=torch.Generator().manual_seed(rng.randrange(1 << 30)))
    env.sample['kind'] = [kind == 'spd', n]
    try:
        x = sol.Cholesky(upper=upper)(A_, b)
    except AssertionError:
        env.holds('raising is only allowed when the factorisation failed', kind != 'spd'); return
    env.eq('A x = b on every non-raising path (a failed factorisation must not return a vector)', A_ @ x, b, tol=1e-6)


class CGLoop(loopcut.LoopContract):
    """invariant at the head of `for iteration in range(maxiter)`:  r = b - A x"""
    modifies = ('alpha', 'beta', 'iteration', 'p', 'rho_cur', 'rho_prev', 'x', 'r', 'z')
    def __init__(self, env, A_, b, with_M, M=None):
        self.env, self.A, self.b, self.with_M, self.M = env, A_, b, with_M, M
    def enter(self, frame):
        env = self.env
        env.eq('entry: r = b - A x', frame['r'], self.b - self.A @ frame['x'])
        # arbitrary iteration: x arbitrary, r determined by the invariant, p / rho_prev arbitrary
        self.x = Msym(env, 'xh', 2, 1)
        self.r = self.b - self.A @ self.x
        self.first = bool(env.scalar('first_iteration', regimes=('generic',))[0] > 0)
    def havoc(self, name, old):
        env = self.env
        from pvc import storch as st
        if name == 'x': return self.x
        if name == 'r': return self.r
        if name == 'iteration': return 0 if self.first else 1
        if name == 'p':
            self.p_old = None if self.first else Msym(env, 'ph', 2, 1)
            return None if self.first else self.p_old.clone()
        if name == 'rho_prev':
            self.rho_prev = None if self.first else Msym(env, 'rho_h', 1, 1)
            return self.rho_prev
        if name == 'z': return st.zeros(2, 1) if self.with_M else self.r
        return old
    def cond(self, frame):
        return True
    def back(self, frame):
        env = self.env; T = env.T
        env.eq('back edge: r = b - A x', frame['r'], self.b - self.A @ frame['x'])
        # ownership: p is updated in place over the iterations, so it must not share storage with the buffers that are overwritten
        def shares(u, v):
            if env.sym:
                import numpy as np
                return bool(np.shares_memory(u._a, v._a))
            return u.data_ptr() == v.data_ptr()
        env.holds('back edge: the search direction owns its storage (not aliased with z, r, x)', not any(shares(frame['p'], frame[k]) for k in ('z', 'r', 'x')))


for with_M in (False, True):
    def mk(with_M=with_M):
        @obligation(f'C10.CG.invariant{"_preconditioned" if with_M else ""}', functions=[f'{SOL}:CG.forward'], max_paths=64, no_validate=True,
                    loops={SOL: {('CG.forward', 0): 'CG.for'}})
        def cg(env):
            sol = env.load(SOL); T = env.T
            if not env.sym:
                return cg_numeric(env, with_M)
            a, c, b_ = env.scalar('a', positive=True)[0], env.scalar('c', positive=True)[0], env.scalar('b')[0]
            A_ = T.stack([T.stack([a, b_]), T.stack([b_, c])])
            rhs = Msym(env, 'r', 2, 1)
            x0 = Msym(env, 'x0', 2, 1)
            Mp = Msym(env, 'M', 2, 2) if with_M else None
            lc = CGLoop(env, A_, rhs, with_M, Mp)
            loopcut.DISPATCH.contracts['CG.for'] = lc
            tol = Q(1, 100000)
            s = sol.CG(tol=tol)
            x = s(A_, rhs, x0.clone(), Mp)
            # reached only through `return x` inside the loop (early exit) or by falling out of the cut loop
            res = rhs - A_ @ x
            nr = T.linalg.norm(res, dim=0); nb = T.linalg.norm(rhs, dim=0)
            env.holds('early exit: |b - A x| <= tol |b|', nr <= tol * nb)
            # a solve configures nothing: the next system (of another size) gets its own default budget of 10 n iterations
            env.holds('the solver object keeps its configuration (maxiter stays None, tol as given)', s.maxiter is None and s.tol == tol)
        mk_ = cg
    mk()


@obligation('C10.CG.zero_rhs', functions=[f'{SOL}:CG.forward'], no_validate=True)
def cg_zero(env):
    sol = env.load(SOL); T = env.T
    A_ = Msym(env, 'A', 2, 2)
    z = T.zeros(2, 1) if env.sym else T.zeros(2, 1, dtype=A_.dtype)
    x = sol.CG()(A_, z)
    env.eq('b = 0 returns zero', x, z)


def cg_numeric(env, with_M):
    import torch
    sol = env.load(SOL); rng = env.rng
    n = rng.randrange(1, 12)
    g = torch.Generator().manual_seed(rng.randrange(1 << 30))
    Qm, _ = torch.linalg.qr(torch.randn(n, n, dtype=torch.float64, generator=g))
    ev = torch.logspace(0, rng.uniform(0, 3), n, dtype=torch.float64)
    A_ = Qm @ torch.diag(ev) @ Qm.T; A_ = (A_ + A_.T) / 2
    b = torch.randn(n, 1, dtype=torch.float64, generator=g)
    Mp = torch.diag(1 / torch.diagonal(A_)) if with_M else None
    x = sol.CG()(A_, b, None, Mp)
    env.holds('early exit: |b - A x| <= tol |b|', float(torch.linalg.norm(b - A_ @ x)) <= 1e-5 * float(torch.linalg.norm(b)) * 1.0001)


@bounded('C10.CG.convergence', functions=[f'{SOL}:CG.forward'])
def cg_conv(rng, tier):
    """real code: tolerance reached within the default 10 n iterations for SPD, kappa <= 1e3; dense / CSR / COO"""
    import torch
    from pypose.optim.solver import CG
    N = 60 if tier == 'quick' else 600
    fails = []; samples = []
    for k in range(N):
        n = rng.randrange(1, 41)
        g = torch.Generator().manual_seed(rng.randrange(1 << 30))
        Qm, _ = torch.linalg.qr(torch.randn(n, n, dtype=torch.float64, generator=g))
        kappa = 10 ** rng.uniform(0, 3)
        ev = torch.logspace(0, torch.log10(torch.tensor(kappa)).item(), n, dtype=torch.float64) if n > 1 else torch.ones(1, dtype=torch.float64)
        A_ = Qm @ torch.diag(ev) @ Qm.T; A_ = (A_ + A_.T) / 2
        b = torch.randn(n, 1, dtype=torch.float64, generator=g)
        layout = rng.choice(['dense', 'csr', 'coo'])
        Al = A_ if layout == 'dense' else (A_.to_sparse_csr() if layout == 'csr' else A_.to_sparse_coo())
        x0 = None if rng.random() < 0.5 else torch.randn(n, 1, dtype=torch.float64, generator=g)
        # optional preconditioner: none / Jacobi (diagonal) / a perturbed inverse (SPD, dense)
        pk = rng.choice(['none', 'none', 'jacobi', 'approx_inverse'])
        if pk == 'jacobi': Mp = torch.diag(1.0 / A_.diagonal())
        elif pk == 'approx_inverse':
            E = torch.randn(n, n, dtype=torch.float64, generator=g) * 0.05 / max(1, n) ** 0.5
            Ai = torch.linalg.inv(A_); Mp = Ai + (Ai @ (E + E.T) @ Ai) * float(ev.min())
            Mp = (Mp + Mp.T) / 2
            if float(torch.linalg.eigvalsh(Mp).min()) <= 0: Mp = None
        else: Mp = None
        layout = layout + ('' if Mp is None else f'+M:{pk}')
        try:
            x = CG()(Al, b, None if x0 is None else x0.clone(), Mp)
            err = float(torch.linalg.norm(b - A_ @ x)) / float(torch.linalg.norm(b))
            if not err <= 1e-5 * 1.001:
                fails.append(dict(clause='tolerance', signature=f'n={n},kappa={kappa:.1f},{layout}', err=err))
        except Exception as e:
            fails.append(dict(clause='raises', signature=f'n={n},{layout}', error=f'{type(e).__name__}: {e}'[:200]))
        if k < 3: samples.append(dict(n=n, kappa=kappa, layout=layout))
    # ONE solver object reused: a small system first, then larger ones - every solve gets the default budget of ITS OWN size
    for k in range(6 if tier == 'quick' else 40):
        g = torch.Generator().manual_seed(rng.randrange(1 << 30))
        solver = CG()
        for n in (rng.randrange(1, 4), rng.randrange(12, 41), rng.randrange(2, 41)):
            Qm, _ = torch.linalg.qr(torch.randn(n, n, dtype=torch.float64, generator=g))
            kappa = 10 ** rng.uniform(2, 3)
            ev = torch.logspace(0, torch.log10(torch.tensor(kappa)).item(), n, dtype=torch.float64) if n > 1 else torch.ones(1, dtype=torch.float64)
            A_ = Qm @ torch.diag(ev) @ Qm.T; A_ = (A_ + A_.T) / 2
            b = torch.randn(n, 1, dtype=torch.float64, generator=g)
            try:
                x = solver(A_, b)
                err = float(torch.linalg.norm(b - A_ @ x)) / float(torch.linalg.norm(b))
                if not err <= 1e-5 * 1.001:
                    fails.append(dict(clause='tolerance_on_a_reused_solver_object', signature=f'n={n},kappa={kappa:.1f}', err=err)); break
            except Exception as e:
                fails.append(dict(clause='raises', signature=f'reused solver, n={n}', error=f'{type(e).__name__}: {e}'[:200])); break
    return dict(evaluations=N, distinct_nontrivial=N, rule='random SPD systems, n in 1..40, kappa in [1,1e3], dense/CSR/COO, with/without initial guess, without / with a Jacobi or approximate-inverse preconditioner; all distinct by seed',
                bound='n <= 40, kappa <= 1e3', failures=fails[:5], samples=samples)


@bounded('C10.direct_solvers_float', functions=[f'{SOL}:PINV.forward', f'{SOL}:LSTSQ.forward', f'{SOL}:Cholesky.forward'])
def direct_float(rng, tier):
    """real code, float64: consistent systems A x* = b with A = U diag(s) V^T of prescribed condition number up to 1e8 (square, tall, wide;
    Cholesky: SPD), b with weight along every singular direction: relative forward error of the returned solution (the minimum-norm one for
    wide A) at most 1e3 * cond * eps, residual at most 1e3 * cond * eps * |A| |x| (an explicit pseudo-inverse is not backward stable); rank-deficient A: a least-squares solution (normal equations), the
    minimum-norm one for PINV"""
    import torch, pypose as pp
    d = torch.float64; eps = torch.finfo(d).eps
    N = 60 if tier == 'quick' else 600
    fails = []; evals = 0; samples = []
    g = torch.Generator().manual_seed(rng.randrange(1 << 30))
    def orth(n, k):
        Qm, _ = torch.linalg.qr(torch.randn(n, k, dtype=d, generator=g)); return Qm
    for t in range(N):
        shape = rng.choice(['square', 'tall', 'wide'])
        k = rng.randrange(1, 9)
        m, n = (k, k) if shape == 'square' else ((k + rng.randrange(1, 12), k) if shape == 'tall' else (k, k + rng.randrange(1, 12)))
        cond = 10 ** rng.choice([0, 2, 4, 6, 7, 8])
        sv = torch.logspace(0, -torch.log10(torch.tensor(float(cond))).item(), k, dtype=d) if k > 1 else torch.ones(1, dtype=d)
        U, V = orth(m, k), orth(n, k)
        A_ = U @ torch.diag(sv) @ V.T
        xs = V @ torch.randn(k, 1, dtype=d, generator=g)          # in the row space: the minimum-norm solution of the consistent system
        b = A_ @ xs
        for name, solver in (('PINV', pp.optim.solver.PINV()), ('LSTSQ', pp.optim.solver.LSTSQ())):
            try:
                x = solver(A_, b)
            except Exception as e:
                fails.append(dict(clause=f'{name}_raises', signature=f'{shape}/cond=1e{len(str(cond)) - 1}', error=f'{type(e).__name__}: {e}'[:160])); continue
            evals += 1
            ferr = float((x - xs).norm() / xs.norm()); res = float((A_ @ x - b).norm() / (A_.norm() * xs.norm()))
            if name == 'LSTSQ' and shape == 'wide':           # any solution of the consistent system is a least-squares solution
                ok = res <= 1e3 * cond * eps
            else:
                ok = ferr <= 1e3 * cond * eps and res <= 1e3 * cond * eps
            if not ok:
                fails.append(dict(clause=f'{name}_solves_consistent_system_to_working_accuracy', signature=f'{shape}/cond=1e{len(str(cond)) - 1}', m=m, n=n, forward_error=ferr, residual=res,
                                  allowed_forward_error=1e3 * cond * eps))
        if shape == 'square':
            S = V @ torch.diag(sv) @ V.T; bs = S @ xs
            try:
                x = pp.optim.solver.Cholesky()(S, bs); evals += 1
                ferr = float((x - xs).norm() / xs.norm())
                if ferr > 1e3 * cond * eps:
                    fails.append(dict(clause='Cholesky_solves_spd_system_to_working_accuracy', signature=f'spd/cond=1e{len(str(cond)) - 1}', n=n, forward_error=ferr))
            except Exception as e:
                fails.append(dict(clause='Cholesky_raises_on_spd', signature=f'spd/cond=1e{len(str(cond)) - 1}', error=f'{type(e).__name__}: {e}'[:160]))
        if t < 3: samples.append(dict(shape=shape, m=m, n=n, cond=cond))
    # RANK-DEFICIENT systems (documented: LSTSQ / PINV return a least-squares solution - the normal equations hold - with default options)
    for (m_, n_, r_) in ((8, 5, 3), (5, 5, 2), (4, 7, 3)):
        Ud = torch.randn(2, m_, r_, dtype=torch.float64, generator=g); Vd = torch.randn(2, r_, n_, dtype=torch.float64, generator=g)
        Ad = Ud @ Vd; bd = torch.randn(2, m_, 1, dtype=torch.float64, generator=g)
        for name, solver in (('PINV', pp.optim.solver.PINV()), ('LSTSQ', pp.optim.solver.LSTSQ())):
            try:
                xd = solver(Ad, bd)
            except Exception as e:
                fails.append(dict(clause=f'{name}_raises', signature=f'rank {r_} of {m_}x{n_}', error=f'{type(e).__name__}: {e}'[:160])); continue
            ne = float((Ad.mT @ (Ad @ xd - bd)).norm() / (Ad.norm() * bd.norm()))
            if not ne < 1e-9 or not bool(torch.isfinite(xd).all()) or float(xd.norm()) > 1e6 * float(bd.norm()) / float(Ad.norm()):
                fails.append(dict(clause=f'{name}_least_squares_solution_of_a_rank_deficient_system', signature=f'rank {r_} of {m_}x{n_}', normal_equation_residual=ne, norm_x=float(xd.norm())))
    # square systems that merely LOOK symmetric to a tolerance-based test: badly scaled (entries ~1e-9) or nearly symmetric (asymmetry 1e-6) -
    # PINV's documented default is hermitian=False: the full matrix is used
    for t2 in range(4):
        n_ = rng.randrange(2, 6)
        Mq = torch.randn(n_, n_, dtype=torch.float64, generator=g) + 3 * torch.eye(n_, dtype=torch.float64)
        Sm = Mq @ Mq.T; Ka = torch.randn(n_, n_, dtype=torch.float64, generator=g); Ka = Ka - Ka.T
        for label, A2 in (('badly scaled non-symmetric', 1e-9 * Mq), ('nearly symmetric', Sm + 1e-6 * Ka * float(Sm.abs().max()))):
            xs2 = torch.randn(n_, 1, dtype=torch.float64, generator=g); b2 = A2 @ xs2
            for name, solver in (('PINV', pp.optim.solver.PINV()), ('LSTSQ', pp.optim.solver.LSTSQ())):
                try:
                    x2 = solver(A2, b2)
                except Exception as e:
                    fails.append(dict(clause=f'{name}_raises', signature=label, error=f'{type(e).__name__}: {e}'[:160])); continue
                ferr2 = float((x2 - xs2).norm() / xs2.norm())
                if ferr2 > 1e-7 * float(torch.linalg.cond(A2)):
                    fails.append(dict(clause=f'{name}_solves_consistent_system_to_working_accuracy', signature=label, n=n_, forward_error=ferr2))
    uniq = {}
    for f in fails: uniq.setdefault((f['clause'], f['signature']), f)
    return dict(evaluations=evals, distinct_nontrivial=evals, rule='random orthogonal factors, log-spaced singular values, cond in {1,1e2,1e4,1e6,1e7,1e8}, sizes 1..20; distinct by seed',
                bound='sizes <= 20, cond <= 1e8, float64', failures=list(uniq.values())[:8], samples=samples)


_SPARSE_CHILD = r"""
import sys, json, warnings
warnings.filterwarnings('ignore')
import torch
from pypose.sparse.ops import bsr_bsc_matmul, _sparse_csr_mm
def compressed_ok(res, rows=None, cols=None):
    crow, col, val = res.crow_indices(), res.col_indices(), res.values()
    ok = int(crow[0]) == 0 and int(crow[-1]) == col.numel() == val.shape[0] and bool((crow[1:] >= crow[:-1]).all())
    if rows is not None: ok = ok and crow.numel() == rows + 1
    if cols is not None and col.numel(): ok = ok and 0 <= int(col.min()) and int(col.max()) < cols
    return ok, dict(crow=crow.tolist(), col=col.tolist(), n_values=int(val.shape[0]))
for line in sys.stdin:
    c = json.loads(line)
    print(json.dumps(dict(start=c['k'])), flush=True)
    g = torch.Generator().manual_seed(c['seed'])
    out = dict(k=c['k'])
    try:
        if c['kind'] == 'blocks':
            p1, p2, (dm, dn, dp) = c['p1'], c['p2'], c['bs']
            def dense_from(pattern, bs_r, bs_c):
                D = torch.zeros(len(pattern) * bs_r, len(pattern[0]) * bs_c, dtype=torch.float64)
                for i in range(len(pattern)):
                    for j in range(len(pattern[0])):
                        if pattern[i][j]: D[i * bs_r:(i + 1) * bs_r, j * bs_c:(j + 1) * bs_c] = torch.randn(bs_r, bs_c, dtype=torch.float64, generator=g)
                return D
            D1, D2 = dense_from(p1, dm, dn), dense_from(p2, dn, dp)
            res = bsr_bsc_matmul(D1.to_sparse_bsr((dm, dn)), D2.to_sparse_bsc((dn, dp)))
            ok, info = compressed_ok(res, len(p1), len(p2[0]))
            if not ok or tuple(res.shape) != tuple((D1 @ D2).shape): out.update(fail='bsr_bsc_invalid_structure', **info)
            elif not torch.allclose(res.to_dense(), D1 @ D2, atol=1e-12): out.update(fail='bsr_bsc_product')
        else:
            l1, l2, (n, m, p) = c['l1'], c['l2'], c['dims']
            D1 = torch.randn(n, m, dtype=torch.float64, generator=g) * (torch.rand(n, m, generator=g) < 0.6)
            D2 = torch.randn(m, p, dtype=torch.float64, generator=g) * (torch.rand(m, p, generator=g) < 0.6)
            conv = dict(csr=lambda d: d.to_sparse_csr(), csc=lambda d: d.to_sparse_csc(), dense=lambda d: d,
                        bsr=lambda d: d.to_sparse_bsr((2, 2)), bsc=lambda d: d.to_sparse_bsc((2, 2)))
            res = _sparse_csr_mm(conv[l1](D1), conv[l2](D2))
            if res.layout in (torch.sparse_bsr, torch.sparse_csr):
                ok, info = compressed_ok(res)
                if not ok: out.update(fail='sparse_mm_invalid_structure', **info)
            if 'fail' not in out:
                res = res.to_dense() if res.layout != torch.strided else res
                if not torch.allclose(res, D1 @ D2, atol=1e-12): out.update(fail='sparse_mm_layout')
    except Exception as e:
        out.update(fail='raises', error=f'{type(e).__name__}: {e}'[:200])
    print(json.dumps(out), flush=True)
"""


@bounded('C10.sparse_products', functions=['pypose.sparse.ops:bsr_bsc_matmul', 'pypose.sparse.ops:_sparse_csr_mm'])
def sparse(rng, tier):
    """real code: every block pattern of a (<=3 x <=3 blocks) BSR times (<=3 x <=3 blocks) BSC, block sizes 1..3 (exhaustive in the patterns
    for 2x2 block grids, a third of the 2x2 times 2x3 grids, sampled beyond), equals the dense product and is a structurally valid BSR tensor;
    CSR/CSC/dense layout pairs of _sparse_csr_mm.  The cases run in a child interpreter: an input on which the real code kills the interpreter
    (heap corruption in torch's sparse kernels after an inconsistent result) is reported as a failing input, not as a checker error."""
    import itertools, subprocess, sys, json, os
    grids = []
    for pat1 in itertools.product([0, 1], repeat=4):
        for pat2 in itertools.product([0, 1], repeat=4):
            grids.append(([list(pat1[0:2]), list(pat1[2:4])], [list(pat2[0:2]), list(pat2[2:4])]))
    for pat1 in itertools.product([0, 1], repeat=4):
        for pat2 in itertools.product([0, 1], repeat=6):
            if sum(pat1) and sum(pat2) and (sum(pat1) + sum(pat2)) % 3 == 0:
                grids.append(([list(pat1[0:2]), list(pat1[2:4])], [list(pat2[0:3]), list(pat2[3:6])]))
    extra = 30 if tier == 'quick' else 400
    for _ in range(extra):
        sm, sn, sp = rng.randrange(1, 4), rng.randrange(1, 4), rng.randrange(1, 4)
        dens = rng.choice([0.0, 0.3, 0.7, 1.0])
        grids.append(([[int(rng.random() < dens) for _ in range(sn)] for _ in range(sm)], [[int(rng.random() < dens) for _ in range(sp)] for _ in range(sn)]))
    cases = []
    sizes = ((1, 1, 1), (2, 2, 2), (2, 3, 1)) if tier == 'quick' else ((1, 1, 1), (2, 2, 2), (2, 3, 1), (3, 1, 2), (4, 4, 4))
    for p1, p2 in grids:
        for bs in sizes:
            cases.append(dict(kind='blocks', p1=p1, p2=p2, bs=list(bs), seed=rng.randrange(1 << 30)))
    for l1, l2 in (('csr', 'csr'), ('csr', 'csc'), ('csc', 'csr'), ('csc', 'csc'), ('csr', 'dense'), ('csc', 'dense'), ('bsr', 'bsc')):
        for _ in range(5):
            cases.append(dict(kind='layout', l1=l1, l2=l2, dims=[rng.randrange(1, 5) * 2 for _ in range(3)], seed=rng.randrange(1 << 30)))
    for k, c in enumerate(cases): c['k'] = k
    repo = os.path.abspath(os.environ.get('PYPOSE_REPO', '/repo'))
    fails = []; evals = 0; pos = 0; restarts = 0
    def sig(c): return (f"{c['p1']}x{c['p2']} blocks {','.join(map(str, c['bs']))}" if c['kind'] == 'blocks' else f"{c['l1']}x{c['l2']} dims {c['dims']}") + f" seed {c['seed']}"
    while pos < len(cases) and len(fails) < 6 and restarts < 6:
        pr = subprocess.run([sys.executable, '-c', _SPARSE_CHILD], input=''.join(json.dumps(c) + '\n' for c in cases[pos:]), capture_output=True, text=True,
                            env=dict(os.environ, PYTHONPATH=repo), cwd=repo, timeout=1500)
        started = None; done = set()
        for line in pr.stdout.splitlines():
            try: d = json.loads(line)
            except ValueError: continue
            if 'start' in d: started = d['start']; continue
            done.add(d['k']); evals += 1
            if d.get('fail'):
                c = cases[d['k']]
                fails.append(dict(clause='bsr_bsc_' + d['fail'] if c['kind'] == 'blocks' and not d['fail'].startswith('bsr') else d['fail'], signature=sig(c),
                                  **{k2: v for k2, v in d.items() if k2 not in ('k', 'fail')}))
        if pr.returncode != 0 and started is not None and started not in done:
            fails.append(dict(clause='interpreter_killed', signature=sig(cases[started]), returncode=pr.returncode, stderr=pr.stderr[-300:]))
            pos = started + 1; restarts += 1
        elif pr.returncode != 0:
            fails.append(dict(clause='interpreter_killed', signature='after the last case (heap corrupted earlier)', returncode=pr.returncode, stderr=pr.stderr[-300:]))
            break
        else:
            break
    return dict(evaluations=evals, distinct_nontrivial=len(grids), rule='all 256 pattern pairs of 2x2 block grids (exhaustive) + a third of the 2x2-by-2x3 pairs + random grids up to 3x3, block sizes 1..4; 7 layout pairs',
                bound='block grids <= 3x3, block sizes <= 4', failures=fails[:6], samples=[dict(pattern=grids[5], blocks=[2, 2, 2])], exhaustive=False)


@obligation('C10.canary.wrong_residual_sign', functions=[f'{SOL}:CG.forward'], canary=True, max_paths=64, no_validate=True,
            loops={SOL: {('CG.forward', 0): 'CG.for'}})
def canary(env):
    sol = env.load(SOL); T = env.T
    if not env.sym:
        env.holds('x', False); return
    a, c, b_ = env.scalar('a', positive=True)[0], env.scalar('c', positive=True)[0], env.scalar('b')[0]
    A_ = T.stack([T.stack([a, b_]), T.stack([b_, c])])
    rhs = Msym(env, 'r', 2, 1); x0 = Msym(env, 'x0', 2, 1)
    class Wrong(CGLoop):
        def back(self, frame):
            self.env.eq('back edge: r = b + A x (wrong)', frame['r'], self.b + self.A @ frame['x'])
    loopcut.DISPATCH.contracts['CG.for'] = Wrong(env, A_, rhs, False)
    sol.CG()(A_, rhs, x0.clone(), None)
