"""bounded float-accuracy stand-ins shared by C01/C02/C03/C11 (IEEE-754 clauses; never counted as proved)"""
import math
import mpmath
from mpmath import mp, mpf
mp.dps = 50


def hat_mp(g, x):
    x = [mpf(float(v)) for v in x]
    def skew(v):
        return mpmath.matrix([[0, -v[2], v[1]], [v[2], 0, -v[0]], [-v[1], v[0], 0]])
    if g == 'so3': return skew(x)
    if g == 'rxso3': return skew(x[:3]) + mpmath.eye(3) * x[3]
    K = skew(x[3:6])
    if g == 'sim3': K = K + mpmath.eye(3) * x[6]
    M = mpmath.zeros(4)
    for i in range(3):
        for j in range(3): M[i, j] = K[i, j]
        M[i, 3] = x[i]
    return M


def blocks(g):
    """list of (name, slice-of-algebra-vector)"""
    return {'so3': [('rot', (0, 3))], 'se3': [('trans', (0, 3)), ('rot', (3, 6))], 'rxso3': [('rot', (0, 3)), ('scale', (3, 4))],
            'sim3': [('trans', (0, 3)), ('rot', (3, 6)), ('scale', (6, 7))]}[g]


def magnitudes(rng, eps, kind):
    base = [0.0, 1e-30, 1e-20, 1e-12, 1e-8, 1e-5, 1e-3]
    around = []
    for c in (eps, math.sqrt(eps)):
        for j in (0, 1, 2, 4, 8):
            around += [c * (1 + 2.0 ** -j), c * (1 - 2.0 ** -(j + 1))]
        around += [c * 3, c * 10, c * 100, c * 1000]
    big = {'rot': [0.3, 1.0, 2.5, math.pi - 1e-3, math.pi + 1e-3, 2 * math.pi, 3 * math.pi], 'trans': [0.5, 3.0, 50.0], 'scale': [0.1, 1.0, 3.0, 8.0]}[kind]
    return rng.choice([base, around, around, big, big])[rng.randrange(1000) % 1] if False else rng.choice(rng.choice([base, around, around, big, big]))


def sample_algebra(rng, g, eps):
    import torch
    x = []
    for name, (lo, hi) in blocks(g):
        m = magnitudes(rng, eps, name)
        n = hi - lo
        v = [rng.gauss(0, 1) for _ in range(n)]
        nv = math.sqrt(sum(a * a for a in v)) or 1.0
        s = rng.choice([-1, 1]) if name == 'scale' else 1
        x += [s * m * a / nv for a in v]
    return x
