"""C05 - Adj, AdjT, Retr, +, Jinvp, Jr satisfy their defining tangent-space identities.

L-conj (trusted, textbook): exp(M A M^-1) = M exp(A) M^-1.  With it the group identities
X Exp(a) = Exp(Adj_X a) X and Exp(a) X = X Exp(AdjT_X a) are the polynomial identities
M hat(a) M^-1 = hat(Adj_X a), M^-1 hat(a) M = hat(AdjT_X a) for M = matrix(X) (plus C01: Exp = matrix exp).
"""
from fractions import Fraction as Q
from pvc.registry import obligation, bounded, property_meta
from specs import lie as S, expmap as EM
from contracts.common import *

property_meta('C05', level='proof', min_obligations=40,
              trusted_base=['L-conj: exp(M A M^-1) = M exp(A) M^-1 (textbook)',
                            'C01 contracts (Exp is the matrix exponential), C04 contracts (Jl_inv is the left-trivialised differential of Log)',
                            'specs/lie.py hat maps and documented representation'],
              assumptions=['Sim3 Jinvp up to the documented truncation of sim3_Jl_inv (C04.sim3_Jl.series)'],
              explanation='conjugation identities are polynomial modulo unit norm; Retr/add/Jinvp by-contract through the real lietensor.py glue; Jr by exact differentiation of the traced Exp')

REG = ('generic', 'zero', 'tiny', 'subeps', 'sqrteps', 'micro', 'small', 'large')

for g in GROUPS:
    def mk(g=g):
        a_ = S.ALG[g]

        @obligation(f'C05.{g}.Adj_conjugation', functions=[f'{OPS}:{g}_Adj', f'{OPS}:{g}_AdjXa.forward', f'{OPS}:{g}_AdjTXa.forward', f'{OPS}:{g}_Inv.forward'])
        def conj(env):
            op = env.load(OPS); T = env.T
            X = group_elem(env, g, 'X'); a = alg_elem(env, g, 'a')
            M = S.group_matrix(T, g, X); Mi = S.group_matrix(T, g, getattr(op, g + '_Inv').forward(X))
            I = S.eye(T, M.shape[-1], X[0])
            env.eq('matrix_of_inverse_is_inverse_matrix', M @ Mi, I)
            ya = getattr(op, g + '_AdjXa').forward(X, a)
            yt = getattr(op, g + '_AdjTXa').forward(X, a)
            env.eq('Adj:  M hat(a) M^-1 = hat(Adj_X a)', M @ S.hat(T, g, a) @ Mi, S.hat(T, g, ya))
            env.eq('AdjT: M^-1 hat(a) M = hat(AdjT_X a)', Mi @ S.hat(T, g, a) @ M, S.hat(T, g, yt))
            env.eq('AdjXa_is_Adj_matrix_times_a', ya, getattr(op, g + '_Adj')(X) @ a)
            env.eq('AdjT_inverts_Adj', getattr(op, g + '_AdjTXa').forward(X, ya), a)

        @obligation(f'C05.{g}.lietensor_Adj_AdjT', functions=[f'{LT}:{g}Type.Adj', f'{LT}:{g}Type.AdjT', f'{LT}:LieTensor.Adj', f'{LT}:LieTensor.AdjT'])
        def api(env):
            op = env.load(OPS); pp = env.load('pypose'); T = env.T
            Xd = group_elem(env, g, 'X'); ad = alg_elem(env, g, 'a')
            X = lie(pp, g, Xd); a = alg(pp, g, ad)
            r = X.Adj(a); rt = X.AdjT(a)
            env.holds('Adj_returns_algebra_ltype', r.ltype is altype(pp, g))
            env.holds('AdjT_returns_algebra_ltype', rt.ltype is altype(pp, g))
            env.eq('Adj_method', raw(r), getattr(op, g + '_AdjXa').forward(Xd, ad))
            env.eq('AdjT_method', raw(rt), getattr(op, g + '_AdjTXa').forward(Xd, ad))
            env.eq('Adj_accepts_plain_tensor', raw(X.Adj(ad)), raw(r))
            # the functional forms pp.Adj / pp.AdjT / pp.Jinvp / pp.Retr are the methods (each wrapper calls ITS method)
            for fname, arg in (('Adj', alg(pp, g, ad)), ('AdjT', alg(pp, g, ad)), ('Retr', alg(pp, g, ad))):
                if hasattr(pp, fname):
                    env.eq(f'pp.{fname}(X, a) is X.{fname}(a)', raw(getattr(pp, fname)(X, arg)), raw(getattr(X, fname)(arg)))

        @obligation(f'C05.{g}.Retr_add', functions=[f'{LT}:LieType.Retr', f'{LT}:{g}Type.add_', f'{LT}:LieTensor.add', f'{LT}:LieTensor.add_',
                                                    f'{LT}:LieTensor.__add__', f'{LT}:LieType.add_', f'{LT}:LieTensor.Retr'], max_paths=32)
        def retr(env):
            op = env.load(OPS); pp = env.load('pypose'); T = env.T
            Xd = group_elem(env, g, 'X'); ad = alg_elem(env, g, 'a', regimes=('generic', 'zero', 'tiny')); extra = env.vec('extra', 2)
            X = lie(pp, g, Xd); a = alg(pp, g, ad)
            ref = getattr(op, g + '_Mul').forward(getattr(op, a_ + '_Exp').forward(ad), Xd)      # Exp(a) @ X
            env.eq('Retr_is_Exp_a_times_X', raw(X.Retr(a)), ref)
            s = X + a
            env.holds('plus_returns_group_ltype', s.ltype is ltype(pp, g))
            env.eq('plus_is_Exp_a_times_X', raw(s), ref)
            env.eq('plus_accepts_plain_tensor', raw(X + ad), ref)
            env.eq('components_beyond_manifold_dim_ignored', raw(X + T.cat([ad, extra], -1)), ref)
            # exactly one extra component: the width of the group's own storage (the shape of X.grad)
            env.eq('a_gradient_shaped_increment_uses_its_first_dof_components', raw(X + T.cat([ad, extra[0:1]], -1)), ref)
            Zg = lie(pp, g, Xd.clone()); Zg.add_(T.cat([ad, extra[0:1]], -1))
            env.eq('add__with_a_gradient_shaped_increment', raw(Zg), ref)
            env.eq('plus_leaves_operand_unchanged', raw(X), Xd)
            Z = lie(pp, g, Xd.clone())
            r = Z.add_(a)
            env.holds('add__returns_self', r is Z)
            env.eq('add__in_place_result', raw(Z), ref)
            # algebra + : plain vector addition of the first dof components
            bd = alg_elem(env, g, 'b')
            b = alg(pp, g, bd)
            sa = a + b
            env.holds('algebra_plus_keeps_ltype', sa.ltype is altype(pp, g))
            env.eq('algebra_plus_is_vector_addition', raw(sa), ad + bd)
            env.eq('algebra_plus_ignores_extra_components', raw(a + T.cat([bd, extra], -1)), ad + bd)

        @obligation(f'C05.{g}.Jinvp', functions=[f'{LT}:{g}Type.Jinvp', f'{LT}:LieTensor.Jinvp', f'{OPS}:{a_}_Jl_inv'], max_paths=16, timeout=200,
                    note='Log by contract: the value of {g}_Log.apply is an abstract algebra element (its contract is C02)')
        def jinvp(env):
            op = env.load(OPS); pp = env.load('pypose'); T = env.T
            lt = env.load(LT)
            Xd = group_elem(env, g, 'X'); pd = alg_elem(env, g, 'p')
            X = lie(pp, g, Xd)
            xi = env.vec('logX', S.DOF[g], regimes=REG)
            class LogStub:
                @staticmethod
                def apply(x): return xi.reshape(x.shape[:-1] + xi.shape[-1:])
            env.stub(lt, g + '_Log', LogStub)
            r = X.Jinvp(alg(pp, g, pd))
            env.holds('returns_algebra_ltype', r.ltype is altype(pp, g))
            env.eq('Jinvp_is_Jl_inv_of_Log_times_p', raw(r), getattr(op, a_ + '_Jl_inv')(xi) @ pd)
            env.eq('Jinvp_accepts_plain_tensor', raw(X.Jinvp(pd)), raw(r))

        @obligation(f'C05.{g}.Jinvp_shapes', functions=[f'{LT}:{g}Type.Jinvp', f'{LT}:LieTensor.Jinvp', f'{OPS}:{a_}_Jl_inv', f'{OPS}:broadcast_inputs'], max_paths=16, timeout=300,
                    note='Log by contract (one abstract algebra element per group element, recognised by its first entry)')
        def jinvp_shapes(env):
            """broadcast shape classes of Jinvp: one group element against a batch of tangent vectors, a batch against one vector, batch against
            batch (sizes 2 and 3) - item i of the result is Jl_inv(Log X_i) p_i"""
            op = env.load(OPS); pp = env.load('pypose'); T = env.T
            lt = env.load(LT)
            from pvc import storch as st
            Xs = [group_elem(env, g, f'X{i}', qregimes=('generic',)) for i in range(3)]
            xis = [env.vec(f'logX{i}', S.DOF[g], regimes=('generic',)) for i in range(3)]
            ps = [alg_elem(env, g, f'p{i}', regimes=('generic',)) for i in range(3)]
            def log_of(row):
                if env.sym:
                    for Xi, xi_ in zip(Xs, xis):
                        if all(a.same(b) for a, b in zip(st._T(row)._a.flat, st._T(Xi)._a.flat)): return xi_
                else:
                    for Xi, xi_ in zip(Xs, xis):
                        if bool((row == Xi).all()): return xi_
                raise AssertionError('Log applied to something that is not one of the group elements')
            class LogStub:
                @staticmethod
                def apply(x):
                    rows = x.reshape(-1, x.shape[-1])
                    return T.stack([log_of(rows[i]) for i in range(rows.shape[0])], 0).reshape(tuple(x.shape[:-1]) + (S.DOF[g],))
            env.stub(lt, g + '_Log', LogStub)
            Jinv = getattr(op, a_ + '_Jl_inv')
            ref = lambda i, j: Jinv(xis[i]) @ ps[j]
            one = lambda Z: lie(pp, g, Z)
            for n in (2, 3):
                XB = one(T.stack(Xs[:n], 0)); PB = alg(pp, g, T.stack(ps[:n], 0))
                env.eq(f'batch of {n} against batch of {n}', raw(XB.Jinvp(PB)), T.stack([ref(i, i) for i in range(n)], 0))
                env.eq(f'one group element against {n} tangent vectors', raw(one(Xs[0]).Jinvp(PB)), T.stack([ref(0, i) for i in range(n)], 0))
                env.eq(f'{n} group elements against one tangent vector', raw(XB.Jinvp(alg(pp, g, ps[0]))), T.stack([ref(i, 0) for i in range(n)], 0))
            P22 = alg(pp, g, T.stack([T.stack(ps[:2], 0), T.stack(ps[1:3], 0)], 0))          # lshape (2, 2)
            env.eq('one group element against a (2, 2) batch', raw(one(Xs[0]).Jinvp(P22)),
                   T.stack([T.stack([ref(0, 0), ref(0, 1)], 0), T.stack([ref(0, 1), ref(0, 2)], 0)], 0))
    mk()


for g_ in GROUPS:
    def mk(g=g_):
        @obligation(f'C05.{g}.batch_of_three', functions=[f'{OPS}:{g}_AdjXa.forward', f'{OPS}:{g}_AdjTXa.forward', f'{OPS}:{g}_Act.forward', f'{LT}:{g}Type.Adj', f'{LT}:{g}Type.AdjT'],
                    max_paths=8, timeout=300)
        def batch3(env):
            """a batch whose size equals the vector dimension (3): Adj / AdjT / Act treat the batch axis as a batch axis - the result at
            item i is the result of the unbatched call on item i (lshapes (3,), and (3,) against a single operand)"""
            op = env.load(OPS); pp = env.load('pypose'); T = env.T
            Xs = [group_elem(env, g, f'X{i}', qregimes=('generic',)) for i in range(3)]
            As = [alg_elem(env, g, f'a{i}', regimes=('generic',)) for i in range(3)]
            Ps = [env.vec(f'p{i}', 3, regimes=('generic',)) for i in range(3)]
            XB, AB, PB = lie(pp, g, T.stack(Xs, 0)), alg(pp, g, T.stack(As, 0)), T.stack(Ps, 0)
            one = lambda Z: lie(pp, g, Z)
            for nm, full, item in (('Adj', lambda: XB.Adj(AB), lambda i: one(Xs[i]).Adj(alg(pp, g, As[i]))),
                                   ('AdjT', lambda: XB.AdjT(AB), lambda i: one(Xs[i]).AdjT(alg(pp, g, As[i]))),
                                   ('AdjT, single a', lambda: XB.AdjT(alg(pp, g, As[0])), lambda i: one(Xs[i]).AdjT(alg(pp, g, As[0]))),
                                   ('AdjT, single X', lambda: one(Xs[0]).AdjT(AB), lambda i: one(Xs[0]).AdjT(alg(pp, g, As[i]))),
                                   ('Act', lambda: XB.Act(PB), lambda i: one(Xs[i]).Act(Ps[i]))):
                out = raw(full())
                env.eq(f'{nm}: item i of the batched call is the unbatched call on item i', out, T.stack([raw(item(i)) for i in range(3)], 0))
    mk()


for g_ in GROUPS:
    def mk(g=g_):
        @obligation(f'C05.{g}.Retr_broadcast', functions=[f'{LT}:LieType.Retr', f'{LT}:LieTensor.Retr', f'{LT}:LieTensor.add'], max_paths=64, timeout=300, first_path_only=True,
                    note='shape clause (one feasible path): Retr(X, a) = Exp(a) @ X under full broadcasting of the two batch shapes')
        def retr_b(env):
            """Retr broadcasts like the product it is defined by - also when X has to be broadcast UP to the batch shape of a"""
            op = env.load(OPS); pp = env.load('pypose'); T = env.T
            Xs = [group_elem(env, g, f'X{i}', qregimes=('generic',)) for i in range(2)]
            As = [alg_elem(env, g, f'a{i}', regimes=('generic',)) for i in range(2)]
            ex = getattr(op, S.ALG[g] + '_Exp').forward; mul = getattr(op, g + '_Mul').forward
            item = lambda i, j: mul(ex(As[j]), Xs[i])
            X1, XB = lie(pp, g, Xs[0]), lie(pp, g, T.stack(Xs, 0))
            a1, aB = alg(pp, g, As[0]), alg(pp, g, T.stack(As, 0))
            env.eq('single X, batch of increments: result has the batch shape of a', raw(X1.Retr(aB)), T.stack([item(0, j) for j in range(2)], 0))
            env.eq('batch of X, single increment', raw(XB.Retr(a1)), T.stack([item(i, 0) for i in range(2)], 0))
            env.eq('lshape (2,1) against (2,): full broadcasting to (2,2)', raw(lie(pp, g, T.stack(Xs, 0).unsqueeze(1)).Retr(aB)),
                   T.stack([T.stack([item(i, j) for j in range(2)], 0) for i in range(2)], 0))
            env.eq('the + operator is the same retraction when shapes agree', raw(XB + aB), T.stack([item(i, i) for i in range(2)], 0))
    mk()


@obligation('C05.Jinvp_is_differential_of_Log', functions=[f'{OPS}:so3_Jl_inv', f'{OPS}:SO3_Log.forward', f'{OPS}:se3_Jl_inv', f'{OPS}:SE3_Log.forward'],
            max_paths=64, timeout=300)
def jinvp_diff(env):
    """Jl_inv(Log X) p  =  d/d eps Log(Exp(eps p) X) at 0   (SO3 and SE3, regime |v| > eps, |w| > eps)"""
    op = env.load(OPS); T = env.T
    for g in ('SO3', 'SE3'):
        a_ = S.ALG[g]
        X = group_elem(env, g, 'X' + g, qregimes=('generic', 'neg', 'small')); p = alg_elem(env, g, 'p' + g)
        _, q, _ = S.parts(g, X)
        n = T.linalg.norm(q[0:3], dim=-1); eps = env.eps(X)
        env.assume('regime 1', (n > eps) & (q[3].abs() > eps))
        rot = op.SO3_Log.forward(q)
        env.assume('|Log X| > eps', T.linalg.norm(rot, dim=-1) > eps)
        F = getattr(op, g + '_Log').forward
        x = F(X)
        J = env.jacobian(F, X)
        V = tangent_basis(env, op, g, X)
        env.eq(f'{g}: Jl_inv(Log X) is the left-trivialised differential of Log', getattr(op, a_ + '_Jl_inv')(x), J @ V.transpose(-1, -2))


@obligation('C05.so3.Jr', functions=[f'{LT}:so3Type.Jr', f'{LT}:SO3Type.Jr', f'{LT}:LieTensor.Jr', f'{OPS}:so3_Jl'], max_paths=16)
def jr(env):
    op = env.load(OPS); pp = env.load('pypose'); T = env.T
    xd = env.vec('x', 3, regimes=REG)
    th = T.linalg.norm(xd, dim=-1)
    env.angle_base(th / 2)
    x = alg(pp, 'SO3', xd)
    Jr = x.Jr()
    eps = env.eps(xd)
    I = S.eye(T, 3, xd[0])
    if th > eps:
        env.eq('Jr_is_Jl_of_minus_x', Jr, op.so3_Jl(-xd))
        # defining first-order identity: Exp(x + d) = Exp(x) Exp(Jr d): Jr[:, j] = 2 vec( conj(q) * dq/dx_j )
        qx = op.so3_Exp.forward(xd)
        J = env.jacobian(op.so3_Exp.forward, xd)                     # (4, 3)
        qc = T.cat([-qx[0:3], qx[3:4]], -1)
        cols = [2 * op.SO3_Mul.forward(qc, J[:, j])[0:3] for j in range(3)]
        env.eq('Jr_is_right_trivialised_differential_of_Exp', Jr, T.stack(cols, -1))
    else:
        env.eq_order('Jr_is_identity_at_x_0 (and I + O(|x|) below the switch)', Jr, I, xd, 1)
    env.safe('defined', Jr)


@obligation('C05.SO3.Jr', functions=[f'{LT}:SO3Type.Jr'], max_paths=32)
def Jr_group(env):
    op = env.load(OPS); pp = env.load('pypose'); T = env.T
    Xd = env.unitquat('X', regimes=('generic', 'small', 'neg'))
    X = lie(pp, 'SO3', Xd)
    env.eq('group_Jr_is_Jr_of_Log', X.Jr(), X.Log().Jr())


@bounded('C05.add_autograd_modes', functions=[f'{LT}:LieTensor.add', f'{LT}:LieTensor.__add__', f'{LT}:LieType.Retr', f'{LT}:LieTensor.Retr'])
def add_modes(rng, tier):
    """real code: X + a, X.add(a), pp.add(X, a) and X.Retr(a) are OUT OF PLACE in every autograd mode (grad on, no_grad, inference_mode) and for
    every kind of operand (plain, requires_grad, pp.Parameter): the result is Exp(a) @ X (a + b for algebra operands), X keeps its values and the result
    does not share its storage - evaluated left to right as the property writes it"""
    import torch, pypose as pp, contextlib
    fails = []; evals = 0
    d = torch.float64
    modes = {'grad on': contextlib.nullcontext, 'no_grad': torch.no_grad, 'inference_mode': torch.inference_mode}
    for gname in ('SO3', 'SE3', 'RxSO3', 'Sim3', 'so3', 'se3'):
        for kind in ('plain', 'requires_grad', 'Parameter'):
            for mname, ctx in modes.items():
                X0 = getattr(pp, 'randn_' + gname)(2, dtype=d)
                a = getattr(pp, 'randn_' + gname.lower())(2, sigma=0.3, dtype=d)
                X = pp.Parameter(X0.clone()) if kind == 'Parameter' else X0.clone().requires_grad_(kind == 'requires_grad')
                want = (a.Exp() @ X0).tensor() if gname[0].isupper() else X0.tensor() + a.tensor()
                calls = [('X + a', lambda: X + a), ('X.add(a)', lambda: X.add(a)), ('pp.add(X, a)', lambda: pp.add(X, a))] + ([('X.Retr(a)', lambda: X.Retr(a))] if gname[0].isupper() else [])
                for cname, f in calls:
                    try:
                        with ctx():
                            r = f()
                    except Exception as e:
                        fails.append(dict(clause='add_raises', signature=f'{gname}/{kind}/{mname}/{cname}', error=f'{type(e).__name__}: {e}'[:120])); continue
                    evals += 1
                    sig = f'{cname}/{kind}/{mname}'
                    if not torch.allclose(r.detach().tensor() if hasattr(r, 'ltype') else r.detach(), want, atol=1e-12):
                        fails.append(dict(clause='sum_is_the_retraction', signature=sig, group=gname))
                    elif not torch.equal(X.detach().tensor(), X0.tensor()):
                        fails.append(dict(clause='out_of_place_sum_leaves_its_operand', signature=sig, group=gname))
                    elif r.data_ptr() == X.data_ptr():
                        fails.append(dict(clause='out_of_place_sum_owns_its_storage', signature=sig, group=gname))
    uniq = {}
    for f_ in fails: uniq.setdefault((f_['clause'], f_['signature']), f_)
    return dict(evaluations=evals, distinct_nontrivial=evals, rule='6 ltypes x 3 operand kinds x 3 autograd modes x 3-4 spellings', bound='batch of 2, float64',
                failures=list(uniq.values())[:8], samples=[])


@obligation('C05.canary.adj_transposed', functions=[f'{OPS}:SE3_AdjXa.forward'], canary=True)
def canary(env):
    op = env.load(OPS); T = env.T
    X = group_elem(env, 'SE3', 'X'); a = alg_elem(env, 'SE3', 'a')
    M = S.group_matrix(T, 'SE3', X); Mi = S.group_matrix(T, 'SE3', op.SE3_Inv.forward(X))
    env.eq('wrong_side', Mi @ S.hat(T, 'SE3', a) @ M, S.hat(T, 'SE3', op.SE3_AdjXa.forward(X, a)))
