"""C15 - dynamics follow their equations; NLS linearisation is exact at the reference point.

Per-operation contracts from a SYMBOLIC time counter (any interleaving of forward / reset / systime
assignment / set_refpoint follows by composing them): every call advances the time by exactly one.
NLS: (a) for an ABSTRACT differentiable f, g (autograd contract: jacobian(func, x) is the derivative of func
at x) the properties A, B, C, D hand exactly (f, x*), (f, u*), (g, x*), (g, u*) at (x*, u*, t*) to autograd and
A x* + B u* + c1 = f(x*, u*, t*), C x* + D u* + c2 = g(x*, u*, t*) hold identically; (b) for a parametric
family of polynomial/trigonometric f, g with symbolic coefficients, with jacobian modelled by exact
differentiation, A..D equal the hand-derived partial Jacobians.
"""
from fractions import Fraction as Q
from pvc.registry import obligation, bounded, property_meta
from contracts.common import *

property_meta('C15', level='proof', min_obligations=30,
              trusted_base=['assumed contract of torch.autograd.functional.jacobian: the derivative of the traced function at the given point',
                            'Taylor theorem: an affine model that matches value and first derivative at x* has second-order error (textbook)'],
              assumptions=['dimensions traced: state 2, input 1..2, observation 2 (entries symbolic); batched use is C06'],
              explanation='LTI/LTV equations, time bookkeeping and NLS linearisation as exact identities over symbolic data')

DYN = 'pypose.module.dynamics'
LIN = 'pypose.function.linalg'


def M(env, name, n, m):
    T = env.T
    return T.stack([env.vec(f'{name}{i}', m) for i in range(n)], 0)


@obligation('C15.linalg', functions=[f'{LIN}:bmv', f'{LIN}:bvv', f'{LIN}:bvmv'])
def linalg(env):
    la = env.load(LIN); T = env.T
    A_ = M(env, 'A', 2, 3); v = env.vec('v', 3); w = env.vec('w', 2)
    env.eq('bmv is matrix times vector', la.bmv(A_, v), (A_ @ v.unsqueeze(-1)).squeeze(-1))
    env.eq('bvv is the outer product', la.bvv(w, v), w.unsqueeze(-1) * v.unsqueeze(-2))
    env.eq('bvmv is the bilinear form', la.bvmv(w, A_, v), (w.unsqueeze(-2) @ A_ @ v.unsqueeze(-1)).reshape(1))
    env.eq('bmv leaves its arguments untouched', v, v.clone())


LTI_CONTRACTS = {}
for with_c, kls in ((True, 'LTI'), (False, 'LTI'), (True, 'LTV'), (False, 'LTV'), ('c1 only', 'LTI'), ('c1 only', 'LTV')):
    def mk(with_c=with_c, kls=kls):
        @obligation(f'C15.{kls}.{"affine" if with_c is True else ("c1_only" if with_c else "linear")}', functions=[f'{DYN}:LTI.state_transition', f'{DYN}:LTI.observation',
                                                                             f'{DYN}:System.forward', f'{DYN}:System.forward_hook', f'{DYN}:LTI.forward',
                                                                             f'{DYN}:{kls}.__init__'])
        def lti(env):
            dyn = env.load(DYN); T = env.T
            A_, B_, C_, D_ = M(env, 'A', 2, 2), M(env, 'B', 2, 1), M(env, 'C', 2, 2), M(env, 'D', 2, 1)
            c1, c2 = (env.vec('c1', 2), env.vec('c2', 2)) if with_c is True else ((env.vec('c1', 2), None) if with_c else (None, None))
            s = getattr(dyn, kls)(A_, B_, C_, D_, c1, c2)       # the documented constructor, positional
            x, u = env.vec('x', 2), env.vec('u', 1)
            x0 = x.clone()
            t0 = int(s.systime)
            z, y = s(x, u)
            ez = A_ @ x + B_ @ u; ey = C_ @ x + D_ @ u
            if c1 is not None: ez = ez + c1
            if c2 is not None: ey = ey + c2
            env.eq('next state is A x + B u + c1', z, ez)
            env.eq('observation is C x + D u + c2', y, ey)
            env.holds('time advanced by exactly one', int(s.systime) == t0 + 1)
            env.eq('state argument untouched', x, x0)
            s(z, u)
            env.holds('second call advances again', int(s.systime) == t0 + 2)
        LTI_CONTRACTS[(kls, with_c)] = lti
    mk()


@obligation('C15.LTI.size_one_axes', functions=[f'{DYN}:LTI.state_transition', f'{DYN}:LTI.observation', 'pypose.function.linalg:bmv'], max_paths=8)
def lti_size_one(env):
    """systems with an axis of size one - ONE state, ONE output, a batch of ONE: the batched equations hold per batch item and the results keep
    their documented shapes (batch axes, then the state / output axis) - a squeeze that is not told which axis to drop goes wrong exactly here"""
    dyn = env.load(DYN); la = env.load('pypose.function.linalg'); T = env.T
    def stackm(name, B, r, c): return T.stack([M(env, f'{name}{b}_', r, c) for b in range(B)], 0)
    def stackv(name, B, n): return T.stack([env.vec(f'{name}{b}_', n) for b in range(B)], 0)
    for tag, B, n, q in (('batch of 2, one state, one output', 2, 1, 1), ('batch of 2, two states, one output', 2, 2, 1), ('batch of 1, two states', 1, 2, 2)):
        k = tag.split(',')[0][-1] + str(n) + str(q)
        A_, B_, C_, D_ = stackm('A' + k, B, n, n), stackm('B' + k, B, n, 1), stackm('C' + k, B, q, n), stackm('D' + k, B, q, 1)
        c1, c2 = stackv('c' + k, B, n), stackv('e' + k, B, q)
        x, u = stackv('x' + k, B, n), stackv('u' + k, B, 1)
        z, y = dyn.LTI(A_, B_, C_, D_, c1, c2)(x, u)
        ez = T.stack([A_[b] @ x[b] + B_[b] @ u[b] + c1[b] for b in range(B)], 0); ey = T.stack([C_[b] @ x[b] + D_[b] @ u[b] + c2[b] for b in range(B)], 0)
        env.holds(f'{tag}: shapes are (batch, states) and (batch, outputs)', tuple(z.shape) == (B, n) and tuple(y.shape) == (B, q))
        if tuple(z.shape) == (B, n) and tuple(y.shape) == (B, q):
            env.eq(f'{tag}: next state per batch item', z, ez); env.eq(f'{tag}: observation per batch item', y, ey)
        env.holds(f'{tag}: bmv keeps the batch axis', tuple(la.bmv(A_, x).shape) == (B, n))


@obligation('C15.System.time', functions=[f'{DYN}:System.reset', f'{DYN}:System.systime', f'{DYN}:System.forward_hook', f'{DYN}:LTV.set_refpoint'])
def time_(env):
    """per-operation contracts from a symbolic time value t"""
    dyn = env.load(DYN); T = env.T
    A_, B_ = M(env, 'A', 2, 2), M(env, 'B', 2, 1)
    s = dyn.LTV(A_, B_, A_, B_)
    t = env.scalar('t', nonneg=True, integer=True, regimes=('zero', 'generic', 'large'))[0]
    k = env.scalar('k', nonneg=True, integer=True, regimes=('zero', 'generic', 'large'))[0]
    x, u = env.vec('x', 2), env.vec('u', 1)
    s.systime = t if env.sym else int(t)
    env.eq('systime assignment sets the time', s.systime, t)
    s(x, u)
    env.eq('a call advances the time by exactly one from any time', s.systime, t + 1)
    s(x, u); s(x, u)
    env.eq('n calls advance by n', s.systime, t + 3)
    r = s.reset(k if env.sym else int(k))
    env.holds('reset returns the system', r is s)
    env.eq('reset(k) sets the time to k', s.systime, k)
    s.reset()
    env.eq('reset() sets the time to 0', s.systime, 0)
    s.set_refpoint(t=t if env.sym else T.tensor(int(t)))
    env.eq('LTV.set_refpoint(t=..) sets the time', s.systime, t)
    # the time is the system's own state: assigning it from an int64 tensor the caller keeps (or from another system's clock)
    # copies the value - later calls neither change that tensor nor are changed through it
    if env.sym:
        from pvc import storch as st
        tt = st._mk(st._T(t)._a.reshape(()).copy(), 'i')
    else:
        tt = T.tensor(int(t))
    s.systime = tt
    s(x, u)
    env.eq('a call after systime = tensor leaves the assigned tensor unchanged', tt, t)
    env.eq('... and advances the system time by one', s.systime, t + 1)
    s.systime = tt
    env.eq('re-assigning the same tensor restores the time', s.systime, t)
    s2 = dyn.LTV(A_, B_, A_, B_)
    s2.systime = s.systime
    s(x, u)
    env.eq('a system whose time was copied from another one does not advance with it', s2.systime, t)
    s2.reset()
    env.eq('... and resetting it does not reset the other one', s.systime, t + 1)
    s.set_refpoint(t=tt)
    s(x, u)
    env.eq('LTV.set_refpoint(t=tensor) copies the value too', tt, t)


@obligation('C15.LTV.time_indexed', functions=[f'{DYN}:LTV.__init__', f'{DYN}:LTI.state_transition', f'{DYN}:LTI.observation'])
def ltv(env):
    """time-indexed matrices: a user LTV whose A, B, c1 depend on systime uses the matrices of the current time"""
    dyn = env.load(DYN); T = env.T
    A0, A1, B_, C_, D_ = M(env, 'A0', 2, 2), M(env, 'A1', 2, 2), M(env, 'B', 2, 1), M(env, 'C', 2, 2), M(env, 'D', 2, 1)
    c = env.vec('c', 2)
    class MyLTV(dyn.LTV):
        @property
        def A(self): return A0 + self.systime * A1
        @property
        def c1(self): return self.systime * c
    s = MyLTV(None, B_, C_, D_)
    x, u = env.vec('x', 2), env.vec('u', 1)
    t = env.scalar('t', nonneg=True, integer=True, regimes=('zero', 'generic'))[0]
    s.systime = t if env.sym else int(t)
    z, y = s(x, u)
    env.eq('transition uses A_t, c1_t of the current time', z, (A0 + t * A1) @ x + B_ @ u + t * c)
    z2, _ = s(z, u)
    env.eq('next call uses the matrices of time t+1', z2, (A0 + (t + 1) * A1) @ z + B_ @ u + (t + 1) * c)


@obligation('C15.NLS.abstract', functions=[f'{DYN}:NLS.set_refpoint', f'{DYN}:NLS.A', f'{DYN}:NLS.B', f'{DYN}:NLS.C', f'{DYN}:NLS.D',
                                           f'{DYN}:NLS.c1', f'{DYN}:NLS.c2', f'{DYN}:NLS.forward'], no_validate=True)
def nls_abstract(env):
    if not env.sym:
        env.holds('numeric twin is C15.NLS.family', True); return
    from pvc import storch as st
    dyn = env.load(DYN); T = env.T
    xs, us = env.vec('xs', 2), env.vec('us', 1)
    ts = env.scalar('ts', nonneg=True, integer=True, regimes=('zero', 'generic'))
    fval, gval = env.vec('f_ref', 2), env.vec('g_ref', 2)
    log = []
    class Sys(dyn.NLS):
        def state_transition(self, state, input, t=None):
            log.append(('f', state, input, t)); return fval if (state is xs or state.shape == xs.shape) else fval
        def observation(self, state, input, t=None):
            log.append(('g', state, input, t)); return gval
    s = Sys()
    jac_calls = []
    JM = {}
    def jacobian(func, x, **kw):
        # autograd contract: derivative of `func` at x.  Abstract: a fresh matrix per (function, argument slot).
        n0 = len(log)
        func(x)                                    # which model function, at which point?
        kind, st_, in_, t_ = log[n0]
        slot = 'x' if st_ is x else 'u'
        jac_calls.append((kind, slot, st_, in_, t_))
        key = (kind, slot)
        if key not in JM:
            JM[key] = env.fresh_matrix(f'J{kind}{slot}', 2, x.shape[-1])
        return JM[key]
    st.set_external('autograd.functional.jacobian', jacobian)
    clock0 = s.systime.clone()
    s.set_refpoint(xs, us, ts)
    env.eq('NLS.set_refpoint(x*, u*, t*) chooses a linearisation point; it does not move the system clock', s.systime, clock0)
    A_, B_, C_, D_ = s.A, s.B, s.C, s.D
    def at_ref(call):
        kind, slot, st_, in_, t_ = call
        return bool(st.eq(st_, xs).all()) and bool(st.eq(in_, us).all()) and bool(st.eq(t_, ts).all())
    env.holds('A differentiates the transition w.r.t. the state at (x*, u*, t*)', jac_calls[0][:2] == ('f', 'x') and at_ref(jac_calls[0]))
    env.holds('B differentiates the transition w.r.t. the input at (x*, u*, t*)', jac_calls[1][:2] == ('f', 'u') and at_ref(jac_calls[1]))
    env.holds('C differentiates the observation w.r.t. the state at (x*, u*, t*)', jac_calls[2][:2] == ('g', 'x') and at_ref(jac_calls[2]))
    env.holds('D differentiates the observation w.r.t. the input at (x*, u*, t*)', jac_calls[3][:2] == ('g', 'u') and at_ref(jac_calls[3]))
    env.eq('affine model reproduces f(x*, u*, t*) exactly', A_ @ xs + B_ @ us + s.c1, fval)
    env.eq('affine model reproduces g(x*, u*, t*) exactly', C_ @ xs + D_ @ us + s.c2, gval)


def family(env):
    """polynomial / trigonometric, time dependent f and g with symbolic coefficients"""
    T = env.T
    P, Qm = M(env, 'P', 2, 2), M(env, 'Qm', 2, 1)
    w, v = env.vec('w', 2), env.vec('v', 2)
    H = M(env, 'H', 2, 2)
    def f(x, u, t):
        return P @ x + Qm @ u + w * (x[0] * x[1]) + v * T.sin(x[0]) * u[0] + t * w
    def g(x, u, t):
        return H @ x + w * (u[0] * u[0]) + v * T.cos(x[1]) + t * v
    def dfdx(x, u, t):
        return P + w.unsqueeze(-1) * T.stack([x[1], x[0]], -1).unsqueeze(-2) + (v * u[0]).unsqueeze(-1) * T.stack([T.cos(x[0]), x[0] * 0], -1).unsqueeze(-2)
    def dfdu(x, u, t):
        return Qm + (v * T.sin(x[0])).unsqueeze(-1)
    def dgdx(x, u, t):
        return H + v.unsqueeze(-1) * T.stack([x[0] * 0, -T.sin(x[1])], -1).unsqueeze(-2)
    def dgdu(x, u, t):
        return (w * 2 * u[0]).unsqueeze(-1)
    return f, g, dfdx, dfdu, dgdx, dgdu


@obligation('C15.NLS.family', functions=[f'{DYN}:NLS.set_refpoint', f'{DYN}:NLS.A', f'{DYN}:NLS.B', f'{DYN}:NLS.C', f'{DYN}:NLS.D',
                                         f'{DYN}:NLS.c1', f'{DYN}:NLS.c2', f'{DYN}:NLS.forward'], tol=1e-6)
def nls_family(env):
    dyn = env.load(DYN); T = env.T
    f, g, dfdx, dfdu, dgdx, dgdu = family(env)
    class Sys(dyn.NLS):
        def state_transition(self, state, input, t=None): return f(state, input, t)
        def observation(self, state, input, t=None): return g(state, input, t)
    s = Sys()
    if env.sym:
        from pvc import storch as st
        def jacobian(func, x, **kw):
            return env.jacobian(func, x)
        st.set_external('autograd.functional.jacobian', jacobian)
    xs, us = env.vec('xs', 2), env.vec('us', 1)
    ts = env.scalar('ts', nonneg=True, integer=True, regimes=('zero', 'generic'))[0]
    tt = ts if env.sym else T.tensor(float(ts), dtype=xs.dtype)
    s.set_refpoint(xs, us, tt)
    env.eq('A is the partial Jacobian of f in the state at the reference point', s.A, dfdx(xs, us, tt))
    env.eq('B is the partial Jacobian of f in the input at the reference point', s.B, dfdu(xs, us, tt))
    env.eq('C is the partial Jacobian of g in the state at the reference point', s.C, dgdx(xs, us, tt))
    env.eq('D is the partial Jacobian of g in the input at the reference point', s.D, dgdu(xs, us, tt))
    env.eq('affine model reproduces f(x*, u*, t*) exactly', s.A @ xs + s.B @ us + s.c1, f(xs, us, tt))
    env.eq('affine model reproduces g(x*, u*, t*) exactly', s.C @ xs + s.D @ us + s.c2, g(xs, us, tt))
    # forward: the nonlinear equations at the current time, time advances by one
    s.systime = ts if env.sym else int(ts)
    x, u = env.vec('x', 2), env.vec('u', 1)
    z, y = s(x, u)
    env.eq('forward is f(x, u, t)', z, f(x, u, tt)); env.eq('observation is g(x, u, t)', y, g(x, u, tt))
    env.eq('time advanced by one', s.systime, ts + 1)
    # an explicit reference time is used as given - also t* = 0 (0-d and 1-element tensor) while the clock is elsewhere
    for form, zero in (('0-d tensor', T.tensor(0) if env.sym else T.tensor(0., dtype=xs.dtype)), ('1-element tensor', T.tensor([0]) if env.sym else T.tensor([0.], dtype=xs.dtype))):       # t is documented as a Tensor (a python int is rejected by atleast_1d)
        s2 = Sys(); s2.systime = 3
        s2.set_refpoint(xs, us, zero)
        z0 = T.tensor(0) if env.sym else T.tensor(0., dtype=xs.dtype)
        env.eq(f't* = 0 given as a {form}, clock at 3: affine model reproduces f(x*, u*, 0)', s2.A @ xs + s2.B @ us + s2.c1, f(xs, us, z0))
        env.eq(f't* = 0 given as a {form}, clock at 3: affine model reproduces g(x*, u*, 0)', s2.C @ xs + s2.D @ us + s2.c2, g(xs, us, z0))
    # a FRACTIONAL reference time (t* = step * dt, as LQR and the filters pass it) is used as given, not truncated to the integer clock
    half = T.tensor(Q(5, 2)) if env.sym else T.tensor(2.5, dtype=xs.dtype)
    s3 = Sys(); s3.systime = 1
    s3.set_refpoint(xs, us, half)
    env.eq('t* = 5/2: affine model reproduces f(x*, u*, 5/2)', s3.A @ xs + s3.B @ us + s3.c1, f(xs, us, half))
    env.eq('t* = 5/2: affine model reproduces g(x*, u*, 5/2)', s3.C @ xs + s3.D @ us + s3.c2, g(xs, us, half))


@bounded('C15.NLS.scaling', functions=[f'{DYN}:NLS.A', f'{DYN}:NLS.B', f'{DYN}:NLS.C', f'{DYN}:NLS.D', f'{DYN}:NLS.set_refpoint'])
def nls_scaling(rng, tier):
    """real code on BADLY SCALED smooth systems (equations on scales 1e9 and 1e-8 in float64, 1e3 and 1e-5 in float32): A, B, C, D are the
    partial Jacobians row by row, relative to the size of each row - a small derivative is a derivative, not round-off (a symbolic run
    of a thresholding rewrite explodes into sign/magnitude paths and ends undecided; this stand-in gives the failing input)"""
    import torch, pypose as pp
    N = 6 if tier == 'quick' else 40
    fails = []; evals = 0; samples = []
    g = torch.Generator().manual_seed(rng.randrange(1 << 30))
    for t in range(N):
        for dt_, scales, tol in ((torch.float64, (1e9, 1e-8), 1e-9), (torch.float32, (1e3, 1e-5), 1e-4)):
            n, m = 2, rng.randrange(1, 3)
            S1 = torch.tensor(scales if rng.random() < 0.5 else scales[::-1], dtype=dt_); S2 = torch.tensor(scales[::-1] if rng.random() < 0.5 else scales, dtype=dt_)
            P = torch.randn(n, n, dtype=dt_, generator=g); Qm = torch.randn(n, m, dtype=dt_, generator=g); H = torch.randn(n, n, dtype=dt_, generator=g)
            w = torch.randn(n, dtype=dt_, generator=g); v = torch.randn(n, dtype=dt_, generator=g)
            class Sys(pp.module.NLS):
                def state_transition(self, x, u, t=None): return S1 * (P @ x + Qm @ u + w * x[0] * x[1]) + t * 0
                def observation(self, x, u, t=None): return S2 * (H @ x + v * u[0] * u[0]) + t * 0
            xs = torch.randn(n, dtype=dt_, generator=g); us = torch.randn(m, dtype=dt_, generator=g)
            s_ = Sys(); s_.set_refpoint(xs, us, torch.tensor(2.0, dtype=dt_))
            e0 = torch.zeros(m, dtype=dt_); e0[0] = 1
            want = dict(A=S1[:, None] * (P + w[:, None] * torch.stack([xs[1], xs[0]])[None, :]), B=S1[:, None] * Qm,
                        C=S2[:, None] * H, D=S2[:, None] * (2 * us[0] * v)[:, None] * e0[None, :])
            for nm, ref in want.items():
                got = getattr(s_, nm); evals += 1
                if got.shape != ref.shape:
                    fails.append(dict(clause='NLS_jacobian_shape', signature=f'{nm}/{str(dt_).split(".")[-1]}')); continue
                rowerr = ((got - ref).abs().amax(-1) / ref.abs().amax(-1).clamp(min=1e-300)).max()
                if float(rowerr) > tol:
                    fails.append(dict(clause='NLS_jacobians_rowwise_on_badly_scaled_systems', signature=f'{nm}/{str(dt_).split(".")[-1]}', row_relative_error=float(rowerr), scales=list(scales)))
        if len(fails) > 6: break
    uniq = {}
    for f_ in fails: uniq.setdefault((f_['clause'], f_['signature']), f_)
    return dict(evaluations=evals, distinct_nontrivial=evals, rule='random bilinear/quadratic 2-state systems with row scales 1e9/1e-8 (float64) and 1e3/1e-5 (float32)',
                bound=f'{N} systems per dtype', failures=list(uniq.values())[:6], samples=samples)


@bounded('C15.clock_range', functions=[f'{DYN}:System.__init__', f'{DYN}:System.systime', f'{DYN}:System.forward_hook', f'{DYN}:System.reset'])
def clock_range(rng, tier):
    """real code: the step counter holds every step count a 64-bit counter holds (millisecond stamps, very long runs): assignment, stepping
    and reset around 2^31 and 2^40 keep the exact value (the symbolic contracts treat machine integers as mathematical integers)"""
    import torch, pypose as pp
    fails = []; evals = 0
    d = torch.float64
    A_ = torch.eye(2, dtype=d); B_ = torch.zeros(2, 1, dtype=d); C_ = torch.eye(2, dtype=d); D_ = torch.zeros(2, 1, dtype=d)
    for big in (2 ** 31 - 1, 2 ** 31, 2 ** 31 + 5, 2 ** 40 + 3):
        for how in ('assign int', 'assign tensor', 'reset'):
            s_ = pp.module.LTI(A_, B_, C_, D_)
            try:
                if how == 'assign int': s_.systime = big
                elif how == 'assign tensor': s_.systime = torch.tensor(big, dtype=torch.int64)
                else: s_.reset(big)
                evals += 1
                if int(s_.systime) != big:
                    fails.append(dict(clause='clock_keeps_large_step_counts', signature=f'{how}/{big}', got=int(s_.systime))); continue
                s_(torch.zeros(2, dtype=d), torch.zeros(1, dtype=d))
                if int(s_.systime) != big + 1:
                    fails.append(dict(clause='clock_keeps_large_step_counts', signature=f'step after {how}/{big}', got=int(s_.systime)))
            except Exception as e:
                fails.append(dict(clause='clock_raises', signature=f'{how}/{big}', error=f'{type(e).__name__}: {e}'[:120]))
    return dict(evaluations=evals, distinct_nontrivial=evals, rule='step counts 2^31-1, 2^31, 2^31+5, 2^40+3 by assignment (int / tensor) and reset, then one step',
                bound='4 values x 3 ways', failures=fails[:6], samples=[])


@obligation('C15.canary.observation_after_transition', functions=[f'{DYN}:LTI.observation'], canary=True)
def canary(env):
    dyn = env.load(DYN); T = env.T
    A_, B_, C_, D_ = M(env, 'A', 2, 2), M(env, 'B', 2, 1), M(env, 'C', 2, 2), M(env, 'D', 2, 1)
    s = dyn.LTI(A_, B_, C_, D_)
    x, u = env.vec('x', 2), env.vec('u', 1)
    z, y = s(x, u)
    env.eq('observation of the next state', y, C_ @ z + D_ @ u)
