"""C11 - matrix and Euler conversions are exact inverses of matrix() / each other.

mat2SO3: the four branch regions are explored as paths; in each the radicand is positive (safety, from the
mask definitions) and the extracted q satisfies matrix(q) = M, |q| = 1 for M = matrix(X), X any unit
quaternion (incl. angle pi and coordinate axes: they lie in regions c0..c2 where the radicand >= 1 - atol).
mat2SE3 / mat2Sim3 / mat2RxSO3 / from_matrix for the layouts 3x3, 3x4, 4x4; scale by cube root of det.
euler2SO3 = Rz(yaw) Ry(pitch) Rx(roll); euler(): Rz Ry Rx of the returned angles = matrix(X) for
|sin pitch| < 1 - eps, angles in their principal ranges.  check=True accepts exact (scaled) rotations and
rejects matrices outside the stated tolerances.
"""
from fractions import Fraction as Q
from pvc.registry import obligation, bounded, property_meta
from specs import lie as S
from contracts.common import *

property_meta('C11', level='proof', min_obligations=30,
              trusted_base=['atan2 / asin axioms (sin, cos of the result; principal ranges)', 'cube root: r^3 = a, sign(r) = sign(a)',
                            'torch.allclose semantics |a-b| <= atol + rtol |b|'],
              assumptions=['round-off of valid float inputs stays inside the check tolerances: bounded stand-in'],
              explanation='branch regions of the quaternion extraction as paths; identities modulo unit norm; Euler through sin/cos/atan2/asin atoms')

CV = 'pypose.lietensor.convert'
QREG = ('generic', 'identity', 'nearpi', 'halfturn', 'small', 'neg')


@obligation('C11.mat2SO3.regions', functions=[f'{CV}:mat2SO3'], max_paths=32)
def m2so3(env):
    cv = env.load(CV); T = env.T
    X = env.unitquat('X', regimes=QREG)
    Mx = S.quat_matrix(T, X)
    q = raw(cv.mat2SO3(Mx, check=False))
    env.safe('radicand positive in the selected region (no 0/0)', q)
    env.eq('extracted quaternion has the same matrix', S.quat_matrix(T, q), Mx)
    env.eq('extracted quaternion is unit', (q * q).sum(-1), 1)
    sgn = 1 if bool(((q * X).sum(-1) > 0)) else -1
    env.eq('extracted quaternion is +-X', q, sgn * X)


@obligation('C11.mat2SO3.masks', functions=[f'{CV}:mat2SO3'], max_paths=32)
def masks(env):
    """regions exhaustive and exclusive, radicand t_i >= 1 - atol in region i, for an arbitrary 3x3 input"""
    if not env.sym:
        env.holds('numeric twin: C11.mat2SO3.regions', True); return
    cv = env.load(CV); T = env.T
    d = env.vec('d', 3)            # diagonal entries decide the region
    atol = Q(1, 100000)
    R00, R11, R22 = d[0], d[1], d[2]
    d2 = bool(R22 < atol); d01 = bool(R00 > R11); d0n1 = bool(R00 < -R11)
    t = [1 + R00 - R11 - R22, 1 - R00 + R11 - R22, 1 - R00 - R11 + R22, 1 + R00 + R11 + R22]
    region = (0 if d01 else 1) if d2 else (2 if d0n1 else 3)
    env.holds(f'radicand of the selected region >= 1 - atol', t[region] >= 1 - atol)


LAYOUTS = {'3x3': (3, 3), '3x4': (3, 4), '4x4': (4, 4)}

def layout(env, g, X, lay):
    T = env.T
    M4 = S.group_matrix4(T, g, X)
    if lay == '3x3': return M4[0:3, 0:3]
    if lay == '3x4': return M4[0:3, 0:4]
    return M4


for g in GROUPS:
    for lay in LAYOUTS:
        def mk(g=g, lay=lay):
            @obligation(f'C11.from_matrix.{g}.{lay}', functions=[f'{CV}:from_matrix', f'{CV}:mat2{g}', f'{CV}:mat2SO3'], max_paths=64, timeout=300)
            def ob(env):
                cv = env.load(CV); pp = env.load('pypose'); T = env.T
                X = group_elem(env, g, 'X', qregimes=QREG)
                if g in ('RxSO3', 'Sim3'):
                    sc = S.parts(g, X)[2]
                    env.assume('scale in [1e-3, 1e3] (the property quantifier)', (sc >= Q(1, 1000)) & (sc <= 1000))
                Mx = layout(env, g, X, lay)
                Y = cv.from_matrix(Mx, ltype(pp, g), check=False)
                env.holds('returns the requested ltype', Y.ltype is ltype(pp, g))
                Yd = raw(Y)
                t, q, s = S.parts(g, Yd); tx, qx, sx = S.parts(g, X)
                env.eq('unit quaternion', (q * q).sum(-1), 1)
                env.eq('same rotation matrix', S.quat_matrix(T, q), S.quat_matrix(T, qx))
                if s is not None:
                    env.eq('same scale', s, sx)
                if t is not None and lay != '3x3':
                    env.eq('same translation', t, tx)
                    env.eq('same matrix', S.group_matrix4(T, g, Yd), S.group_matrix4(T, g, X))
                if t is not None and lay == '3x3':
                    env.eq('3x3 input gives zero translation', t, 0)
                env.safe('defined', Yd)
        mk()


@obligation('C11.check.accepts_exact_rotations', functions=[f'{CV}:mat2SO3', f'{CV}:mat2Sim3', f'{CV}:mat2RxSO3', f'{CV}:mat2SE3'], max_paths=64)
def accepts(env):
    cv = env.load(CV); pp = env.load('pypose'); T = env.T
    X = group_elem(env, 'Sim3', 'X', qregimes=QREG)
    tx, qx, sx = S.parts('Sim3', X)
    env.assume('scale in [1e-3, 1e3] (the property quantifier)', (sx >= Q(1, 1000)) & (sx <= 1000))
    R = S.quat_matrix(T, qx)
    env.no_raise('mat2SO3 accepts an exact rotation', ValueError, lambda: cv.mat2SO3(R, check=True))
    env.no_raise('mat2SE3 accepts an exact rigid transform', ValueError, lambda: cv.mat2SE3(S.group_matrix4(T, 'SE3', X[0:7]), check=True))
    env.no_raise('mat2RxSO3 accepts an exact scaled rotation', ValueError, lambda: cv.mat2RxSO3(sx * R, check=True))
    env.no_raise('mat2Sim3 accepts an exact similarity', ValueError, lambda: cv.mat2Sim3(S.group_matrix4(T, 'Sim3', X), check=True))


@obligation('C11.check.rejects_non_rotations', functions=[f'{CV}:mat2SO3'], max_paths=128)
def rejects(env):
    """matrix diag(a, b, c) + e E_01: outside the tolerance in M M^T or det  =>  ValueError ; inside => accepted"""
    cv = env.load(CV); T = env.T
    a, e = (env.scalar(n, regimes=('generic', 'small', 'tiny'))[0] for n in 'ae')
    b = c = a * 0
    O = a * 0
    Mx = S.mat(T, [[1 + a, e, O], [O, 1 + b, O], [O, O, 1 + c]])
    rtol = atol = Q(1, 100000) if env.sym else 1e-5
    E = Mx @ Mx.transpose(-1, -2) - S.eye(T, 3, O)
    I = S.eye(T, 3, O)
    bad_orth = False
    for i in range(3):
        for j in range(3):
            if bool(abs(E[i, j]) > atol + rtol * I[i, j]): bad_orth = True
    det = (1 + a) * (1 + b) * (1 + c)
    bad_det = bool(abs(det - 1) > atol + rtol)
    if bad_orth or bad_det:
        env.raises('outside the tolerances: rejected', ValueError, lambda: cv.mat2SO3(Mx, check=True))
    else:
        env.no_raise('inside the tolerances: accepted', ValueError, lambda: cv.mat2SO3(Mx, check=True))


@obligation('C11.check.rejects_reflections', functions=[f'{CV}:mat2SO3', f'{CV}:mat2SE3', f'{CV}:from_matrix'], max_paths=64)
def rejects_plain_reflections(env):
    """-R for ANY rotation R (symbolic unit quaternion) is orthogonal with determinant -1: rejected by every converter without a scale"""
    cv = env.load(CV); pp = env.load('pypose'); T = env.T
    X = group_elem(env, 'SE3', 'X', qregimes=QREG)
    R = S.quat_matrix(T, X[3:7])
    O = X[0] * 0
    F4 = T.cat([T.cat([-R, X[0:3].reshape(3, 1)], -1), T.stack([O, O, O, O + 1]).reshape(1, 4)], 0)
    for nm, f in {'mat2SO3': lambda: cv.mat2SO3(-R, check=True), 'mat2SE3': lambda: cv.mat2SE3(F4, check=True),
                  'from_matrix(SO3)': lambda: cv.from_matrix(-R, pp.SO3_type, check=True), 'from_matrix(SE3)': lambda: cv.from_matrix(F4, pp.SE3_type, check=True)}.items():
        env.raises(f'{nm}: a reflection is rejected', ValueError, f)


@obligation('C11.check.rejects_scaled_reflections', functions=[f'{CV}:mat2Sim3', f'{CV}:mat2RxSO3', f'{CV}:from_matrix'], max_paths=64)
def rejects_reflections(env):
    """a scaled REFLECTION s Q (Q orthogonal, det Q = -1) is orthogonal up to scale but is no scaled rotation: with check=True every
    converter with a scale raises (it must not come back as a 'rotation' -Q with a negative scale)"""
    cv = env.load(CV); pp = env.load('pypose'); T = env.T
    X = group_elem(env, 'Sim3', 'X', qregimes=('generic',))
    tx, qx, sx = S.parts('Sim3', X)
    env.assume('scale in [1e-3, 1e3] (the property quantifier)', (sx >= (Q(1, 1000) if env.sym else 1e-3)) & (sx <= 1000))
    # a fixed rational rotation (quaternion (1,2,2,4)/5) keeps the sign of the determinant -s^3 decidable; scale and translation symbolic
    qx = T.tensor([Q(1, 5), Q(2, 5), Q(2, 5), Q(4, 5)]) if env.sym else T.tensor([0.2, 0.4, 0.4, 0.8], dtype=X.dtype)
    R = S.quat_matrix(T, qx)
    O = sx * 0
    F4 = T.cat([T.cat([-(sx * R), tx.reshape(3, 1)], -1), T.stack([O, O, O, O + 1]).reshape(1, 4)], 0)          # [[-s R, t], [0, 1]]
    calls = {
        'mat2RxSO3': lambda: cv.mat2RxSO3(-(sx * R), check=True),
        'mat2Sim3 (4x4)': lambda: cv.mat2Sim3(F4, check=True),
        'mat2Sim3 (3x4)': lambda: cv.mat2Sim3(F4[0:3, :], check=True),
        'from_matrix(RxSO3)': lambda: cv.from_matrix(-(sx * R), pp.RxSO3_type, check=True),
        'from_matrix(Sim3)': lambda: cv.from_matrix(F4, pp.Sim3_type, check=True),
    }
    for nm, f in calls.items():
        env.raises(f'{nm}: a scaled reflection is rejected', ValueError, f)


@obligation('C11.check.rejects_anisotropic_scaling', functions=[f'{CV}:mat2Sim3', f'{CV}:mat2RxSO3', f'{CV}:from_matrix'], max_paths=64)
def rejects_anisotropic(env):
    """diag(1, 1, 1 + e) (s R) with e = 1/10 is no scaled rotation (its rows have different lengths; U / cbrt(det U) is off from orthogonal by ~1e-1):
    with check=True every converter with a scale raises - the documented R = U / s is what is checked, not a row-normalised matrix"""
    cv = env.load(CV); pp = env.load('pypose'); T = env.T
    sx = env.scalar('s', positive=True, regimes=('generic',))[0]; tx = env.vec('t', 3)
    env.assume('scale in [1e-3, 1e3] (the property quantifier)', (sx >= (Q(1, 1000) if env.sym else 1e-3)) & (sx <= 1000))
    qx = T.tensor([Q(1, 5), Q(2, 5), Q(2, 5), Q(4, 5)]) if env.sym else T.tensor([0.2, 0.4, 0.4, 0.8], dtype=tx.dtype)
    R = S.quat_matrix(T, qx)
    O = sx * 0
    Dg = S.mat(T, [[O + 1, O, O], [O, O + 1, O], [O, O, O + (Q(11, 10) if env.sym else 1.1)]])
    U = Dg @ (sx * R)
    F4 = T.cat([T.cat([U, tx.reshape(3, 1)], -1), T.stack([O, O, O, O + 1]).reshape(1, 4)], 0)
    for nm, f in {'mat2RxSO3': lambda: cv.mat2RxSO3(U, check=True), 'mat2Sim3 (4x4)': lambda: cv.mat2Sim3(F4, check=True), 'mat2Sim3 (3x4)': lambda: cv.mat2Sim3(F4[0:3, :], check=True),
                  'from_matrix(Sim3)': lambda: cv.from_matrix(F4, pp.Sim3_type, check=True), 'from_matrix(RxSO3)': lambda: cv.from_matrix(U, pp.RxSO3_type, check=True)}.items():
        env.raises(f'{nm}: an anisotropically scaled rotation is rejected', ValueError, f)


@obligation('C11.check.tolerances_reach_the_rotation_check', functions=[f'{CV}:mat2SE3', f'{CV}:mat2Sim3', f'{CV}:mat2RxSO3', f'{CV}:from_matrix'], max_paths=64)
def tol_plumbing(env):
    """the caller's check / rtol / atol are the ones the rotation check (mat2SO3, contract C11.check.rejects_non_rotations) is run with - for
    every wrapper and for from_matrix with every ltype; rtol and atol deliberately different"""
    import inspect
    cv = env.load(CV); pp = env.load('pypose'); T = env.T
    X = group_elem(env, 'Sim3', 'X', qregimes=('generic',))
    tx, qx, sx = S.parts('Sim3', X)
    env.assume('scale in [1e-3, 1e3] (the property quantifier)', (sx >= Q(1, 1000)) & (sx <= 1000))
    R = S.quat_matrix(T, qx)
    rt, at = (Q(1, 300), Q(1, 7000)) if env.sym else (1 / 300, 1 / 7000)
    orig = cv.mat2SO3
    sig = inspect.signature(orig)
    seen = []
    def rec(*a, **k):
        b = sig.bind(*a, **k); b.apply_defaults()
        seen.append((b.arguments['check'], b.arguments['rtol'], b.arguments['atol']))
        return orig(*a, **k)
    env.stub(cv, 'mat2SO3', rec)
    calls = {
        'mat2SE3': lambda chk: cv.mat2SE3(S.group_matrix4(T, 'SE3', X[0:7]), check=chk, rtol=rt, atol=at),
        'mat2RxSO3': lambda chk: cv.mat2RxSO3(sx * R, check=chk, rtol=rt, atol=at),
        'mat2Sim3': lambda chk: cv.mat2Sim3(S.group_matrix4(T, 'Sim3', X), check=chk, rtol=rt, atol=at),
        'from_matrix(SO3)': lambda chk: cv.from_matrix(R, pp.SO3_type, check=chk, rtol=rt, atol=at),
        'from_matrix(SE3)': lambda chk: cv.from_matrix(S.group_matrix4(T, 'SE3', X[0:7]), pp.SE3_type, check=chk, rtol=rt, atol=at),
        'from_matrix(RxSO3)': lambda chk: cv.from_matrix(sx * R, pp.RxSO3_type, check=chk, rtol=rt, atol=at),
        'from_matrix(Sim3)': lambda chk: cv.from_matrix(S.group_matrix4(T, 'Sim3', X), pp.Sim3_type, check=chk, rtol=rt, atol=at),
    }
    for nm, f in calls.items():
        for chk in (True, False):
            del seen[:]
            f(chk)
            name = f'{nm}(check={chk}): the rotation block is checked with the caller\'s check, rtol and atol'
            if not seen:          # the wrapper no longer delegates to mat2SO3: this by-contract argument does not apply
                env._record(name, 'unknown' if env.sym else 'passed', {'why': 'mat2SO3 is not called; clause not applicable to this source'})
            else:
                env.holds(name, all(c is chk and r == rt and a == at for c, r, a in seen))


def Rx(T, a):
    c, s = T.cos(a), T.sin(a); O = a * 0
    return S.mat(T, [[O + 1, O, O], [O, c, -s], [O, s, c]])
def Ry(T, a):
    c, s = T.cos(a), T.sin(a); O = a * 0
    return S.mat(T, [[c, O, s], [O, O + 1, O], [-s, O, c]])
def Rz(T, a):
    c, s = T.cos(a), T.sin(a); O = a * 0
    return S.mat(T, [[c, -s, O], [s, c, O], [O, O, O + 1]])


@obligation('C11.euler2SO3', functions=[f'{CV}:euler2SO3'])
def e2q(env):
    cv = env.load(CV); T = env.T
    e = env.vec('e', 3, regimes=('generic', 'zero', 'large'))
    for k in range(3): env.angle_base(e[k] / 2)
    q = raw(cv.euler2SO3(e))
    env.eq('unit quaternion', (q * q).sum(-1), 1)
    env.eq('euler2SO3 = Rz(yaw) Ry(pitch) Rx(roll)', S.quat_matrix(T, q), Rz(T, e[2]) @ Ry(T, e[1]) @ Rx(T, e[0]))


@obligation('C11.euler', functions=[f'{LT}:LieTensor.euler'], max_paths=64, timeout=300)
def euler(env):
    pp = env.load('pypose'); T = env.T
    Xd = env.unitquat('X', regimes=('generic', 'neg', 'small'))
    X = lie(pp, 'SO3', Xd)
    x, y, z, w = Xd[0], Xd[1], Xd[2], Xd[3]
    t2 = 2 * (w * y - z * x)
    eps = Q(2, 10000) if env.sym else 2e-4
    env.assume('|sin(pitch)| < 1 - eps (away from gimbal lock)', abs(t2) < 1 - eps)
    e = X.euler()
    roll, pitch, yaw = e[0], e[1], e[2]
    env.eq('Rz(yaw) Ry(pitch) Rx(roll) is the rotation of X', Rz(T, yaw) @ Ry(T, pitch) @ Rx(T, roll), S.quat_matrix(T, Xd))
    pi = T.pi
    env.holds('roll in (-pi, pi]', (roll > -pi) & (roll <= pi))
    env.holds('pitch in [-pi/2, pi/2]', (pitch >= -pi / 2) & (pitch <= pi / 2))
    env.holds('yaw in (-pi, pi]', (yaw > -pi) & (yaw <= pi))
    env.safe('defined', e)


@obligation('C11.euler.function_form', functions=[f'{CV}:euler', f'{LT}:LieTensor.euler'], max_paths=8, first_path_only=True, no_validate=True)
def euler_function_form(env):
    """pp.euler(X, eps) is X.euler(eps): the gimbal-lock threshold of the caller reaches the conversion (keyword and positional), for every
    ltype the function accepts; by contract in the symbolic mode (LieTensor.euler replaced by a recorder), by value on a rotation whose pitch
    lies between the caller's threshold and the default one in the concrete twin"""
    cv = env.load(CV); pp = env.load('pypose'); T = env.T; ltm = env.load(LT)
    if env.sym:
        X = lie(pp, 'SO3', env.unitquat('X', regimes=('generic',)))
        seen = []
        real = ltm.LieTensor.euler
        def rec(self, eps=Q(2, 10000)):
            seen.append(eps); return real(self, eps=eps) if False else T.stack([self.tensor()[0] * 0] * 3)
        env.stub(ltm.LieTensor, 'euler', rec)
        e1 = Q(1, 10 ** 6)
        cv.euler(X, eps=e1); cv.euler(X, e1); cv.euler(X)
        env.holds('the caller\'s eps reaches LieTensor.euler (keyword)', len(seen) >= 1 and seen[0] == e1)
        env.holds('the caller\'s eps reaches LieTensor.euler (positional)', len(seen) >= 2 and seen[1] == e1)
        env.holds('the default is the documented 2e-4', len(seen) >= 3 and seen[2] == Q(2, 10000))
        return
    import math
    pitch = math.asin(1 - 5e-5)                 # between the caller's threshold (1e-6) and the default one (2e-4)
    q = raw(cv.euler2SO3(T.tensor([0.3, pitch, -0.7], dtype=T.float64)))
    X = lie(pp, 'SE3', T.cat([T.tensor([0.1, 0.2, 0.3], dtype=T.float64), q]))
    e1 = 1e-6
    env.eq('the caller\'s eps reaches LieTensor.euler (keyword)', cv.euler(X, eps=e1), X.euler(eps=e1))
    env.eq('the caller\'s eps reaches LieTensor.euler (positional)', cv.euler(X, e1), X.euler(eps=e1))
    env.eq('the default is the documented 2e-4', cv.euler(X), X.euler(eps=2e-4))


@obligation('C11.canary.wrong_euler_order', functions=[f'{CV}:euler2SO3'], canary=True)
def canary(env):
    cv = env.load(CV); T = env.T
    e = env.vec('e', 3)
    for k in range(3): env.angle_base(e[k] / 2)
    q = raw(cv.euler2SO3(e))
    env.eq('Rx Ry Rz (wrong order)', S.quat_matrix(T, q), Rx(T, e[0]) @ Ry(T, e[1]) @ Rz(T, e[2]))


@bounded('C11.float_roundtrip', functions=[f'{CV}:from_matrix', f'{CV}:mat2SO3', f'{CV}:euler2SO3', f'{LT}:LieTensor.euler'])
def float_roundtrip(rng, tier):
    """real code, float32/float64: from_matrix(X.matrix()) with check=True never raises for valid elements (uniform rotations, all four branch
    regions, angle pi +- 1e-12..1e-3 and exactly pi, coordinate axes, scales 1e-3..1e3), returns a unit quaternion with the same matrix;
    euler2SO3(X.euler()) is the same rotation away from gimbal lock"""
    import torch, math, pypose as pp
    N = 100 if tier == 'quick' else 1500
    fails = []; evals = 0; samples = []
    for g in GROUPS:
        for dtype in (torch.float64, torch.float32):
            eps = torch.finfo(dtype).eps
            for k in range(N):
                kind = rng.choice(['uniform', 'nearpi', 'pi', 'axis', 'small'])
                ax = [rng.gauss(0, 1) for _ in range(3)]
                if kind == 'axis' or (kind == 'pi' and rng.random() < 0.5): ax = [[1.0, 0, 0], [0, 1.0, 0], [0, 0, 1.0]][rng.randrange(3)]
                n = math.sqrt(sum(a * a for a in ax)); ax = [a / n for a in ax]
                ang = {'uniform': rng.uniform(-math.pi, math.pi), 'nearpi': math.pi - rng.choice([1e-12, 1e-9, 1e-6, 1e-3]) * rng.choice([-1, 1]),
                       'pi': math.pi, 'axis': rng.choice([math.pi / 2, math.pi, -math.pi / 2, 1.0]), 'small': rng.choice([0.0, 1e-9, 1e-4])}[kind]
                q = [ax[0] * math.sin(ang / 2), ax[1] * math.sin(ang / 2), ax[2] * math.sin(ang / 2), math.cos(ang / 2)]
                if kind == 'pi': q[3] = 0.0
                t = [rng.gauss(0, 3) for _ in range(3)]; s = [10 ** rng.uniform(-3, 3)]
                data = {'SO3': q, 'SE3': t + q, 'RxSO3': q + s, 'Sim3': t + q + s}[g]
                X = pp.LieTensor(torch.tensor(data, dtype=dtype), ltype=getattr(pp, g + '_type'))
                M = X.matrix()
                sig = f'{g}/{str(dtype).split(".")[-1]}/{kind}'
                lay = rng.choice(['full', '3x3', '3x4'])
                Min = M if lay == 'full' else (M[:3, :3] if lay == '3x3' else (M[:3, :4] if M.shape[-1] == 4 else M))
                try:
                    Y = pp.from_matrix(Min, getattr(pp, g + '_type'), check=True)
                except Exception as e:
                    fails.append(dict(clause='valid_input_rejected', signature=sig, error=f'{type(e).__name__}: {e}'[:120], scale=s[0])); continue
                evals += 1
                tq = S.parts(g, Y.tensor())[1]
                if abs(float(tq.double().norm()) - 1) > 64 * eps:
                    fails.append(dict(clause='unit_quaternion', signature=sig, err=abs(float(tq.double().norm()) - 1)))
                M2 = Y.matrix()
                ref = M.double(); got = M2.double()
                if lay == '3x3' and g in ('SE3', 'Sim3'): ref = ref.clone(); ref[:3, 3] = 0
                sc = float(ref[:3, :3].abs().max())
                if float((got[:3, :3] - ref[:3, :3]).abs().max()) > 256 * eps * sc:
                    fails.append(dict(clause='same_rotation_scale_block', signature=sig, err=float((got[:3, :3] - ref[:3, :3]).abs().max()) / sc))
                if g == 'SO3':
                    e = X.euler()
                    if abs(math.sin(float(e[1]))) < 1 - 1e-3:
                        R2 = pp.euler2SO3(e).matrix().double()
                        if float((R2 - M.double()).abs().max()) > 1e4 * eps:
                            fails.append(dict(clause='euler_roundtrip', signature=sig, err=float((R2 - M.double()).abs().max())))
                        pi_ = math.pi * (1 + 2 * eps)      # pi rounded to the dtype may exceed the float64 value
                        if not (-pi_ <= float(e[0]) <= pi_ and -pi_ / 2 <= float(e[1]) <= pi_ / 2 and -pi_ <= float(e[2]) <= pi_):
                            fails.append(dict(clause='euler_principal_ranges', signature=sig))
            samples.append(dict(type=g, dtype=str(dtype)))
    # a BATCH that mixes gimbal-locked items (pitch at +-pi/2) with regular ones: the regular items still round-trip, and every item
    # equals the conversion of that item alone (the branch selection is per item)
    for dtype in (torch.float64, torch.float32):
        eps = torch.finfo(dtype).eps
        ang = torch.tensor([[0.3, math.pi / 2, 0.5], [0.7, -0.4, 1.1], [-2.0, 1.2, 0.3], [0.1, -math.pi / 2, -0.6], [1.5, 0.2, -2.5], [-0.3, 0.9, 2.8]], dtype=dtype)
        Xb = pp.euler2SO3(ang)
        for nm, Z in (('SO3', Xb), ('SE3', pp.SE3(torch.cat([torch.randn(6, 3, dtype=dtype), Xb.tensor()], -1)))):
            eb = Z.euler(); evals += 1
            for i in range(6):
                ei = Z[i].euler()
                if float((eb[i] - ei).abs().max()) > 64 * eps:
                    fails.append(dict(clause='euler_batch_is_itemwise', signature=f'{nm}/{str(dtype).split(".")[-1]}', item=i, err=float((eb[i] - ei).abs().max()))); break
            reg = [1, 2, 4, 5]
            R2 = pp.euler2SO3(eb[reg]).matrix().double(); R1 = Xb[reg].matrix().double()
            if float((R2 - R1).abs().max()) > 1e4 * eps:
                fails.append(dict(clause='euler_roundtrip', signature=f'regular items of a mixed batch/{nm}/{str(dtype).split(".")[-1]}', err=float((R2 - R1).abs().max())))
    uniq = {}
    for f in fails: uniq.setdefault((f['clause'], f['signature']), f)
    return dict(evaluations=evals, distinct_nontrivial=evals, rule='random valid elements over the stated rotation kinds, translations and scales, random input layout; all distinct',
                bound=f'{N} per (type, dtype)', failures=list(uniq.values())[:10], samples=samples[:3])
