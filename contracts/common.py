"""shared helpers for contract files"""
from specs import lie as S

GROUPS = ['SO3', 'SE3', 'RxSO3', 'Sim3']
OPS = 'pypose.lietensor.operation'
LT = 'pypose.lietensor.lietensor'


def group_elem(env, g, name, **kw):
    """valid group element (unit quaternion, positive scale) in pypose layout, shape (dim,)"""
    qreg = kw.get('qregimes', ('generic', 'identity', 'nearpi', 'small'))
    if g == 'SO3': return env.unitquat(name + 'q', regimes=qreg)
    if g == 'SE3': return env.cat(env.vec(name + 't', 3), env.unitquat(name + 'q', regimes=qreg))
    if g == 'RxSO3': return env.cat(env.unitquat(name + 'q', regimes=qreg), env.scalar(name + 's', positive=True))
    if g == 'Sim3': return env.cat(env.vec(name + 't', 3), env.unitquat(name + 'q', regimes=qreg), env.scalar(name + 's', positive=True))
    raise KeyError(g)


def alg_elem(env, g, name, **kw):
    return env.vec(name, S.DOF[g], **kw)


def ltype(pp, g):
    return getattr(pp, g + '_type')

def altype(pp, g):
    return getattr(pp, S.ALG[g] + '_type')

def lie(pp, g, data):
    return pp.LieTensor(data, ltype=ltype(pp, g))

def alg(pp, g, data):
    return pp.LieTensor(data, ltype=altype(pp, g))

def raw(x):
    return x.tensor() if hasattr(x, 'ltype') else x
