"""shared helpers for contract files"""
from specs import lie as S

GROUPS = ['SO3', 'SE3', 'RxSO3', 'Sim3']
OPS = 'pypose.lietensor.operation'
LT = 'pypose.lietensor.lietensor'


def group_elem(env, g, name, **kw):
    """valid group element (unit quaternion, positive scale) in pypose layout, shape (dim,)"""
    qreg = kw.get('qregimes', ('generic', 'identity', 'nearpi', 'small', 'weps'))
    if g == 'SO3': return env.unitquat(name + 'q', regimes=qreg)
    if g == 'SE3': return env.cat(env.vec(name + 't', 3), env.unitquat(name + 'q', regimes=qreg))
    if g == 'RxSO3': return env.cat(env.unitquat(name + 'q', regimes=qreg), env.scalar(name + 's', positive=True))
    if g == 'Sim3': return env.cat(env.vec(name + 't', 3), env.unitquat(name + 'q', regimes=qreg), env.scalar(name + 's', positive=True))
    raise KeyError(g)


def alg_elem(env, g, name, **kw):
    return env.vec(name, S.DOF[g], **kw)


def ltype(pp, g):
    return getattr(pp, g + '_type')

def altype(pp, g):
    return getattr(pp, S.ALG[g] + '_type')

def lie(pp, g, data):
    return pp.LieTensor(data, ltype=ltype(pp, g))

def alg(pp, g, data):
    return pp.LieTensor(data, ltype=altype(pp, g))

def raw(x):
    return x.tensor() if hasattr(x, 'ltype') else x


def tangent_basis(env, op, g, X):
    """V[j] = d/dtau_j ( Exp(tau) * X ) at tau = 0, through the real {g}_Mul.forward; shape (dof, dim)"""
    mul = getattr(op, g + '_Mul').forward
    T = env.T
    n = S.DOF[g]
    if env.sym:
        from pvc import algebra as A, storch as st
        c = A.CTX
        taus = [c.sym(f'_tau{j}', aux=True) for j in range(n)]
        tv = [list(t.num.vars())[0] for t in taus]
        Y = mul(S.first_order_element(T, g, st.tensor(taus)), X)
        rows = []
        zero = {v: A.Frac.const(0) for v in tv}
        for v in tv:
            rows.append([A.Frac(e.num.pdiff(v)).subs(zero) for e in Y._a.flat])
        return st.tensor(rows)
    Xd = X.detach()
    J = T.autograd.functional.jacobian(lambda tau: mul(S.first_order_element(T, g, tau), Xd),
                                       T.zeros(n, dtype=X.dtype))
    return J.transpose(-1, -2)
