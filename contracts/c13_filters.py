"""C13 - EKF / UKF equal the Kalman filter on linear-Gaussian systems; covariances valid.

Linear system (as NLS subclass; autograd contract = exact derivative): x' = A x + B u + c1 observed AFTER the
transition as y = C x' + D u + c2 (property statement).  Spec = Kalman predict-then-update (L-kalman: that is
the Gaussian posterior).  n = 2, m = 1, input 1, all entries symbolic, P = L L^T, Q and R SPD.
Structure obligations: EKF posterior covariance symmetric (Schur form); UKF / PF covariance helper is
Q + sum w_i e_i e_i^T (a sum of squares for w >= 0).
PF Monte-Carlo convergence: not applicable to contracts (probabilistic); a seeded stand-in is labelled.
"""
from fractions import Fraction as Q
from pvc.registry import obligation, bounded, property_meta
from contracts.common import *

property_meta('C13', level='proof', min_obligations=10,
              trusted_base=['L-kalman: the KF predict-then-update recursion is the Gaussian posterior; the Schur complement of a PSD joint covariance is PSD',
                            'assumed contracts: torch.linalg.pinv = inverse for SPD arguments; torch.linalg.cholesky = lower factor; autograd jacobian = derivative'],
              assumptions=['dimensions traced: state 2, observation 1, input 1', 'PF Monte-Carlo rate: stand-in only'],
              explanation='one filter step of the real code against the Kalman recursion with symbolic system matrices and covariances')

EKFM = 'pypose.module.ekf'; UKFM = 'pypose.module.ukf'; PFM = 'pypose.module.pf'


def Msym(env, name, n, m, **kw):
    T = env.T
    return T.stack([env.vec(f'{name}{i}', m, **kw) for i in range(n)], 0)


def spd2(env, name):
    """2x2 SPD matrix L L^T with positive diagonal factor entries"""
    T = env.T
    l00 = env.scalar(name + '_l00', positive=True, regimes=('generic',))[0]
    l11 = env.scalar(name + '_l11', positive=True, regimes=('generic',))[0]
    l10 = env.scalar(name + '_l10', regimes=('generic', 'zero'))[0]
    L = T.stack([T.stack([l00, l00 * 0]), T.stack([l10, l11])])
    return L @ L.transpose(-1, -2), L


def linear_model(env):
    dyn = env.load('pypose.module.dynamics'); T = env.T
    A_, B_, C_, D_ = Msym(env, 'A', 2, 2), Msym(env, 'B', 2, 1), Msym(env, 'C', 1, 2), Msym(env, 'D', 1, 1)
    c1, c2 = env.vec('c1', 2), env.vec('c2', 1)
    class Lin(dyn.NLS):
        def state_transition(self, state, input, t=None):
            return (A_ @ state.unsqueeze(-1)).squeeze(-1) + (B_ @ input.unsqueeze(-1)).squeeze(-1) + c1
        def observation(self, state, input, t=None):
            return (C_ @ state.unsqueeze(-1)).squeeze(-1) + (D_ @ input.unsqueeze(-1)).squeeze(-1) + c2
    if env.sym:
        from pvc import storch as st
        st.set_external('autograd.functional.jacobian', lambda func, x, **kw: env.jacobian(func, x))
        def pinv(M, atol=None, rtol=None, hermitian=False, **k):
            if atol is not None or rtol is not None:
                from pvc.atoms import EngineGap
                raise EngineGap('linalg.pinv called with an explicit singular-value cut-off: the assumed contract (= inverse for SPD arguments) does not cover it')
            return st.inverse(M)
        st.set_external('linalg.pinv', pinv)
        def chol(M, **k):
            a, b_, c = M[..., 0, 0], M[..., 1, 0], M[..., 1, 1]
            l00 = T.sqrt(a); l10 = b_ / l00; l11 = T.sqrt(c - l10 * l10)
            return T.stack([T.stack([l00, l00 * 0], -1), T.stack([l10, l11], -1)], -2)
        st.set_external('linalg.cholesky', chol)
    return Lin(), (A_, B_, C_, D_, c1, c2)


def kalman(T, sysm, x, P, u, y, Qn, Rn):
    A_, B_, C_, D_, c1, c2 = sysm
    xm = A_ @ x + B_ @ u + c1
    Pm = A_ @ P @ A_.transpose(-1, -2) + Qn
    Sm = C_ @ Pm @ C_.transpose(-1, -2) + Rn
    K = Pm @ C_.transpose(-1, -2) / Sm[0, 0]
    xp = xm + K @ (y - (C_ @ xm + D_ @ u + c2))
    I = T.eye(2) if not hasattr(P, 'dtype') or not hasattr(T, 'float64') or not isinstance(P.dtype, type(T.float64)) else T.eye(2, dtype=P.dtype)
    Pp = Pm - K @ C_ @ Pm
    return xm, Pm, xp, Pp


def setup(env):
    T = env.T
    model, sysm = linear_model(env)
    x, u, y = env.vec('x', 2), env.vec('u', 1), env.vec('y', 1)
    P, _ = spd2(env, 'P'); Qn, _ = spd2(env, 'Q')
    Rn = (env.scalar('r', positive=True, regimes=('generic',)) ** 2).reshape(1, 1)
    return model, sysm, x, u, y, P, Qn, Rn


@obligation('C13.EKF.linear', functions=[f'{EKFM}:EKF.forward', f'{EKFM}:EKF.set_uncertainty'], tol=1e-7, timeout=300)
def ekf(env):
    ek = env.load(EKFM); T = env.T
    model, sysm, x, u, y, P, Qn, Rn = setup(env)
    f = ek.EKF(model, Q=Qn, R=Rn)
    xp, Pp = f(x, y, u, P)
    xm, Pm, xs, Ps = kalman(T, sysm, x, P, u, y, Qn, Rn)
    env.eq('posterior covariance is the Kalman posterior covariance', Pp, Ps)
    env.eq('posterior covariance is symmetric', Pp, Pp.transpose(-1, -2))
    env.eq('posterior mean is the Kalman predict-then-update mean (innovation at the predicted state)', xp, xs)
    env.safe('defined', xp, Pp)


@obligation('C13.noise_registration', functions=[f'{EKFM}:EKF.set_uncertainty', f'{EKFM}:EKF.Q', f'{EKFM}:EKF.R', f'{EKFM}:EKF.__init__', f'{EKFM}:EKF.forward'], tol=1e-7, timeout=300)
def noise_registration(env):
    """the noise covariances the filters compute with are the ones the caller registered LAST: set_uncertainty(Q=..) / (R=..) / (Q, R) each
    replace exactly what they are given and keep the other (inherited by UKF and PF); a step without per-call Q, R then is the Kalman step
    for the registered pair, a per-call pair wins over the registered one"""
    ek = env.load(EKFM); T = env.T
    model, sysm, x, u, y, P, Qn, Rn = setup(env)
    Q2, _ = spd2(env, 'Q2'); R2 = (env.scalar('r2', positive=True, regimes=('generic',)) ** 2).reshape(1, 1)
    f = ek.EKF(model, Q=Qn, R=Rn)
    f.set_uncertainty(R=R2)
    env.eq('set_uncertainty(R=R2): R is R2', f.R, R2); env.eq('set_uncertainty(R=R2): Q is kept', f.Q, Qn)
    f.set_uncertainty(Q=Q2)
    env.eq('set_uncertainty(Q=Q2): Q is Q2', f.Q, Q2); env.eq('set_uncertainty(Q=Q2): R is kept', f.R, R2)
    xp, Pp = f(x, y, u, P)
    xm, Pm, xs, Ps = kalman(T, sysm, x, P, u, y, Q2, R2)
    env.eq('a step without per-call noise uses the registered pair: covariance', Pp, Ps)
    env.eq('a step without per-call noise uses the registered pair: mean', xp, xs)
    f.set_uncertainty(Qn, Rn)
    env.eq('set_uncertainty(Q, R): both replaced (Q)', f.Q, Qn); env.eq('set_uncertainty(Q, R): both replaced (R)', f.R, Rn)
    xq, Pq = f(x, y, u, P, Q2, R2)
    env.eq('a per-call pair wins over the registered one', Pq, Ps)
    # ONE per-call covariance overrides that one only: the other stays the registered one (Qn, Rn are registered at this point)
    xm1, Pm1, xs1, Ps1 = kalman(T, sysm, x, P, u, y, Q2, Rn)
    xo, Po = f(x, y, u, P, Q=Q2)
    env.eq('a per-call Q alone is used with the registered R: covariance', Po, Ps1); env.eq('a per-call Q alone is used with the registered R: mean', xo, xs1)
    xm2, Pm2, xs2, Ps2 = kalman(T, sysm, x, P, u, y, Qn, R2)
    xo2, Po2 = f(x, y, u, P, R=R2)
    env.eq('a per-call R alone is used with the registered Q: covariance', Po2, Ps2); env.eq('a per-call R alone is used with the registered Q: mean', xo2, xs2)
    g = ek.EKF(model)
    g.set_uncertainty(R=Rn)
    env.eq('registering R alone on a filter built without noise', g.R, Rn)


@obligation('C13.UKF.linear', functions=[f'{UKFM}:UKF.forward', f'{UKFM}:UKF.sigma_weight_points', f'{UKFM}:UKF.compute_cov'], tol=1e-7, timeout=300, max_paths=16)
def ukf(env):
    uk = env.load(UKFM); T = env.T
    model, sysm, x, u, y, P, Qn, Rn = setup(env)
    kk = env.scalar('kappa_plus_n', positive=True, regimes=('generic',))[0] - 2          # any k > -n
    f = uk.UKF(model, Q=Qn, R=Rn)
    pts, w = f.sigma_weight_points(x, P, kk)
    env.eq('sigma weights sum to one', w.sum(), 1)
    env.eq('sigma points reproduce the mean', (w * pts).sum(-2), x)
    d = pts - x
    env.eq('sigma points reproduce the covariance', f.compute_cov(d, d, w), P)
    xp, Pp = f(x, y, u, P, k=kk)
    xm, Pm, xs, Ps = kalman(T, sysm, x, P, u, y, Qn, Rn)
    env.eq('posterior mean is the Kalman posterior mean', xp, xs)
    env.eq('posterior covariance is the Kalman posterior covariance', Pp, Ps)


@obligation('C13.UKF.parameter_k', functions=[f'{UKFM}:UKF.forward', f'{UKFM}:UKF.sigma_weight_points'], tol=1e-7, timeout=300, max_paths=16)
def ukf_k(env):
    """the sigma-point parameter the caller passes is the one both sigma sets are built with - for every k > -n, k = 0 (centre weight 0,
    int or float) included; only k = None selects the documented default 3 - n"""
    uk = env.load(UKFM); T = env.T
    model, sysm, x, u, y, P, Qn, Rn = setup(env)
    n = 2
    ksym = env.scalar('kappa_plus_n', positive=True, regimes=('generic',))[0] - 2
    zero_f = (ksym * 0) if env.sym else 0.0
    for label, given, expect in (('k = 0 (int)', 0, 0), ('k = 0.0', zero_f, 0), ('symbolic k', ksym, ksym), ('k = 1', 1, 1), ('k = None', None, 3 - n)):
        f = uk.UKF(model, Q=Qn, R=Rn)
        seen = []
        orig = f.sigma_weight_points
        object.__setattr__(f, 'sigma_weight_points', lambda x_, P_, k_, orig=orig, seen=seen: (seen.append(k_), orig(x_, P_, k_))[1])
        f(x, y, u, P, k=given)
        env.holds(f'{label}: sigma points are generated (prediction and update)', len(seen) >= 1)
        for i, kv in enumerate(seen):
            env.eq(f'{label}: sigma set {i + 1} is built with the requested parameter', kv if not isinstance(kv, (int, float)) else T.tensor(kv) * (1 if not env.sym else 1), expect)


@obligation('C13.covariance_structure', functions=[f'{UKFM}:UKF.compute_cov', f'{PFM}:PF.compute_cov'])
def covs(env):
    """Q + sum_i w_i e_i e_i^T : v^T P v = v^T Q v + sum_i w_i (e_i . v)^2  (>= 0 for w >= 0, Q PSD); symmetric"""
    uk = env.load(UKFM); pf = env.load(PFM); T = env.T
    e = Msym(env, 'e', 3, 2); w = T.stack([env.scalar(f'w{i}', nonneg=True)[0] for i in range(3)]).unsqueeze(-1)
    Qn, L = spd2(env, 'Q'); v = env.vec('v', 2)
    U = uk.UKF.__new__(uk.UKF)
    Pu = uk.UKF.compute_cov(U, e, e, w, Qn)
    sq = ((L.transpose(-1, -2) @ v) ** 2).sum() + (w.squeeze(-1) * ((e @ v) ** 2)).sum()
    env.eq('UKF covariance helper: quadratic form is a weighted sum of squares', v @ Pu @ v, sq)
    env.eq('UKF covariance helper: symmetric', Pu, Pu.transpose(-1, -2))
    env.holds('UKF covariance helper: PSD for non-negative weights', (v @ Pu @ v) >= 0)
    Pp = pf.PF.compute_cov(U, e, e, Qn)
    sq2 = ((L.transpose(-1, -2) @ v) ** 2).sum() + ((e @ v) ** 2).sum() / 3
    env.eq('PF covariance: quadratic form is a sum of squares', v @ Pp @ v, sq2)
    env.eq('PF covariance: symmetric', Pp, Pp.transpose(-1, -2))


@bounded('C13.psd_runs', functions=[f'{EKFM}:EKF.forward', f'{UKFM}:UKF.forward', f'{PFM}:PF.forward'])
def psd_runs(rng, tier):
    """real code: filter runs of up to 50 steps on random linear systems: covariances symmetric PSD (EKF, PF; UKF with k >= 0)"""
    import torch, pypose as pp
    N = 6 if tier == 'quick' else 60
    fails = []; samples = []; evals = 0
    g = torch.Generator().manual_seed(rng.randrange(1 << 30))
    for k in range(N):
        n, m = rng.randrange(1, 5), rng.randrange(1, 4)
        A_ = 0.5 * torch.randn(n, n, dtype=torch.float64, generator=g); C_ = torch.randn(m, n, dtype=torch.float64, generator=g)
        class Lin(pp.module.NLS):
            def state_transition(self, state, input, t=None): return state @ A_.T + input
            def observation(self, state, input, t=None): return state @ C_.T
        def spd(d, s):
            Mx = torch.randn(d, d, dtype=torch.float64, generator=g); return s * (Mx @ Mx.T + 0.1 * torch.eye(d, dtype=torch.float64))
        Qn, Rn, P0 = spd(n, 10 ** rng.uniform(-3, 0)), spd(m, 10 ** rng.uniform(-3, 0)), spd(n, 10 ** rng.uniform(-2, 1))
        for name, filt in (('EKF', pp.module.EKF(Lin(), Qn, Rn)), ('UKF', pp.module.UKF(Lin(), Qn, Rn)), ('PF', pp.module.PF(Lin(), Qn, Rn, particles=200))):
            x = torch.randn(n, dtype=torch.float64, generator=g); P = P0.clone()
            torch.manual_seed(rng.randrange(1 << 30))
            for step in range(10 if tier == 'quick' else 50):
                y = torch.randn(m, dtype=torch.float64, generator=g); u = torch.randn(n, dtype=torch.float64, generator=g)
                try:
                    x, P = filt(x, y, u, P) if name != 'UKF' else filt(x, y, u, P, k=float(rng.choice([0, 1, 3])))
                except Exception as e:
                    fails.append(dict(clause=f'{name}_raises', signature=f'n={n},m={m}', error=f'{type(e).__name__}: {e}'[:160])); break
                evals += 1
                sym = float((P - P.T).abs().max()) / (1e-300 + float(P.abs().max()))
                ev = float(torch.linalg.eigvalsh((P + P.T) / 2).min()) / (1e-300 + float(P.abs().max()))
                if sym > 1e-8 or ev < -1e-8:
                    fails.append(dict(clause=f'{name}_covariance_symmetric_psd', signature=f'n={n},m={m}', asym=sym, min_eig_rel=ev, step=step)); break
        if k < 2: samples.append(dict(n=n, m=m))
    return dict(evaluations=evals, distinct_nontrivial=evals, rule='random stable linear systems n in 1..4, m in 1..3, SPD Q/R/P over 3 orders of magnitude; each filter step counted',
                bound='n <= 4, m <= 3, runs of 10 (quick) / 50 steps', failures=fails[:6], samples=samples)


@bounded('C13.kalman_comparison', functions=[f'{EKFM}:EKF.forward', f'{UKFM}:UKF.forward'])
def kalman_numeric(rng, tier):
    """real code (float64): one EKF / UKF step on random linear systems vs the exact Kalman predict-then-update posterior, dimensions 1..6,
    SPD Q, R, P with eigenvalues spread over up to 6 orders of magnitude (anisotropic), any k > -n for the UKF"""
    import torch, pypose as pp
    d = torch.float64
    N = 40 if tier == 'quick' else 400
    fails = []; evals = 0; samples = []
    g = torch.Generator().manual_seed(rng.randrange(1 << 30))
    def spd(n, spread):
        Qm, _ = torch.linalg.qr(torch.randn(n, n, dtype=d, generator=g))
        ev = 10 ** (torch.rand(n, dtype=d, generator=g) * spread - spread / 2) * 10 ** rng.uniform(-2, 2)
        return Qm @ torch.diag(ev) @ Qm.T
    for t in range(N):
        n, m, nu = rng.randrange(1, 7), rng.randrange(1, 7), rng.randrange(1, 4)
        spread = rng.choice([0, 2, 4, 6])
        A_, B_, C_, D_ = torch.randn(n, n, dtype=d, generator=g), torch.randn(n, nu, dtype=d, generator=g), torch.randn(m, n, dtype=d, generator=g), torch.randn(m, nu, dtype=d, generator=g)
        c1, c2 = torch.randn(n, dtype=d, generator=g), torch.randn(m, dtype=d, generator=g)
        class Lin(pp.module.NLS):
            def state_transition(self, s, u, t=None): return s @ A_.T + u @ B_.T + c1
            def observation(self, s, u, t=None): return s @ C_.T + u @ D_.T + c2
        diagonal = rng.random() < 0.5
        if diagonal:        # decoupled directions: round-off cannot mix scales, so an elementwise relative comparison is meaningful
            m = n
            A_ = torch.diag(torch.randn(n, dtype=d, generator=g)); C_ = torch.diag(1 + torch.rand(n, dtype=d, generator=g)); D_ = torch.randn(m, nu, dtype=d, generator=g)
            c2 = torch.randn(m, dtype=d, generator=g)
            dg = lambda k_: torch.diag(10 ** (torch.rand(k_, dtype=d, generator=g) * spread - spread / 2))
            P, Qn, Rn = dg(n), dg(n), dg(m)
        else:
            P, Qn, Rn = spd(n, spread), spd(n, spread), spd(m, spread)
        x, u, y = torch.randn(n, dtype=d, generator=g), torch.randn(nu, dtype=d, generator=g), torch.randn(m, dtype=d, generator=g)
        xm = A_ @ x + B_ @ u + c1; Pm = A_ @ P @ A_.T + Qn
        Sm = C_ @ Pm @ C_.T + Rn; K = torch.linalg.solve(Sm, C_ @ Pm).T
        xs = xm + K @ (y - (C_ @ xm + D_ @ u + c2)); Ps = Pm - K @ Sm @ K.T
        condS = float(torch.linalg.cond(Sm))
        for name, run in (('EKF', lambda: pp.module.EKF(Lin(), Qn, Rn)(x, y, u, P)),
                          ('UKF', lambda: pp.module.UKF(Lin(), Qn, Rn)(x, y, u, P, k=float(rng.choice([0.0, 1.0, 3.0 - n, 0.5]))))):
            try:
                xp, Pp = run()
            except Exception as e:
                fails.append(dict(clause=f'{name}_raises', signature=f'n={n},m={m},spread={spread}', error=f'{type(e).__name__}: {e}'[:160])); continue
            evals += 1
            if diagonal:
                ex = float(((xp - xs).abs() / (1e-12 + xs.abs() + Pm.diagonal().sqrt())).max())
                eP = float(((Pp.diagonal() - Ps.diagonal()).abs() / Ps.diagonal().abs()).max())
                tol = 1e-8
            else:
                ex = float((xp - xs).abs().max()) / (1 + float(xs.abs().max())); eP = float((Pp - Ps).abs().max()) / float(Pm.abs().max())
                tol = max(1e-9, 1e3 * condS * 2.2e-16)          # round-off of the (I - K C) P form grows with cond(S)
            if ex > max(tol, 1e-9) * 10 or eP > tol:
                fails.append(dict(clause=f'{name}_equals_kalman_posterior', signature=('diagonal' if diagonal else 'dense') + f'/spread=1e{spread}', n=n, m=m, err_mean=ex, err_cov=eP, condS=condS))
        if t < 2: samples.append(dict(n=n, m=m, spread=spread))
    uniq = {}
    for f in fails: uniq.setdefault((f['clause'], f['signature']), f)
    return dict(evaluations=evals, distinct_nontrivial=evals, rule='random linear systems, state/input/observation dims 1..6, covariances with eigenvalue spread 1..1e6; distinct by seed',
                bound='dims <= 6, spread <= 1e6', failures=list(uniq.values())[:8], samples=samples)


@obligation('C13.PF.particle_model', functions=[f'{PFM}:PF.forward', f'{PFM}:PF.generate_particles', f'{PFM}:PF.relative_likelihood', f'{PFM}:PF.resample_particles',
                                                 f'{PFM}:PF.compute_cov'], max_paths=64, timeout=300, tol=1e-7,
            note='random sources by contract: N(loc, cov).sample = loc + Z chol(cov)^T and randn = Z with Z standard normal, rand = r uniform on (0,1), '
                 'softmax = abstract positive weights summing to one (its argument is checked); N = 2 particles, n = 2 states, linear f and g')
def pf_model(env):
    """the deterministic structure of one PF step, for ALL values of the random draws: the estimator is the documented particle model"""
    pfm = env.load(PFM); T = env.T
    model, sysm, x, u, y, P, Qn, Rn = setup(env)
    A_, B_, C_, D_, c1, c2 = sysm
    N, n = 2, 2
    Z = T.stack([env.vec(f'z{i}_', n, regimes=('generic',)) for i in range(N)], 0)              # standard normal draws
    r = T.cat([env.scalar(f'r{i}_', positive=True, regimes=('generic', 'small')) for i in range(N)], -1)       # uniform draws
    env.assume('uniform draws lie in (0, 1)', r < 1)
    rec = {}
    chol = T.linalg.cholesky
    class MVN:
        def __init__(self, loc, covariance_matrix=None, **k):
            self.loc, self.cov = loc, covariance_matrix
            rec.setdefault('mvn', []).append((loc, covariance_matrix))
        def sample(self, size=()):
            rec['sample_size'] = tuple(size)
            return self.loc + Z @ chol(self.cov).transpose(-1, -2)
        def log_prob(self, v):
            d = v - self.loc
            q = (d.unsqueeze(-2) @ T.linalg.inv(self.cov) @ d.unsqueeze(-1)).squeeze(-1).squeeze(-1)
            rec['log_prob'] = -q / 2 - (T.log(T.linalg.det(self.cov)) + self.cov.shape[-1] * 1.8378770664093453) / 2 if not env.sym else -q / 2 + rec['K']
            return rec['log_prob']
    if env.sym:
        rec['K'] = env.scalar('lognorm_', regimes=('generic',))[0]           # the normalising constant, the same for every particle
        qw = T.cat([env.scalar(f'q{i}_', positive=True, regimes=('generic',)) for i in range(N - 1)], -1)
        env.assume('weights are positive and sum to one', qw.sum() < 1)
        qs = T.cat([qw, (1 - qw.sum()).reshape(1)], -1)
        def softmax(inp, dim=-1, **k):
            rec['softmax_in'], rec['softmax_dim'] = inp, dim
            return qs
    else:
        real_softmax = pfm.F.softmax
        def softmax(inp, dim=-1, **k):
            rec['softmax_in'], rec['softmax_dim'] = inp, dim
            rec['q'] = real_softmax(inp, dim=dim)
            return rec['q']
    env.stub(pfm, 'MultivariateNormal', MVN)
    env.stub(pfm.F, 'softmax', softmax)
    env.stub(pfm.torch, 'softmax', softmax)                # either spelling of the normalisation
    env.stub(pfm.torch, 'randn', lambda *size, **k: Z.reshape(*size) if tuple(size) != (N, n) and len(size) > 1 else Z)
    env.stub(pfm.torch, 'rand', lambda *size, **k: r)
    seen = {}
    st_real, ob_real = type(model).state_transition, type(model).observation
    class Rec(type(model)):
        def state_transition(self, state, input, t=None):
            out = st_real(self, state, input, t)
            if state.dim() == 2: seen.setdefault('f_in', state); seen.setdefault('f_out', out)      # the call on the particle set (set_refpoint calls it on x)
            return out
        def observation(self, state, input, t=None):
            if state.dim() == 2: seen.setdefault('g_in', state)
            return ob_real(self, state, input, t)
    f = pfm.PF(Rec(), Q=Qn, R=Rn, particles=N)
    xe, Pe = f(x, y, u, P)
    q = qs if env.sym else rec['q']
    # 1. prior particles: an affine image x + Z M of the standard normal draws with M^T M = n P, i.e. distributed as N(x, nP)
    xp = seen['f_in']
    Lp = chol(n * P)
    env.eq('prior particles are x + Z L^T with L L^T = n P  (the documented prior N(x, nP))', xp, x + Z @ Lp.transpose(-1, -2))
    env.eq('... L L^T = n P', Lp @ Lp.transpose(-1, -2), n * P)
    # 2. propagation through f
    xs = (A_ @ xp.unsqueeze(-1)).squeeze(-1) + (B_ @ u.unsqueeze(-1)).squeeze(-1) + c1
    env.eq('particles are propagated through the transition function', seen['f_out'], xs)
    env.eq('the observation function is evaluated at the propagated particles', seen['g_in'], xs)
    # 3. weights: Gaussian likelihood of y at the observation of the PROPAGATED particles
    ye = (C_ @ xs.unsqueeze(-1)).squeeze(-1) + (D_ @ u.unsqueeze(-1)).squeeze(-1) + c2
    d = y - ye
    ll = -(d * d).sum(-1) / (2 * Rn[0, 0])
    si = rec['softmax_in']
    env.eq('log-weights differ between particles by the Gaussian log-likelihood of y at the propagated particles', si[0] - si[1], ll[0] - ll[1])
    env.holds('weights are normalised over the particle axis', rec['softmax_dim'] in (-1, 0) and tuple(si.shape) == (N,))
    env.assume('no uniform draw falls exactly on a boundary of the weight partition (probability zero; either side is a valid inverse CDF)', (r - q[0]).abs() > 0)
    # 4. resampling by the inverse CDF of the weights: draw k takes particle j with  sum_{m<j} q_m <= r_k <= sum_{m<=j} q_m
    idx = [0 if bool(r[k] <= q[0]) else 1 for k in range(N)]
    xr = T.stack([xs[j] for j in idx], 0)
    # 5. estimate and covariance
    mean = xr.mean(0)
    env.eq('estimate is the mean of the resampled propagated particles', xe, mean)
    ex = xr - mean
    cov = Qn + (ex.unsqueeze(-1) @ ex.unsqueeze(-2)).mean(0)
    env.eq('covariance is Q + the sample covariance of the resampled particles', Pe, cov)
    env.eq('covariance is symmetric', Pe, Pe.transpose(-1, -2))


@bounded('C13.PF.monte_carlo', functions=[f'{PFM}:PF.forward', f'{PFM}:PF.generate_particles', f'{PFM}:PF.relative_likelihood', f'{PFM}:PF.resample_particles'])
def pf_mc(rng, tier):
    """real code (float64): one PF step on random LINEAR systems with CORRELATED priors against the closed-form posterior of the documented
    particle model (prior N(x, nP), propagation through f without process noise, Gaussian likelihood of y, resampling; covariance Q + sample
    covariance): mean inside a 6-sigma Monte-Carlo band, covariance within 6 sigma of its sampling error; 1e5 (quick) / 1e6 particles"""
    import torch, pypose as pp, math
    d = torch.float64
    runs = 4 if tier == 'quick' else 12
    Np = 100_000 if tier == 'quick' else 1_000_000
    fails = []; evals = 0; samples = []
    g = torch.Generator().manual_seed(rng.randrange(1 << 30))
    for t in range(runs):
        n = rng.randrange(2, 4); m = rng.randrange(1, n + 1)
        A_ = torch.eye(n, dtype=d) + 0.3 * torch.randn(n, n, dtype=d, generator=g); C_ = torch.randn(m, n, dtype=d, generator=g)
        c1 = torch.randn(n, dtype=d, generator=g)
        class Lin(pp.module.NLS):
            def state_transition(self, s, u, t=None): return s @ A_.T + u + c1
            def observation(self, s, u, t=None): return s @ C_.T
        # strongly correlated prior: P = L L^T with a large off-diagonal part (L L^T != L^T L)
        Lm = torch.tril(torch.randn(n, n, dtype=d, generator=g)); Lm = Lm + torch.diag(0.5 + torch.rand(n, dtype=d, generator=g))
        P = Lm @ Lm.T * 10 ** rng.uniform(-1, 0.5)
        Qn = 0.01 * torch.eye(n, dtype=d); Rn = torch.eye(m, dtype=d) * (0.5 + rng.random()) * float(C_ @ (n * P) @ C_.T).__abs__() if m == 1 else \
            torch.eye(m, dtype=d) * (0.5 + rng.random()) * float(torch.linalg.eigvalsh(C_ @ (n * P) @ C_.T).max())
        x = torch.randn(n, dtype=d, generator=g); u = torch.randn(n, dtype=d, generator=g)
        mp_ = A_ @ x + u + c1; Sp = A_ @ (n * P) @ A_.T
        y = C_ @ mp_ + torch.linalg.cholesky(C_ @ Sp @ C_.T + Rn) @ torch.randn(m, dtype=d, generator=g)       # a typical measurement
        S = C_ @ Sp @ C_.T + Rn; K = torch.linalg.solve(S, C_ @ Sp).T
        mean = mp_ + K @ (y - C_ @ mp_); cov = Sp - K @ S @ K.T
        # effective sample size of the importance weights (own draw of the documented model)
        z = mp_ + torch.randn(20000, n, dtype=d, generator=g) @ torch.linalg.cholesky(Sp).T
        lw = -0.5 * ((y - z @ C_.T) @ torch.linalg.inv(Rn) * (y - z @ C_.T)).sum(-1); w = torch.softmax(lw, 0)
        ess_frac = float(1.0 / (w ** 2).sum()) / 20000
        n_eff = Np * ess_frac / 2            # resampling at most doubles the variance
        torch.manual_seed(rng.randrange(1 << 30))
        try:
            xe, Pe = pp.module.PF(Lin(), Qn, Rn, particles=Np)(x, y, u, P)
        except Exception as e:
            fails.append(dict(clause='PF_raises', signature=f'n={n},m={m}', error=f'{type(e).__name__}: {e}'[:160])); continue
        evals += 1
        sd = cov.diagonal().sqrt()
        dev = float(((xe - mean).abs() / (sd / math.sqrt(n_eff))).max())
        # sampling error of a covariance entry ~ sqrt((c_ii c_jj + c_ij^2) / n_eff)
        se = ((cov.diagonal()[:, None] * cov.diagonal()[None, :] + cov ** 2) / n_eff).sqrt()
        devP = float((((Pe - Qn) - cov).abs() / se).max())
        if dev > 6 or devP > 6:
            fails.append(dict(clause='PF_converges_to_the_posterior_of_the_documented_model', signature=f'correlated prior n={n},m={m}', mean_dev_sigmas=dev, cov_dev_sigmas=devP,
                              particles=Np, ess_fraction=ess_frac))
        if t < 2: samples.append(dict(n=n, m=m, mean_dev_sigmas=dev, cov_dev_sigmas=devP, ess_fraction=ess_frac))
    return dict(evaluations=evals, distinct_nontrivial=evals, rule='random linear systems n in 2..3 with correlated (non-diagonal) priors; each PF step one evaluation; 6-sigma bands from the effective sample size',
                bound=f'{runs} systems, {Np} particles', failures=fails[:4], samples=samples)


@bounded('C13.PF.float32', functions=['pypose.module.pf:PF.forward', 'pypose.module.pf:PF.resample_particles', 'pypose.module.pf:PF.compute_cov'])
def pf_float32(rng, tier):
    """real code in float32 (the default dtype), 1e5 particles, also for states far from the origin relative to their spread: PF returns
    (no exception), the covariance is symmetric positive semi-definite and - with an uninformative measurement and identity dynamics -
    equals n P + Q up to sampling error (10 %)"""
    import torch, pypose as pp
    d = torch.float32
    runs = 10 if tier == 'quick' else 60
    Np = 100_000
    fails = []; evals = 0; samples = []
    class Hold(pp.module.NLS):
        def state_transition(self, s, u, t=None): return s + u
        def observation(self, s, u, t=None): return s
    for t in range(runs):
        n = rng.choice([1, 2, 3, 6]); offset = rng.choice([0.0, 1e2, 1e3, 5e3]); p = rng.choice([1.0, 1e-2, 1e-3])
        x = torch.full((n,), offset, dtype=d); u = torch.zeros(n, dtype=d)
        P = torch.eye(n, dtype=d) * p; Qn = torch.eye(n, dtype=d) * p * 1e-2; Rn = torch.eye(n, dtype=d) * p * 1e6
        torch.manual_seed(rng.randrange(1 << 30))
        sig = f'n={n},offset={offset:g},P={p:g}'
        try:
            xe, Pe = pp.module.PF(Hold(), particles=Np)(x, x.clone(), u, P, Qn, Rn)
        except Exception as e:
            fails.append(dict(clause='PF_returns_in_float32', signature=sig, error=f'{type(e).__name__}: {e}'[:160], particles=Np)); continue
        evals += 1
        expect = (n * P + Qn).double(); Pd = Pe.double()
        ev = torch.linalg.eigvalsh((Pd + Pd.mT) / 2)
        if float((Pd - Pd.mT).abs().max()) > 1e-6 * float(Pd.abs().max()) or float(ev.min()) < -1e-6 * float(ev.abs().max()):
            fails.append(dict(clause='PF_covariance_symmetric_psd_float32', signature=sig, min_eig=float(ev.min()), max_eig=float(ev.max())))
        elif float(torch.linalg.norm(Pd - expect) / torch.linalg.norm(expect)) > 0.1:
            fails.append(dict(clause='PF_covariance_is_spread_plus_Q_float32', signature=sig, rel_err=float(torch.linalg.norm(Pd - expect) / torch.linalg.norm(expect))))
        if float((xe.double() - offset).abs().max()) > 6 * (n * p) ** 0.5 / Np ** 0.5 + 1e-6 * (1 + offset) * 10:
            fails.append(dict(clause='PF_mean_float32', signature=sig, err=float((xe.double() - offset).abs().max())))
        if t < 2: samples.append(dict(n=n, offset=offset, P=p, min_eig=float(ev.min())))
        if len(fails) > 6: break
    uniq = {}
    for f_ in fails: uniq.setdefault((f_['clause'], f_['signature']), f_)
    return dict(evaluations=evals, distinct_nontrivial=evals, rule='n in {1,2,3,6}, state offsets {0,1e2,1e3,5e3}, P in {1,1e-2,1e-3}; one PF step each',
                bound=f'{runs} steps, {Np} particles, float32', failures=list(uniq.values())[:6], samples=samples)


@obligation('C13.canary.wrong_gain', functions=[f'{EKFM}:EKF.forward'], canary=True, timeout=300)
def canary(env):
    ek = env.load(EKFM); T = env.T
    model, sysm, x, u, y, P, Qn, Rn = setup(env)
    f = ek.EKF(model, Q=Qn, R=Rn)
    xp, Pp = f(x, y, u, P)
    xm, Pm, xs, Ps = kalman(T, sysm, x, P, u, y, Qn, Rn)
    env.eq('posterior covariance equals the prior covariance', Pp, Pm)


# "EKF equals the recursion applied to the linearisation at the prior mean": the linearisation EKF uses is what NLS.set_refpoint / A / B / C / D /
# c1 / c2 provide at the reference point (x, u, t) it is handed - also for an explicit, fractional time stamp.  That contract is stated in
# c15_dynamics.py and discharged in this check too.
from contracts import c15_dynamics as _c15
obligation('C13.callee.NLS.linearisation', functions=['pypose.module.dynamics:NLS.set_refpoint', 'pypose.module.dynamics:NLS.A', 'pypose.module.dynamics:NLS.C',
                                                      'pypose.module.dynamics:NLS.c1', 'pypose.module.dynamics:NLS.c2'], tol=1e-6,
           note='callee contract of EKF.forward (same contract function as C15.NLS.family)')(_c15.nls_family)
