"""C03 - group product, inverse, identity and point action obey the group laws.

Contracts on: SO3/SE3/RxSO3/Sim3 _Mul/_Inv/_Act/_Act4 .forward, *_Matrix, *_Matrix4x4 (operation.py);
*Type.Mul/Inv/Act/matrix/rotation/translation/scale/identity/identity_, LieTensor.__matmul__ (lietensor.py).
Postconditions are taken from the property statement; `specs.lie` is the documented representation.
"""
from pvc.registry import obligation, bounded, property_meta
from specs import lie as S
from contracts.common import *

property_meta('C03', level='proof', min_obligations=100,
              trusted_base=['specs/lie.py: documented matrix representation (quaternion -> rotation matrix, block layout)'],
              assumptions=['round-off drift clause (up to 1e4 operations) is a bounded stand-in, not proved',
                           'LieTensor glue is traced with a single item (batch transparency is C06)'],
              explanation='polynomial identities modulo unit-quaternion relations, decided by normal form')


def _fn(op, g, what):
    return getattr(op, f'{g}_{what}')


for g in GROUPS:
    def mk(g=g):
        F = [f'{OPS}:{g}_Mul.forward', f'{OPS}:{g}_Inv.forward']

        @obligation(f'C03.{g}.assoc', functions=F)
        def assoc(env):
            op = env.load(OPS)
            X, Y, Z = (group_elem(env, g, n) for n in 'XYZ')
            mul = _fn(op, g, 'Mul').forward
            env.eq('assoc', mul(mul(X, Y), Z), mul(X, mul(Y, Z)))

        @obligation(f'C03.{g}.inverse', functions=F)
        def inverse(env):
            op = env.load(OPS); pp = env.load('pypose')
            X = group_elem(env, g, 'X')
            mul, inv = _fn(op, g, 'Mul').forward, _fn(op, g, 'Inv').forward
            I = raw(ltype(pp, g).identity())
            env.eq('right_inverse', mul(X, inv(X)), I)
            env.eq('left_inverse', mul(inv(X), X), I)
            env.eq('inv_involution', inv(inv(X)), X)
            env.safe('inv_defined', inv(X))

        @obligation(f'C03.{g}.identity', functions=F + [f'{LT}:{g}Type.identity', f'{LT}:{g}Type.identity_'])
        def identity(env):
            op = env.load(OPS); pp = env.load('pypose')
            X = group_elem(env, g, 'X')
            mul = _fn(op, g, 'Mul').forward
            I = raw(ltype(pp, g).identity())
            env.eq('left_neutral', mul(I, X), X)
            env.eq('right_neutral', mul(X, I), X)
            env.eq('identity_matrix', S.group_matrix4(env.T, g, I), S.eye(env.T, 4, X[0]))
            # identity_ (in place) produces the same element
            Z = lie(pp, g, X.clone())
            # identity_ is implemented for SO3 only on the pinned tree (the other types raise NotImplementedError, which is loud and allowed);
            # wherever it does return, the element left behind must be the identity of that type, in place
            try:
                R_ = Z.identity_()
                implemented = True
            except NotImplementedError:
                implemented = False
            env.holds('identity_ is implemented for SO3', implemented or g != 'SO3')
            if implemented:
                env.eq('identity_inplace', raw(Z), I)
                env.holds('identity_ returns the tensor it was called on', R_ is Z)
            I2 = raw(pp.identity_like(lie(pp, g, X)))
            env.eq('identity_like', I2, I)
            # every call hands out its own tensor: an in-place update of one identity does not leak into the next one
            Iconst = {'SO3': [0, 0, 0, 1], 'SE3': [0, 0, 0, 0, 0, 0, 1], 'RxSO3': [0, 0, 0, 1, 1], 'Sim3': [0, 0, 0, 0, 0, 0, 1, 1]}[g]
            Iexp = env.const(Iconst) if env.sym else env.const([float(v) for v in Iconst])          # written out: not an alias of any earlier result
            E1 = ltype(pp, g).identity()
            raw(E1).add_(raw(X))
            env.eq('a fresh identity is the identity whatever happened to earlier ones', raw(ltype(pp, g).identity()), Iexp)
            L1 = pp.identity_like(lie(pp, g, X)); raw(L1).add_(raw(X))
            env.eq('identity_like hands out a fresh identity too', raw(pp.identity_like(lie(pp, g, X))), Iexp)

        @obligation(f'C03.{g}.homomorphism', functions=F + [f'{OPS}:{g}_Matrix', f'{OPS}:{g}_Matrix4x4'])
        def homo(env):
            op = env.load(OPS)
            T = env.T
            X, Y = group_elem(env, g, 'X'), group_elem(env, g, 'Y')
            mul = _fn(op, g, 'Mul').forward
            env.eq('matrix_of_product', S.group_matrix(T, g, mul(X, Y)), S.group_matrix(T, g, X) @ S.group_matrix(T, g, Y))
            env.eq('Matrix_is_documented_rep', _fn(op, g, 'Matrix')(X), S.group_matrix(T, g, X))
            env.eq('Matrix4x4_is_documented_rep', _fn(op, g, 'Matrix4x4')(X), S.group_matrix4(T, g, X))

        @obligation(f'C03.{g}.act', functions=[f'{OPS}:{g}_Act.forward', f'{OPS}:{g}_Act4.forward', f'{OPS}:{g}_Mul.forward'])
        def act(env):
            op = env.load(OPS)
            T = env.T
            X, Y = group_elem(env, g, 'X'), group_elem(env, g, 'Y')
            p = env.vec('p', 3); p4 = env.vec('h', 4)
            M4 = S.group_matrix4(T, g, X)
            X0, Y0, p0, h0 = X.clone(), Y.clone(), p.clone(), p4.clone()
            act3, act4, mul = _fn(op, g, 'Act').forward, _fn(op, g, 'Act4').forward, _fn(op, g, 'Mul').forward
            one = p[0:1] * 0 + 1
            env.eq('act3_is_matrix_times_point', act3(X, p), (M4 @ T.cat([p, one], -1))[0:3])
            env.eq('act3_leaves_its_operands', T.cat([X, p], -1), T.cat([X0, p0], -1))
            env.eq('act4_is_matrix_times_homogeneous', act4(X, p4), M4 @ p4)
            # frame: the action reads its operands only (an element acts on many points; w != 1 here)
            env.eq('act4_leaves_its_operands', T.cat([X, p4], -1), T.cat([X0, h0], -1))
            d = T.cat([p, one * 0], -1)
            env.eq('act4_direction_w0', act4(X, d), M4 @ d)
            env.eq('act_of_product', act3(mul(X, Y), p), act3(X, act3(Y, p)))
            env.eq('act4_of_product', act4(mul(X, Y), p4), act4(X, act4(Y, p4)))
            env.eq('products_and_actions_leave_their_operands', T.cat([X, Y, p, p4], -1), T.cat([X0, Y0, p0, h0], -1))

        @obligation(f'C03.{g}.invariant', functions=F)
        def invariant(env):
            """representation invariant preserved by Mul / Inv (unit quaternion, positive scale):
            with this and the Exp contract (C01: Exp returns a valid element) every history of
            @, Inv, add_/Retr keeps the element valid (induction over the history)."""
            op = env.load(OPS)
            T = env.T
            X, Y = group_elem(env, g, 'X'), group_elem(env, g, 'Y')
            mul, inv = _fn(op, g, 'Mul').forward, _fn(op, g, 'Inv').forward
            _, q, s = S.parts(g, mul(X, Y))
            env.eq('product_unit_quaternion', (q * q).sum(-1), 1)
            _, qi, si = S.parts(g, inv(X))
            env.eq('inverse_unit_quaternion', (qi * qi).sum(-1), 1)
            if s is not None:
                env.holds('product_scale_positive', s > 0)
                env.holds('inverse_scale_positive', si > 0)

        @obligation(f'C03.{g}.norm_multiplicative', functions=[f'{OPS}:{g}_Mul.forward'])
        def normmul(env):
            """|q(XY)|^2 = |q(X)|^2 |q(Y)|^2 as a FREE polynomial identity (no unit assumption):
            the product neither creates nor hides norm drift."""
            op = env.load(OPS)
            n = S.DIM[g]
            X, Y = env.vec('X', n), env.vec('Y', n)
            mul = _fn(op, g, 'Mul').forward
            _, q, _ = S.parts(g, mul(X, Y)); _, qx, _ = S.parts(g, X); _, qy, _ = S.parts(g, Y)
            env.eq('norm_multiplicative', (q * q).sum(-1), (qx * qx).sum(-1) * (qy * qy).sum(-1))

        @obligation(f'C03.{g}.lietensor_api', functions=[f'{LT}:{g}Type.Mul', f'{LT}:{g}Type.Inv', f'{LT}:{g}Type.Act',
                                                         f'{LT}:LieType.matrix' if g != 'SO3' else f'{LT}:SO3Type.matrix',
                                                         f'{LT}:LieTensor.__matmul__', f'{LT}:{g}Type.rotation',
                                                         f'{OPS}:broadcast_inputs'])
        def api(env):
            """the public LieTensor methods (real lietensor.py glue, real __torch_function__) deliver
            what the Function-level contracts state, and matrix()/rotation()/translation()/scale()
            are the documented blocks"""
            op = env.load(OPS); pp = env.load('pypose')
            T = env.T
            Xd, Yd = group_elem(env, g, 'X'), group_elem(env, g, 'Y')
            p = env.vec('p', 3); p4 = env.vec('h', 4)
            X, Y = lie(pp, g, Xd), lie(pp, g, Yd)
            Z = X @ Y
            env.holds('matmul_returns_same_ltype', Z.ltype is ltype(pp, g))
            env.eq('matmul_is_Mul', raw(Z), _fn(op, g, 'Mul').forward(Xd, Yd))
            env.eq('mul_operator_is_Mul', raw(X * Y), raw(Z))
            env.eq('Inv_method', raw(X.Inv()), _fn(op, g, 'Inv').forward(Xd))
            env.eq('Act_method', X.Act(p), _fn(op, g, 'Act').forward(Xd, p))
            env.eq('Act4_method', X.Act(p4), _fn(op, g, 'Act4').forward(Xd, p4))
            env.eq('matmul_point_is_Act', X @ p, _fn(op, g, 'Act').forward(Xd, p))
            M = X.matrix()
            # LieType.matrix is documented "To 4x4 matrix" (SO3Type.matrix: "To 3x3 matrix")
            env.eq('matrix_method_is_documented_rep', M, S.group_matrix(T, g, Xd) if g == 'SO3' else S.group_matrix4(T, g, Xd))
            t, q, s = S.parts(g, Xd)
            R = X.rotation()
            env.holds('rotation_is_SO3', R.ltype is pp.SO3_type)
            env.eq('rotation_block', raw(R), q)
            n = 3
            if s is None:
                env.eq('matrix_rotation_block', M[0:3, 0:3], S.quat_matrix(T, q))
            else:
                env.eq('matrix_scaled_rotation_block', M[0:3, 0:3], s * S.quat_matrix(T, q))
                env.eq('scale_accessor', X.scale(), s.reshape(1) if hasattr(s, 'reshape') else s)
            if t is not None:
                env.eq('translation_accessor', X.translation(), t)
                env.eq('matrix_translation_block', M[0:3, 3], t)
    mk()


for g_ in GROUPS:
    def mk(g=g_):
        @obligation(f'C03.{g}.batch_of_three', functions=[f'{OPS}:{g}_Mul.forward', f'{OPS}:{g}_Inv.forward', f'{OPS}:{g}_Act.forward', f'{OPS}:{g}_Act4.forward',
                                                         f'{LT}:{g}Type.Mul', f'{LT}:{g}Type.Inv', f'{LT}:{g}Type.Act'], max_paths=8, timeout=300)
        def batch3(env):
            """a batch whose size equals the vector dimension (3): product, inverse and action treat the batch axis as a batch axis - item i of
            the batched call is the unbatched call on item i (lshape (3,), (3,1), and a single operand against a batch of three)"""
            op = env.load(OPS); pp = env.load('pypose'); T = env.T
            Xs = [group_elem(env, g, f'X{i}', qregimes=('generic',)) for i in range(3)]
            Ys = [group_elem(env, g, f'Y{i}', qregimes=('generic',)) for i in range(3)]
            Ps = [env.vec(f'p{i}', 3, regimes=('generic',)) for i in range(3)]
            Hs = [env.vec(f'h{i}', 4, regimes=('generic',)) for i in range(3)]
            one = lambda Z: lie(pp, g, Z)
            XB, YB, PB, HB = one(T.stack(Xs, 0)), one(T.stack(Ys, 0)), T.stack(Ps, 0), T.stack(Hs, 0)
            for nm, full, item in (('X @ Y', lambda: XB @ YB, lambda i: one(Xs[i]) @ one(Ys[i])),
                                   ('single X @ batch Y', lambda: one(Xs[0]) @ YB, lambda i: one(Xs[0]) @ one(Ys[i])),
                                   ('batch X @ single Y', lambda: XB @ one(Ys[0]), lambda i: one(Xs[i]) @ one(Ys[0])),
                                   ('Inv', lambda: XB.Inv(), lambda i: one(Xs[i]).Inv()),
                                   ('Act on 3-vectors', lambda: XB.Act(PB), lambda i: one(Xs[i]).Act(Ps[i])),
                                   ('single X on three 3-vectors', lambda: one(Xs[0]).Act(PB), lambda i: one(Xs[0]).Act(Ps[i])),
                                   ('Act on 4-vectors', lambda: XB.Act(HB), lambda i: one(Xs[i]).Act(Hs[i]))):
                out = raw(full())
                env.eq(f'{nm}: item i of the batched call is the unbatched call on item i', out, T.stack([raw(item(i)) for i in range(3)], 0))
            out = raw(one(T.stack(Xs, 0).unsqueeze(1)) @ one(T.stack(Ys, 0).unsqueeze(1)))
            env.eq('X @ Y with lshape (3, 1)', out.reshape(3, -1), T.stack([raw(one(Xs[i]) @ one(Ys[i])) for i in range(3)], 0))
    mk()


# ---- canary: a deliberately wrong spec must be refuted by the same pipeline
@obligation('C03.canary.wrong_order', functions=[f'{OPS}:SE3_Mul.forward'], canary=True)
def canary(env):
    op = env.load(OPS)
    T = env.T
    X, Y = group_elem(env, 'SE3', 'X'), group_elem(env, 'SE3', 'Y')
    env.eq('matrix_of_product_swapped', S.group_matrix(T, 'SE3', op.SE3_Mul.forward(X, Y)),
           S.group_matrix(T, 'SE3', Y) @ S.group_matrix(T, 'SE3', X))


@bounded('C03.roundoff_drift', functions=[f'{LT}:LieTensor.__matmul__', f'{LT}:LieTensor.Inv', f'{LT}:LieTensor.add_', f'{LT}:LieTensor.Retr'])
def drift(rng, tier):
    """real code: one element under a random history of n mixed @, Inv, add_/Retr updates stays a valid group element up to
    accumulated round-off: | |q| - 1 | <= 4 n eps, scale > 0 and finite; float32 and float64, all four groups"""
    import torch, pypose as pp
    n_ops = 2000 if tier == 'quick' else 10000
    fails = []; evals = 0; samples = []
    torch.manual_seed(rng.randrange(1 << 30))
    for g in GROUPS:
        for dtype in (torch.float64, torch.float32):
            eps = torch.finfo(dtype).eps
            randn = getattr(pp, 'randn_' + g); randa = getattr(pp, 'randn_' + S.ALG[g])
            X = randn(dtype=dtype); worst = 0.0
            Ys = randn(64, sigma=0.3, dtype=dtype); As = randa(64, sigma=0.1, dtype=dtype)
            ls = None
            if g in ('RxSO3', 'Sim3'):
                ls = float(S.parts(g, X.tensor())[2].double().log())
                idt = getattr(pp, 'identity_' + g)(dtype=dtype).tensor()
                up, dn = idt.clone(), idt.clone(); up[-1] = 2.0; dn[-1] = 0.5
                Zup, Zdown = pp.LieTensor(up, ltype=getattr(pp, g + '_type')), pp.LieTensor(dn, ltype=getattr(pp, g + '_type'))
            for i in range(n_ops):
                op = rng.randrange(4)
                if ls is not None and abs(ls) > 6.0:
                    # keep the exact scale inside the property's range [e^-8, e^8]: the history continues with a product that
                    # scales back (a legitimate @ update); without it the random walk of log-scale leaves the float32 range,
                    # which is exhaustion of the number format, not accumulated round-off
                    X = X @ (Zdown if ls > 0 else Zup); ls = float(S.parts(g, X.tensor())[2].double().log()); evals += 1
                    continue
                if op == 0: X = X @ Ys[i % 64]
                elif op == 1: X = X.Inv()
                elif op == 2: X = X.Retr(As[i % 64])
                else: X.add_(As[(i * 7) % 64])
                evals += 1
                if ls is not None: ls = float(S.parts(g, X.tensor())[2].double().log())
                if i % 50 == 49 or i == n_ops - 1:
                    t, q, s = S.parts(g, X.tensor())
                    dq = abs(float(q.double().norm()) - 1.0)
                    worst = max(worst, dq / ((i + 1) * eps))
                    ok = dq <= 4 * (i + 1) * eps and bool(torch.isfinite(X.tensor()).all()) and (s is None or float(s) > 0)
                    if not ok:
                        fails.append(dict(clause='valid_after_history', signature=f'{g}/{str(dtype).split(".")[-1]}', step=i + 1, unit_err=dq, bound=4 * (i + 1) * eps)); break
            samples.append(dict(group=g, dtype=str(dtype), worst_unit_error_over_n_eps=worst))
    return dict(evaluations=evals, distinct_nontrivial=evals, rule='random operation histories; each operation is one evaluation; validity checked every 50 operations',
                bound=f'{n_ops} operations per (group, dtype)', failures=fails[:8], samples=samples[:4])


@bounded('C03.copied_operands', functions=[f'{LT}:SO3Type.Mul', f'{LT}:SE3Type.Mul', f'{LT}:Sim3Type.Mul', f'{LT}:RxSO3Type.Mul'])
def copied_operands(rng, tier):
    """real code: group elements that went through copy.deepcopy / pickle / torch.save+load (their .ltype is then a fresh object of the type's class,
    not the module-level one) are group elements all the same: products with them, inverses and the identity law hold"""
    import torch, pypose as pp, copy, pickle, io
    d = torch.float64
    fails = []; evals = 0
    def via_save(z):
        buf = io.BytesIO(); torch.save(z, buf); buf.seek(0)
        return torch.load(buf, weights_only=False)
    for gname in ('SO3', 'SE3', 'RxSO3', 'Sim3'):
        X = getattr(pp, 'randn_' + gname)(2, dtype=d); Y = getattr(pp, 'randn_' + gname)(2, dtype=d)
        want = (X @ Y).tensor(); E = getattr(pp, 'identity_' + gname)(2, dtype=d)
        for how, cp in (('deepcopy', copy.deepcopy), ('pickle', lambda z: pickle.loads(pickle.dumps(z))), ('torch.save/load', via_save)):
            try:
                Yc = cp(Y)
                checks = (('X @ Yc', (X @ Yc).tensor(), want), ('Yc @ X', (Yc @ X).tensor(), (Y @ X).tensor()),
                          ('Yc @ Yc.Inv()', (Yc @ Yc.Inv()).tensor(), (Y @ Y.Inv()).tensor()), ('E @ Yc', (E @ Yc).tensor(), Y.tensor()))
                for nm, got, ref in checks:
                    evals += 1
                    if got.shape != ref.shape or not torch.allclose(got, ref, atol=1e-12):
                        fails.append(dict(clause='product_with_a_copied_element', signature=f'{gname}/{how}/{nm}'))
            except Exception as e:
                fails.append(dict(clause='product_with_a_copied_element_raises', signature=f'{gname}/{how}', error=f'{type(e).__name__}: {e}'[:120]))
    return dict(evaluations=evals, distinct_nontrivial=evals, rule='4 group types x 3 ways of copying x 4 products', bound='batch of 2, float64', failures=fails[:8], samples=[])


# retractions (Retr / add_ / a.Exp() @ X) hand their increment to Exp: "results of retractions remain valid group elements (unit quaternion,
# positive scale) to round-off" rests on Exp being accurate to round-off in BOTH dtypes over the property's range of log-scales (a scale
# computed as 1 + expm1(sigma) is exact in real arithmetic and loses all its digits for sigma << 0): the float stand-in of c01_exp.py is
# run in this check too.
from contracts import c01_exp as _c01
def _exp_float_valid(rng, tier):
    """the rotation / scale block of Exp in float32 and float64 against 50-digit arithmetic (the clause of C01.float_accuracy that decides whether
    the result of a retraction is a valid group element; the translation-block clause belongs to C01 alone)"""
    r = dict(_c01.float_accuracy(rng, tier))
    r['failures'] = [f for f in r.get('failures', []) if f.get('clause') == 'rotation_scale_block']
    return r
bounded('C03.callee.Exp.float', functions=[f'{OPS}:so3_Exp.forward', f'{OPS}:se3_Exp.forward', f'{OPS}:rxso3_Exp.forward', f'{OPS}:sim3_Exp.forward'])(_exp_float_valid)
