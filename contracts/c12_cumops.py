"""C12 - cumulative products equal the sequential left/right fold for every length.

(1) deductive, per L (all inputs, all ops): the real cumops_ / cumops / cummul(_) / cumprod(_) are traced
    symbolically for L = 1..9 with group elements (SO3 / SE3, entries symbolic): result = sequential fold,
    a polynomial identity modulo unit norm; out-of-place variants leave the input untouched, in-place
    return the same object holding the result.
(2) free-monoid run on the real code with real torch, for EVERY L up to the tier bound: elements are adjacent
    index intervals (lo, hi) stored as int64 pairs; `ops` checks adjacency and order; result [0, i] at i
    implies (L-free-monoid) correctness for all inputs and all associative operations for that L, because
    the index schedule depends on L only.  Labelled exhaustive-in-L, not counted as discharged.
"""
from fractions import Fraction as Q
from pvc.registry import obligation, bounded, property_meta
from contracts.common import *

property_meta('C12', level='proof', min_obligations=20,
              trusted_base=['L-free-monoid: a scan over the free monoid of adjacent intervals that yields [0,i] at position i using only adjacent order-preserving merges equals the ordered fold for every associative operation',
                            'torch.index_select / index_copy_ / arange semantics (storch model; real torch in the free-monoid run)'],
              assumptions=['deductive part is per L (L <= 9); all larger L are covered by the labelled free-monoid enumeration up to the tier bound'],
              explanation='symbolic trace of the real doubling scan per L + exhaustive free-monoid schedule check over L')

BOPS = 'pypose.basics.ops'


def seq_fold(op, g, items, left):
    mul = getattr(op, g + '_Mul').forward
    out = [items[0]]
    for x in items[1:]:
        out.append(mul(x, out[-1]) if left else mul(out[-1], x))
    return out


for L in range(1, 10):
    def mk(L=L):
        g = 'SO3' if L > 5 else 'SE3'
        @obligation(f'C12.cumprod.L{L}', functions=[f'{BOPS}:cumops_', f'{BOPS}:cumprod', f'{BOPS}:cumprod_', f'{BOPS}:cumops',
                                                    f'{LT}:LieTensor.cumprod', f'{LT}:LieType.cumprod', f'{LT}:LieTensor.cumprod_'], max_paths=4, timeout=300,
                    thorough_only=(L == 9))          # L = 9 alone costs 80 s: thorough tier
        def ob(env):
            op = env.load(OPS); pp = env.load('pypose'); T = env.T
            items = [group_elem(env, g, f'X{i}') for i in range(L)]
            data = T.stack(items, 0)
            X = lie(pp, g, data)
            for left in (True, False):
                ref = T.stack(seq_fold(op, g, items, left), 0)
                before = data.clone()
                Y = X.cumprod(dim=0, left=left)
                tag = 'left' if left else 'right'
                env.eq(f'{tag}: cumprod is the ordered fold at every position', raw(Y), ref)
                env.eq(f'{tag}: out-of-place variant leaves the input untouched', raw(X), before)
                env.holds(f'{tag}: result keeps the ltype', Y.ltype is ltype(pp, g))
                raw(Y).mul_(0)                      # the caller goes on to update the result in place ...
                env.eq(f'{tag}: ... which must not reach the input (the out-of-place result owns its storage)', raw(X), before)
                Z = lie(pp, g, data.clone())
                R_ = Z.cumprod_(dim=0, left=left)
                env.holds(f'{tag}: in-place variant returns the same object', R_ is Z)
                env.eq(f'{tag}: in-place variant overwrites with the same result', raw(Z), ref)
    mk()


@obligation('C12.cummul_cumops.L5', functions=[f'{BOPS}:cummul', f'{BOPS}:cummul_', f'{BOPS}:cumops', f'{BOPS}:cumops_'], max_paths=4)
def cummul(env):
    """plain tensors: cummul with * (commutative) and cumops with a non-commutative matrix product"""
    ops = env.load(BOPS); T = env.T
    L = 5
    v = env.vec('v', L)
    ref = [v[0]]
    for i in range(1, L): ref.append(ref[-1] * v[i])
    for left in (True, False):
        env.eq(f'cummul left={left}', ops.cummul(v, 0, left), T.stack(ref, 0))
    M = T.stack([T.stack([env.vec(f'm{i}a', 2), env.vec(f'm{i}b', 2)], 0) for i in range(L)], 0)     # (L,2,2)
    before = M.clone()
    out = ops.cumops(M, 0, lambda a, b: a @ b)
    acc = [M[0]]
    for i in range(1, L): acc.append(acc[-1] @ M[i])
    env.eq('cumops with a non-commutative product is the ordered fold x_1 o ... o x_i', out, T.stack(acc, 0))
    env.eq('cumops leaves the input untouched', M, before)
    # cumprod on plain matrices is the MATRIX product (@), in the stated order, for the out-of-place and the in-place spelling
    accl = [M[0]]
    for i in range(1, L): accl.append(M[i] @ accl[-1])
    for nm, f in (('cumprod', lambda X, left: ops.cumprod(X, 0, left)), ('cumprod_', lambda X, left: ops.cumprod_(X, 0, left))):
        env.eq(f'{nm}(left=False) on plain matrices is x_1 @ ... @ x_i', f(M.clone(), False), T.stack(acc, 0))
        env.eq(f'{nm}(left=True) on plain matrices is x_i @ ... @ x_1', f(M.clone(), True), T.stack(accl, 0))
    env.eq('cumprod leaves the input untouched', M, before)
    # other dimension
    Mt = M.transpose(0, 1).clone()                                                                      # (2,L,2)
    out2 = ops.cumops(Mt, 1, lambda a, b: a * b)
    acc2 = [Mt[:, 0]]
    for i in range(1, L): acc2.append(acc2[-1] * Mt[:, i])
    env.eq('cumops along dim 1', out2, T.stack(acc2, 1))


for g_ in ('SE3', 'RxSO3'):
    def mk(g=g_):
        @obligation(f'C12.api_layer.{g}.L3', functions=[f'{LT}:LieTensor.cumops', f'{LT}:LieTensor.cummul', f'{LT}:LieTensor.cumprod', f'{LT}:LieTensor.cumops_',
                                                        f'{LT}:LieTensor.cummul_', f'{LT}:LieTensor.cumprod_', f'{LT}:LieType.cumops', f'{LT}:LieType.cummul',
                                                        f'{LT}:LieType.cumprod', f'{LT}:LieType.cumops_', f'{LT}:LieType.cummul_', f'{LT}:LieType.cumprod_',
                                                        f'{BOPS}:cummul', f'{BOPS}:cummul_', f'{BOPS}:cumprod', f'{BOPS}:cumprod_', f'{BOPS}:cumops', f'{BOPS}:cumops_'],
                    max_paths=4, timeout=300)
        def api(env):
            """every spelling of the six operations (method of the LieTensor, classmethod of its type, function of pypose) is the ordered
            fold; the out-of-place spellings leave their input untouched, the in-place ones overwrite it and return it"""
            op = env.load(OPS); pp = env.load('pypose'); T = env.T
            L = 3
            items = [group_elem(env, g, f'X{i}') for i in range(L)]
            data = T.stack(items, 0)
            mulop = lambda a, b: a @ b          # cumops: position i holds x_1 o ... o x_i
            for left in (True, False):
                ref = T.stack(seq_fold(op, g, items, left), 0)
                tag = 'left' if left else 'right'
                spell = {
                    'x.cumprod': lambda X: X.cumprod(0, left), 'x.cummul': lambda X: X.cummul(0, left),
                    'type.cumprod': lambda X: X.ltype.cumprod(X, 0, left), 'type.cummul': lambda X: X.ltype.cummul(X, 0, left),
                    'pp.cumprod': lambda X: pp.cumprod(X, 0, left), 'pp.cummul': lambda X: pp.cummul(X, 0, left),
                }
                spell_ = {
                    'x.cumprod_': lambda X: X.cumprod_(0, left), 'x.cummul_': lambda X: X.cummul_(0, left),
                    'type.cumprod_': lambda X: X.ltype.cumprod_(X, 0, left), 'type.cummul_': lambda X: X.ltype.cummul_(X, 0, left),
                    'pp.cumprod_': lambda X: pp.cumprod_(X, 0, left), 'pp.cummul_': lambda X: pp.cummul_(X, 0, left),
                }
                if not left:
                    spell.update({'x.cumops': lambda X: X.cumops(0, mulop), 'type.cumops': lambda X: X.ltype.cumops(X, 0, mulop), 'pp.cumops': lambda X: pp.cumops(X, 0, mulop)})
                    spell_.update({'x.cumops_': lambda X: X.cumops_(0, mulop), 'type.cumops_': lambda X: X.ltype.cumops_(X, 0, mulop), 'pp.cumops_': lambda X: pp.cumops_(X, 0, mulop)})
                for nm, f in spell.items():
                    X = lie(pp, g, data.clone())
                    Y = f(X)
                    env.eq(f'{tag} {nm}: ordered fold at every position', raw(Y), ref)
                    env.eq(f'{tag} {nm}: input untouched', raw(X), data)
                    X1 = lie(pp, g, data[0:1].clone()); Y1 = f(X1)          # a scan of length 1
                    env.eq(f'{tag} {nm}: length 1 returns the item', raw(Y1), data[0:1])
                    raw(Y1).mul_(0)
                    env.eq(f'{tag} {nm}: length 1 result owns its storage', raw(X1), data[0:1])
                for nm, f in spell_.items():
                    X = lie(pp, g, data.clone())
                    Y = f(X)
                    env.eq(f'{tag} {nm}: input overwritten with the ordered fold', raw(X), ref)
                    env.eq(f'{tag} {nm}: returns the result', raw(Y), ref)
                    # the same on a tensor that takes part in an autograd graph (a non-leaf that requires grad): in place means in place
                    if env.sym:
                        Xg = lie(pp, g, data.clone()); Xg.requires_grad = True
                    else:
                        Xg = lie(pp, g, data.clone().requires_grad_(True) * 1)
                    Yg = f(Xg)
                    env.eq(f'{tag} {nm}: a tensor that requires grad is overwritten too', raw(Xg).detach() if not env.sym else raw(Xg), ref)
                # memory layout: the operand is a transposed (non-contiguous) view of a (2, L) batch - two sequences, the second one reversed.
                # Same fold, same type; in place means the VIEW (and so its base) is overwritten
                rev = items[::-1]
                ref2 = T.stack([T.stack(seq_fold(op, g, items, left), 0), T.stack(seq_fold(op, g, rev, left), 0)], 1)        # (L, 2, D)
                base = T.stack([T.stack(items, 0), T.stack(rev, 0)], 0)                                                       # (2, L, D)
                for nm in ('x.cumprod', 'x.cummul', 'pp.cumprod') + (() if left else ('pp.cumops',)):
                    Bc = base.clone(); V = lie(pp, g, Bc).transpose(0, 1)
                    Y = spell[nm](V)
                    env.holds(f'{tag} {nm}: non-contiguous view: result keeps the ltype', getattr(Y, 'ltype', None) is ltype(pp, g))
                    env.eq(f'{tag} {nm}: non-contiguous view: ordered fold at every position', raw(Y), ref2)
                    env.eq(f'{tag} {nm}: non-contiguous view: input untouched', Bc, base)
                for nm in ('x.cumprod_', 'x.cummul_', 'pp.cumprod_') + (() if left else ('pp.cumops_',)):
                    Bc = base.clone(); V = lie(pp, g, Bc).transpose(0, 1)
                    Y = spell_[nm](V)
                    env.eq(f'{tag} {nm}: non-contiguous view: the view is overwritten with the ordered fold', raw(V), ref2)
                    env.eq(f'{tag} {nm}: non-contiguous view: so is the storage it views', Bc, ref2.transpose(0, 1))
                    env.eq(f'{tag} {nm}: non-contiguous view: returns the result', raw(Y), ref2)
    mk()


@obligation('C12.dims.SO3.2x3', functions=[f'{BOPS}:cumops_', f'{BOPS}:cumops', f'{BOPS}:cumprod', f'{BOPS}:cumprod_', f'{LT}:LieTensor.cumprod', f'{LT}:LieTensor.cumprod_'],
            max_paths=4, timeout=300)
def dims(env):
    """every dimension of a LieTensor with two batch axes of different sizes (lshape 2x3), addressed by its non-negative and by its negative
    index (dims index the underlying tensor: -2 is the last batch axis, -3 the first): the fold runs along that axis, over its full length"""
    op = env.load(OPS); pp = env.load('pypose'); T = env.T
    g = 'SO3'
    items = [[group_elem(env, g, f'X{i}{j}') for j in range(3)] for i in range(2)]
    data = T.stack([T.stack(r, 0) for r in items], 0)                      # (2, 3, 4)
    for left in (True, False):
        tag = 'left' if left else 'right'
        ref1 = T.stack([T.stack(seq_fold(op, g, items[i], left), 0) for i in range(2)], 0)                                  # along the axis of length 3
        cols = [seq_fold(op, g, [items[0][j], items[1][j]], left) for j in range(3)]
        ref0 = T.stack([T.stack([cols[j][i] for j in range(3)], 0) for i in range(2)], 0)                                   # along the axis of length 2
        for dim, ref in ((1, ref1), (-2, ref1), (0, ref0), (-3, ref0)):
            X = lie(pp, g, data.clone())
            env.eq(f'{tag} cumprod(dim={dim}): ordered fold along that axis', raw(X.cumprod(dim, left)), ref)
            env.eq(f'{tag} cumprod(dim={dim}): input untouched', raw(X), data)
            Z = lie(pp, g, data.clone()); Z.cumprod_(dim, left)
            env.eq(f'{tag} cumprod_(dim={dim}): input overwritten with the ordered fold', raw(Z), ref)
    M = data[..., 0:2]                                                       # a plain tensor, last axis scanned too
    acc = [M[..., 0], M[..., 0] * M[..., 1]]
    env.eq('plain tensor, dim=-1: cummul along the last axis', env.load(BOPS).cummul(M, -1), T.stack(acc, -1))


@bounded('C12.free_monoid_schedule', functions=[f'{BOPS}:cumops_', f'{BOPS}:cumops'])
def free_monoid(rng, tier):
    """real code, real torch: every L in 1..N, dims of rank <= 3, left and right"""
    import torch, pypose as pp
    from pypose.basics.ops import cumops, cumops_
    N = 512 if tier == 'quick' else 4096
    fails = []; evals = 0; samples = []
    near_pow2 = sorted({L for k in range(9, 13) for L in (2 ** k - 1, 2 ** k, 2 ** k + 1, 2 ** k + 2, 2 ** k + 3) if N < L <= 4100}) if tier == 'quick' else []
    for L in list(range(1, N + 1)) + near_pow2:
        for (shape, dim) in (((L,), 0), ((2, L), 1), ((L, 2), 0)) if L <= 64 or L % 7 == 0 else (((L,), 0),):
            base = torch.arange(L, dtype=torch.int64)
            lo = base.clone(); hi = base.clone()
            view = [1] * len(shape); view[dim] = L
            x = torch.stack([lo.view(view).expand(shape), hi.view(view).expand(shape)], -1).clone()   # (..., 2)
            bad = [False]
            for order in ('right', 'left'):
                def ops_(a, b, order=order):
                    # a: earlier block [lo_a, hi_a], b: later block [lo_b, hi_b] -> must be adjacent: hi_a + 1 == lo_b
                    if not bool((a[..., 1] + 1 == b[..., 0]).all()): bad[0] = True
                    return torch.stack([a[..., 0], b[..., 1]], -1)
                try:
                    y = cumops(x, dim, ops_)
                except Exception as e:
                    fails.append(dict(clause='raises', signature=f'L={L}', L=L, shape=list(shape), dim=dim, error=f'{type(e).__name__}: {e}'[:200])); break
                evals += 1
                exp_lo = torch.zeros(L, dtype=torch.int64).view(view).expand(shape)
                exp_hi = base.view(view).expand(shape)
                ok = (not bad[0]) and bool((y[..., 0] == exp_lo).all()) and bool((y[..., 1] == exp_hi).all()) and bool((x[..., 0] == lo.view(view).expand(shape)).all())
                if not ok:
                    fails.append(dict(clause='fold', signature=f'L={L}', L=L, shape=list(shape), dim=dim, order=order))
                    break
        if L in (1, 3, 7, 100): samples.append(dict(L=L, result_last=[0, L - 1]))
        if len(fails) > 5: break
    # the schedule depends on L only - not on how much data rides along: large batches (well beyond 2^16 elements in total) of lengths that
    # are / are not powers of two, batch axis before and after the scan axis
    for (shape, dim) in (((300, 128), 1), ((130, 300), 0), ((24, 1000), 1), ((513, 257), 0)):
        L = shape[dim]
        base = torch.arange(L, dtype=torch.int64); view = [1, 1]; view[dim] = L
        x = torch.stack([base.view(view).expand(shape), base.view(view).expand(shape)], -1).clone()
        bad = [False]
        def ops_b(a, b):
            if not bool((a[..., 1] + 1 == b[..., 0]).all()): bad[0] = True
            return torch.stack([a[..., 0], b[..., 1]], -1)
        try:
            y = cumops(x, dim, ops_b); evals += 1
            ok = (not bad[0]) and bool((y[..., 0] == 0).all()) and bool((y[..., 1] == base.view(view).expand(shape)).all())
            z = x.clone(); r_ = cumops_(z, dim, ops_b)
            ok = ok and bool((z == y).all()) and r_ is z
            if not ok: fails.append(dict(clause='fold', signature=f'large batch {list(shape)} dim {dim}', L=L, elements=int(x.numel())))
        except Exception as e:
            fails.append(dict(clause='raises', signature=f'large batch {list(shape)}', error=f'{type(e).__name__}: {e}'[:200]))
    return dict(evaluations=evals, distinct_nontrivial=min(N, evals), rule='one run per (L, shape, dim); non-trivial: L >= 2; distinct L counted',
                bound=f'L in 1..{N} (every value), rank <= 2 placements of the scan dim', failures=fails, samples=samples, exhaustive=True)


@obligation('C12.canary.wrong_order', functions=[f'{BOPS}:cumprod'], canary=True, max_paths=4)
def canary(env):
    op = env.load(OPS); pp = env.load('pypose'); T = env.T
    items = [group_elem(env, 'SE3', f'X{i}') for i in range(3)]
    X = lie(pp, 'SE3', T.stack(items, 0))
    env.eq('left fold claimed for right', raw(X.cumprod(0, left=True)), T.stack(seq_fold(op, 'SE3', items, False), 0))


@bounded('C12.stride_schedule', functions=[f'{BOPS}:cumops_'])
def schedule(rng, tier):
    """the stride iterable of the real cumops_ (the `for i in <expr>` header, extracted mechanically from the current source and
    evaluated with real torch / math) is exactly 1, 2, 4, ..., 2^(n-1) with 2^n >= L and 2^(n-1) < L, for every L up to the bound"""
    import ast, os, math, torch
    repo = os.environ.get('PYPOSE_REPO', '/repo')
    src = open(os.path.join(repo, 'pypose/basics/ops.py')).read()
    fn = [n for n in ast.walk(ast.parse(src)) if isinstance(n, ast.FunctionDef) and n.name == 'cumops_'][0]
    loops = [n for n in fn.body if isinstance(n, ast.For)]
    if len(loops) != 1:
        # the scan is no longer one top-level for loop: this mechanical extraction does not apply (the free-monoid run still decides every L)
        return dict(evaluations=0, distinct_nontrivial=0, rule='', failures=[], samples=[], inconclusive='cumops_ no longer has exactly one top-level for loop; stride extraction not applicable')
    pre = [st_ for st_ in fn.body if st_.lineno < loops[0].lineno and not (isinstance(st_, ast.Expr) and isinstance(st_.value, ast.Constant))]
    pre_code = compile(ast.Module(body=pre, type_ignores=[]), 'cumops_-prologue', 'exec')
    code = compile(ast.Expression(loops[0].iter), 'cumops_-strides', 'eval')
    N = 2 ** 13 if tier == 'quick' else 2 ** 17
    fails = []; evals = 0
    class V:                        # stand-in for the tensor: only .shape / .device are read by the prologue and the stride expression
        device = torch.device('cpu')
        def __init__(self, L): self.shape = (L,)
    for L in range(1, N + 1):
        env_ = {'math': math, 'torch': torch, 'input': torch.zeros(L, 1), 'dim': 0, 'ops': None}     # a real tensor: the prologue may call any tensor method
        try:
            exec(pre_code, env_)                      # L, v = input.shape[dim], input ; ... whatever precedes the loop
            strides = [int(x) for x in eval(code, env_)]
        except (NameError, AttributeError, TypeError) as e:
            return dict(evaluations=evals, distinct_nontrivial=evals, rule='', failures=[], samples=[],
                        inconclusive=f'stride expression could not be evaluated outside the function ({type(e).__name__}: {e}); extraction not applicable')
        except Exception as e:
            fails.append(dict(clause='stride_schedule', signature=f'L={L}', error=f'{type(e).__name__}: {e}'[:120])); break
        evals += 1
        n = 0
        while 2 ** n < L: n += 1
        if strides != [2 ** j for j in range(n)]:
            fails.append(dict(clause='stride_schedule', signature=f'L={L}', strides=strides[-3:], expected_passes=n))
            if len(fails) > 3: break
    return dict(evaluations=evals, distinct_nontrivial=evals, rule='every length L in 1..N; the expression is re-extracted from the source on every run',
                bound=f'L <= {N}', failures=fails[:4], samples=[dict(L=5, strides=[1, 2, 4])], exhaustive=True)
