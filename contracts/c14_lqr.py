"""C14 - LQR returns the feasible global minimiser of the LQ problem; MPC agrees with it.

Whole solve, bounded horizon (T = 2, 3; symbolic data, n = m = 1, time-varying A_t): the returned
trajectory starts at x_init, satisfies x_{t+1} = A_t x_t + B u_t + c1 at the TRUE times t = 0..T-1, the reported
cost is the sum of stage costs, and d cost / d u = 0 at the returned inputs (exact differentiation; with
Q > 0 the cost is strictly convex in u, so this is the global minimiser), for an arbitrary nominal u_traj and
an arbitrary (stale) system time: the time counter is ghost state poisoned with a symbolic value.
One backward step for an ARBITRARY tail value function (V, v) (loop cut, unbounded horizon by L-bellman):
the computed K, k, V', v' satisfy the completion-of-squares identity.
"""
from fractions import Fraction as Q
from pvc.registry import obligation, bounded, property_meta
from pvc import loopcut
from contracts.common import *

property_meta('C14', level='proof', min_obligations=10,
              trusted_base=['L-bellman: completion of squares at every step + backward induction => optimal feedback for every horizon (dynamic programming)',
                            'strict convexity of the LQ cost in the input sequence for Q_t > 0 (so a stationary point is the global minimiser)',
                            'assumed contracts torch.linalg.cholesky / cholesky_solve'],
              assumptions=['whole-solve obligations are for horizons 2 and 3 with state/input dimension 1 (symbolic values); larger horizons/dimensions: Bellman-step lemma + bounded stand-in vs a dense KKT solve'],
              explanation='exact symbolic LQ solve of the real code vs stationarity of the true cost; Bellman step for arbitrary tails')

LQRM = 'pypose.module.lqr'
DYN = 'pypose.module.dynamics'


def install_chol(env):
    if not env.sym: return
    from pvc import storch as st
    T = env.T
    def chol(M, **k):
        n = M.shape[-1]
        if n == 1: return T.sqrt(M)
        a, b_, c = M[..., 0, 0], M[..., 1, 0], M[..., 1, 1]
        l00 = T.sqrt(a); l10 = b_ / l00; l11 = T.sqrt(c - l10 * l10)
        return T.stack([T.stack([l00, l00 * 0], -1), T.stack([l10, l11], -1)], -2)
    st.set_external('linalg.cholesky', chol)


def make_ltv(env):
    """x' = (a0 + t a1) x + b u + c   (time-varying, symbolic)"""
    dyn = env.load(DYN); T = env.T
    a0, a1, b, c = (env.scalar(n, regimes=('generic',))[0] for n in ('a0', 'a1', 'b', 'c'))
    class Sys(dyn.LTV):
        @property
        def A(self): return (a0 + self.systime * a1).reshape(1, 1, 1)
        @property
        def B(self): return b.reshape(1, 1, 1)
        @property
        def c1(self): return c.reshape(1, 1)
        @property
        def C(self): return b.reshape(1, 1, 1) * 0 + 1
        @property
        def D(self): return b.reshape(1, 1, 1) * 0
        @property
        def c2(self): return None
    return Sys(), (a0, a1, b, c)


def true_rollout(T_, sysm, x0, us):
    a0, a1, b, c = sysm
    xs = [x0]
    for t, u in enumerate(us):
        xs.append((a0 + t * a1) * xs[-1] + b * u + c)
    return xs


for H in (2, 3):
    def mk(H=H):
        @obligation(f'C14.LQR.solve.T{H}', functions=[f'{LQRM}:LQR.forward', f'{LQRM}:LQR.lqr_backward', f'{LQRM}:LQR.lqr_forward', f'{LQRM}:LQR.__init__',
                                                      f'{DYN}:runsys', f'{DYN}:toBTN'], timeout=400, tol=1e-6)
        def solve(env):
            lq = env.load(LQRM); T = env.T
            install_chol(env)
            system, sysm = make_ltv(env)
            # Q = L L^T > 0 (2x2 over (x,u)), p symbolic
            l00 = env.scalar('q_l00', positive=True, regimes=('generic',))[0]; l11 = env.scalar('q_l11', positive=True, regimes=('generic',))[0]
            l10 = env.scalar('q_l10', regimes=('generic',))[0]
            L = T.stack([T.stack([l00, l00 * 0]), T.stack([l10, l11])])
            Qm = (L @ L.transpose(-1, -2)).reshape(1, 2, 2)
            p = env.vec('p', 2).reshape(1, 2)
            x0 = env.vec('x_init', 1).reshape(1, 1)
            u_nom = env.vec('u_nom', H).reshape(1, H, 1)
            stale = env.scalar('stale_time', nonneg=True, integer=True, regimes=('generic', 'zero'))[0]
            system.systime = stale if env.sym else int(stale)         # poisoned time counter
            solver = lq.LQR(system, Qm, p, H)
            def check(tag, x0, x, u, cost):
                us = [u[0, t, 0] for t in range(H)]
                xs = true_rollout(T, sysm, x0[0, 0], us)
                env.eq(tag + 'trajectory starts at x_init', x[0, 0, 0], x0[0, 0])
                for t in range(H):
                    env.eq(tag + f'x[{t + 1}] satisfies the transition at the true time {t}', x[0, t + 1, 0], xs[t + 1])
                def stage(xt, ut):
                    tau = T.stack([xt, ut]).reshape(2)
                    return (tau @ Qm[0] @ tau) / 2 + (p[0] * tau).sum()
                env.eq(tag + 'reported cost is the sum of 1/2 tau^T Q tau + p^T tau', cost[0], sum(stage(xs[t], us[t]) for t in range(H)))
                # stationarity of the true cost in the input sequence, at the returned inputs
                if env.sym:
                    from pvc import algebra as A, storch as st, atoms as AT
                    uv = [A.CTX.sym(f'_u{t}', aux=True) for t in range(H)]
                    uvt = [st.tensor(v) for v in uv]
                    xv = true_rollout(T, sysm, x0[0, 0], uvt)
                    J = sum(stage(xv[t], uvt[t]) for t in range(H))
                    Jf = J._a.reshape(-1)[0]
                    sub = {list(v.num.vars())[0]: us[t]._a.reshape(-1)[0] for t, v in enumerate(uv)}
                    for t, v in enumerate(uv):
                        g = A.Frac(Jf.num.pdiff(list(v.num.vars())[0]), Jf.den).subs(sub)
                        env.eq(tag + f'd cost / d u[{t}] = 0 at the returned inputs (global minimiser, Q > 0)', st.tensor(g), 0)
                else:
                    uu = T.stack(us).detach().clone().requires_grad_(True)
                    sy = tuple(s_.detach() for s_ in sysm)
                    xv = true_rollout(T, sy, x0[0, 0], [uu[t] for t in range(H)])
                    J = sum(stage(xv[t], uu[t]) for t in range(H))
                    g, = T.autograd.grad(J, uu)
                    for t in range(H):
                        env.eq(tag + f'd cost / d u[{t}] = 0 at the returned inputs (global minimiser, Q > 0)', g[t], 0.0)
            x, u, cost = solver(x0, 1, u_nom)
            check('', x0, x, u, cost)
            # a second solve on the same LQR object: another start state, and the SAME nominal-input tensor rewritten in place
            # (a persistent warm-start buffer) - the result must not depend on the earlier call
            x0b = env.vec('x_init_b', 1).reshape(1, 1)
            u_nom.copy_(env.vec('u_nom_b', H).reshape(1, H, 1))
            xb, ub, costb = solver(x0b, 1, u_nom)
            check('second solve, nominal inputs rewritten in place: ', x0b, xb, ub, costb)
            # the two halves called separately (the functional form): whatever the system clock shows between them, the roll-out of
            # lqr_forward starts at the beginning of the horizon
            x0c = env.vec('x_init_c', 1).reshape(1, 1)
            Kc, kc = solver.lqr_backward(x0c, 1, u_nom)
            system.systime = (stale + 1) if env.sym else int(stale) + 1
            xc, uc, costc = solver.lqr_forward(x0c, Kc, kc)
            check('lqr_backward, clock moved, lqr_forward: ', x0c, xc, uc, costc)
            env.safe('defined', x, u, cost)
    mk()


@obligation('C14.LQR.cost_expansion', functions=[f'{LQRM}:LQR.__init__'], max_paths=4)
def cost_expansion(env):
    """a time-invariant cost given in compact form (Q: B x n x n, p: B x n) is the SAME stage cost at every step, for every batch entry:
    the expanded cost of entry b at time t is (Q_b, p_b) - batch entries with different costs, horizon > 1"""
    lq = env.load(LQRM); T = env.T
    system, sysm = make_ltv(env)
    B, H, n = 2, 3, 2
    Qs = [T.stack([env.vec(f'Q{b}r{i}', n, regimes=('generic',)) for i in range(n)], 0) for b in range(B)]
    ps = [env.vec(f'p{b}', n, regimes=('generic',)) for b in range(B)]
    solver = lq.LQR(system, T.stack(Qs, 0), T.stack(ps, 0), H)
    env.holds('expanded shapes are (B, T, n, n) and (B, T, n)', tuple(solver.Q.shape) == (B, H, n, n) and tuple(solver.p.shape) == (B, H, n))
    for b in range(B):
        for t in range(H):
            env.eq(f'entry {b}, step {t}: quadratic cost is Q_{b}', solver.Q[b, t], Qs[b])
            env.eq(f'entry {b}, step {t}: linear cost is p_{b}', solver.p[b, t], ps[b])


class BellmanStep(loopcut.LoopContract):
    """for t in range(T-1, -1, -1): arbitrary non-terminal step with an arbitrary symmetric tail V and v"""
    modifies = ('A', 'B', 'F', 'Qt', 'qt', 'Qxx', 'Qxu', 'Qux', 'Quu', 'qx', 'qu', 'L', 'Kt', 'kt', 'V', 'v', 't',
                'K[..., t, :, :]', 'k[..., t, :]')
    def __init__(self, env): self.env = env
    def enter(self, frame): pass
    def cond(self, frame): return True
    def havoc(self, name, old):
        env = self.env; T = env.T
        if name == 't': return 0
        if name == 'V':
            v00 = env.scalar('V00', regimes=('generic',))[0]
            self.V = v00.reshape(1, 1, 1); return self.V
        if name == 'v':
            self.v = env.vec('v_tail', 1).reshape(1, 1); return self.v
        return old
    def back(self, frame):
        env = self.env; T = env.T
        Qt, qt, Kt, kt, V2, v2 = frame['Qt'][0], frame['qt'][0], frame['Kt'][0], frame['kt'][0], frame['V'][0], frame['v'][0]
        dx, du = env.vec('dx', 1), env.vec('du', 1)
        z = T.cat([dx, du], -1)
        lhs = (z @ Qt @ z) / 2 + (qt * z).sum()
        Quu = Qt[1:, 1:]
        e = du - Kt @ dx - kt
        rhs = (dx @ V2 @ dx) / 2 + (v2 * dx).sum() + (e @ Quu @ e) / 2 - (kt @ Quu @ kt) / 2
        env.eq('completion of squares: Q_t(dx,du) = 1/2 dx^T V dx + v^T dx + 1/2 |du - K dx - k|^2_Quu + const', lhs, rhs)
        Fm = frame['F'].reshape(1, 2)
        env.eq('stage Q-function adds the tail through the linearised dynamics: Qt = Q_t + F^T V F',
               Qt, frame['self'].Q[0, 0] + Fm.transpose(-1, -2) @ self.V[0] @ Fm)


@obligation('C14.LQR.bellman_step', functions=[f'{LQRM}:LQR.lqr_backward'], timeout=300, no_validate=True,
            loops={LQRM: {('LQR.lqr_backward', 0): 'LQR.backward'}})
def bellman(env):
    if not env.sym:
        env.holds('numeric twin: C14.LQR.solve / bounded KKT comparison', True); return
    lq = env.load(LQRM); T = env.T
    install_chol(env)
    system, sysm = make_ltv(env)
    l00 = env.scalar('q_l00', positive=True, regimes=('generic',))[0]; l11 = env.scalar('q_l11', positive=True, regimes=('generic',))[0]
    l10 = env.scalar('q_l10', regimes=('generic',))[0]
    L = T.stack([T.stack([l00, l00 * 0]), T.stack([l10, l11])])
    Qm = (L @ L.transpose(-1, -2)).reshape(1, 2, 2)
    p = env.vec('p', 2).reshape(1, 2)
    x0 = env.vec('x_init', 1).reshape(1, 1)
    loopcut.DISPATCH.contracts['LQR.backward'] = BellmanStep(env)
    solver = lq.LQR(system, Qm, p, 3)
    solver.lqr_backward(x0, 1, None)


@obligation('C14.MPC.final_solve', functions=['pypose.module.mpc:MPC.forward', 'pypose.module.mpc:MPC.__init__'], no_validate=True)
def mpc(env):
    """MPC returns LQR's result for the best input trajectory seen: by LQR's contract (optimum independent of the nominal
    trajectory) that is the LQ optimum on a linear system, and an LQR forward roll-out (dynamics satisfied, consistent cost) otherwise"""
    if not env.sym:
        env.holds('numeric twin: bounded MPC run', True); return
    mp = env.load('pypose.module.mpc'); stp = env.load('pypose.utils.stepper'); T = env.T
    calls = []
    costs = iter([5, 3, 4, 9])
    class FakeLQR:
        def __call__(self, x_init, dt=1, u_traj=None, **k):
            calls.append((x_init, dt, u_traj))
            c = next(costs)
            return f'x{len(calls)}', f'u{len(calls)}', T.tensor(c)
    m = mp.MPC.__new__(mp.MPC)
    mp.nn.Module.__init__(m)
    m.stepper = stp.ReduceToBason(steps=3)
    object.__setattr__(m, 'lqr', FakeLQR())
    out = m.forward(dt=7, x_init='x_init', u_init='u0')
    env.holds('every solve starts from x_init with the given dt', all(c[0] == 'x_init' and c[1] == 7 for c in calls))
    env.holds('iterations warm-start from the previous inputs', calls[0][2] == 'u0' and calls[1][2] == 'u1')
    env.holds('the final solve uses the best (lowest-cost) inputs seen', calls[-1][2] == 'u2')
    env.holds('the result is that final LQR solve', out[0] == f'x{len(calls)}')
    env.holds('... its states, its inputs and ITS cost (the cost of the trajectory returned, not of an earlier iterate)',
              len(out) == 3 and out[0] == f'x{len(calls)}' and out[1] == f'u{len(calls)}' and len(calls) == 4 and bool(out[2] == 9))


@bounded('C14.kkt_comparison', functions=[f'{LQRM}:LQR.forward', 'pypose.module.mpc:MPC.forward'])
def kkt(rng, tier):
    """real code vs a dense solve of the stationarity conditions: horizons <= 20, dims <= 4, LTI and LTV, repeated solves on one
    system object (stale time counter), random nominal trajectories"""
    import torch, pypose as pp
    N = 25 if tier == 'quick' else 300
    fails = []; samples = []; evals = 0
    g = torch.Generator().manual_seed(rng.randrange(1 << 30))
    for k in range(N):
        n, m, H = rng.randrange(1, 5), rng.randrange(1, 4), rng.randrange(1, 21 if tier != 'quick' else 9)
        ltv = rng.random() < 0.5
        As = [torch.randn(n, n, dtype=torch.float64, generator=g) * 0.6 for _ in range(H + 2)]
        Bs = [torch.randn(n, m, dtype=torch.float64, generator=g) for _ in range(H + 2)]
        if not ltv: As = [As[0]] * (H + 2); Bs = [Bs[0]] * (H + 2)
        c1 = torch.randn(n, dtype=torch.float64, generator=g)
        class Sys(pp.module.LTV):
            @property
            def A(self): return As[min(int(self.systime), H + 1)].unsqueeze(0)
            @property
            def B(self): return Bs[min(int(self.systime), H + 1)].unsqueeze(0)
            @property
            def c1(self): return c1.unsqueeze(0)
        Ci, Di = torch.eye(n, dtype=torch.float64).unsqueeze(0), torch.zeros(1, n, m, dtype=torch.float64)
        system = Sys(None, None, Ci, Di)
        Mx = torch.randn(n + m, n + m, dtype=torch.float64, generator=g)
        Qm = (Mx @ Mx.T + 0.5 * torch.eye(n + m, dtype=torch.float64)).unsqueeze(0); p = torch.randn(1, n + m, dtype=torch.float64, generator=g)
        tv_cost = rng.random() < 0.5            # a cost that VARIES over the horizon: Q_t, p_t per step (shape (1, H, ., .)), e.g. a heavy terminal weight
        if tv_cost:
            Mt = torch.randn(H, n + m, n + m, dtype=torch.float64, generator=g)
            Qm = (Mt @ Mt.mT + 0.5 * torch.eye(n + m, dtype=torch.float64)).unsqueeze(0) * (1 + 9 * torch.rand(1, H, 1, 1, dtype=torch.float64, generator=g))
            p = torch.randn(1, H, n + m, dtype=torch.float64, generator=g)
        Qs = [Qm[0, t] if tv_cost else Qm[0] for t in range(H)]; ps = [p[0, t] if tv_cost else p[0] for t in range(H)]
        x0 = torch.randn(1, n, dtype=torch.float64, generator=g)
        def cost_of(u):
            x = x0[0]; J = 0
            for t in range(H):
                tau = torch.cat([x, u[t]]); J = J + 0.5 * tau @ Qs[t] @ tau + ps[t] @ tau
                x = As[t] @ x + Bs[t] @ u[t] + c1
            return J
        uref = torch.zeros(H, m, dtype=torch.float64, requires_grad=True)
        Hm = torch.autograd.functional.hessian(lambda z: cost_of(z.reshape(H, m)), uref.reshape(-1))
        g0 = torch.autograd.grad(cost_of(uref), uref)[0].reshape(-1)
        ustar = torch.linalg.solve(Hm, -g0).reshape(H, m)
        Jstar = float(cost_of(ustar))
        lqr = pp.module.LQR(system, Qm, p, H)
        for rep in range(2):                       # the second solve finds a stale time counter
            un = None if rng.random() < 0.5 else torch.randn(1, H, m, dtype=torch.float64, generator=g) * rng.choice([1.0, 1.0, 1e3])
            if un is not None and rng.random() < 0.3:          # a nominal given as a broadcast (stride-0) view over the horizon: still only a nominal
                un = (torch.randn(1, 1, m, dtype=torch.float64, generator=g)).expand(1, H, m)
            un_before = None if un is None else un.clone()
            try:
                x, u, cost = lqr(x0, 1, un)
            except Exception as e:
                fails.append(dict(clause='lqr_raises', signature=f'n={n},m={m},H={H}', error=f'{type(e).__name__}: {e}'[:160])); break
            evals += 1
            Jr = float(cost_of(u[0].detach()))
            if abs(Jr - Jstar) > 1e-7 * (1 + abs(Jstar)) or abs(float(cost[0]) - Jr) > 1e-7 * (1 + abs(Jr)):
                fails.append(dict(clause='lqr_optimal_and_cost_consistent', signature=f'ltv={ltv},rep={rep},time_varying_cost={tv_cost}', n=n, m=m, H=H, cost=float(cost[0]), true_cost_of_u=Jr, optimum=Jstar)); break
            if un is not None and not torch.equal(un, un_before):
                fails.append(dict(clause='lqr_leaves_the_nominal_trajectory_untouched', signature=f'ltv={ltv},rep={rep}', n=n, m=m, H=H)); break
            # the inputs themselves are the minimiser to float64 accuracy (the cost is flat to second order around it and cannot tell),
            # whatever nominal trajectory - also a large one - was supplied
            du_ = float((u[0].detach() - ustar).abs().max()) / (1 + float(ustar.abs().max()))
            if du_ > 1e-8 * max(1.0, float(torch.linalg.cond(Hm)) * 1e-4):
                fails.append(dict(clause='lqr_inputs_are_the_minimiser_to_working_precision', signature=f'ltv={ltv},rep={rep}', n=n, m=m, H=H, rel_err=du_,
                                  nominal_scale=None if un is None else float(un.abs().max()))); break
        if k < 2: samples.append(dict(n=n, m=m, H=H, ltv=ltv, optimum=Jstar))
    # batches: every batch size 1..3 x state dimension 1..3 x horizon 1..3 (exhaustive) with per-item systems and costs - the batched solve
    # returns, item by item, the solve of that item alone (which the loop above compares with the KKT solution)
    d = torch.float64
    for Bsz in (1, 2, 3):
        for n in (1, 2, 3):
            for H in (1, 2, 3):
                m = rng.randrange(1, 3)
                A_ = torch.randn(Bsz, n, n, dtype=d, generator=g) * 0.6; B_ = torch.randn(Bsz, n, m, dtype=d, generator=g)
                C_ = torch.eye(n, dtype=d).repeat(Bsz, 1, 1); D_ = torch.zeros(Bsz, n, m, dtype=d)
                c1_ = torch.randn(Bsz, n, dtype=d, generator=g); c2_ = torch.zeros(Bsz, n, dtype=d)
                Mq = torch.randn(Bsz, H, n + m, n + m, dtype=d, generator=g); Qb = Mq @ Mq.mT + 0.5 * torch.eye(n + m, dtype=d)
                pb = torch.randn(Bsz, H, n + m, dtype=d, generator=g); xb = torch.randn(Bsz, n, dtype=d, generator=g)
                sig = f'batch={Bsz},n={n},m={m},H={H}'
                try:
                    xs_, us_, cs_ = pp.module.LQR(pp.module.LTI(A_, B_, C_, D_, c1_, c2_), Qb, pb, H)(xb)
                except Exception as e:
                    fails.append(dict(clause='lqr_raises', signature=sig, error=f'{type(e).__name__}: {e}'[:160])); continue
                evals += 1
                for b in range(Bsz):
                    sl = slice(b, b + 1)
                    try:
                        x1, u1, c1v = pp.module.LQR(pp.module.LTI(A_[sl], B_[sl], C_[sl], D_[sl], c1_[sl], c2_[sl]), Qb[sl], pb[sl], H)(xb[sl])
                    except Exception as e:
                        fails.append(dict(clause='lqr_raises', signature=sig + f' (item {b} alone)', error=f'{type(e).__name__}: {e}'[:160])); break
                    if not (torch.allclose(xs_[sl], x1, atol=1e-9) and torch.allclose(us_[sl], u1, atol=1e-9) and torch.allclose(cs_[sl], c1v, atol=1e-9)):
                        fails.append(dict(clause='lqr_batch_is_itemwise', signature=sig, item=b)); break
    return dict(evaluations=evals, distinct_nontrivial=evals, rule='random LTI/LTV systems, PD Q, two consecutive solves per system object; distinct by seed; batches 1..3 x n 1..3 x H 1..3 exhaustive',
                bound='n <= 4, m <= 3, horizon <= 8 (quick) / 20 (thorough)', failures=fails[:6], samples=samples)


@obligation('C14.canary.cost_without_linear_term', functions=[f'{LQRM}:LQR.lqr_forward'], canary=True, timeout=300)
def canary(env):
    lq = env.load(LQRM); T = env.T
    install_chol(env)
    system, sysm = make_ltv(env)
    l00 = env.scalar('q_l00', positive=True, regimes=('generic',))[0]; l11 = env.scalar('q_l11', positive=True, regimes=('generic',))[0]
    L = T.stack([T.stack([l00, l00 * 0]), T.stack([l00 * 0, l11])])
    Qm = (L @ L.transpose(-1, -2)).reshape(1, 2, 2)
    p = env.vec('p', 2).reshape(1, 2)
    x0 = env.vec('x_init', 1).reshape(1, 1)
    x, u, cost = lq.LQR(system, Qm, p, 2)(x0, 1, None)
    tot = 0
    for t in range(2):
        tau = T.stack([x[0, t, 0], u[0, t, 0]])
        tot = tot + (tau @ Qm[0] @ tau) / 2
    env.eq('cost without p', cost[0], tot)


# callee contracts: the obligations above state "satisfies the system's transition" against x' = A_t x + B_t u + c1 written out from
# the tensors handed to the system; that a system BUILT by the documented constructors advances by exactly that map is the contract
# of LTI / LTV (stated once, in c15_dynamics.py) and is discharged in this check too.
from contracts import c15_dynamics as _c15
for (_kls, _wc), _fn in _c15.LTI_CONTRACTS.items():
    if _wc:
        obligation(f'C14.callee.{_kls}.{"affine" if _wc is True else "c1_only"}', functions=[f'{DYN}:{_kls}.__init__', f'{DYN}:LTI.state_transition', f'{DYN}:LTI.observation'],
                   note='callee contract assumed by the C14 obligations (same contract function as C15)')(_fn)


# LQR starts its roll-outs with system.reset() and means step 0 by it - "independently of earlier calls made on the same system object,
# whatever its time counter" rests on reset() / reset(k) / systime being what C15 states (reset() -> 0 also after an earlier reset(k)):
# the clock contract of c15_dynamics.py, discharged in this check too.
obligation('C14.callee.System.time', functions=['pypose.module.dynamics:System.reset', 'pypose.module.dynamics:System.systime', 'pypose.module.dynamics:System.forward_hook'],
           note='callee contract of the roll-outs of LQR (same contract function as C15.System.time)')(_c15.time_)
