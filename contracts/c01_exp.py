"""C01 - Exp is the matrix exponential on so3, se3, rxso3, sim3.

Contracts on so3_Exp.forward, so3_Jl, se3_Exp.forward, rxso3_Ws, rxso3_Exp.forward, sim3_Exp.forward,
vec2skew, *Type.Exp.  Spec closed forms are derived by sympy from exp(hat x) = sum hat(x)^k/k! in
specs/expmap.py (only K^3 = -theta^2 K is used, itself an obligation on the real vec2skew).

Closed-form paths (theta > eps, |sigma| > eps): exact identity with the spec, for every magnitude
(angles beyond pi included: the identity is in sin/cos atoms, no range restriction).
Taylor paths: the code's polynomial equals the Taylor polynomial of the spec exactly up to the order at
which the omitted tail is below eps^2 relative (L-taylor, assumed): coefficients are compared exactly.
"""
from pvc.registry import obligation, bounded, property_meta
from specs import lie as S, expmap as EM
from contracts.common import *

property_meta('C01', level='proof', min_obligations=40,
              trusted_base=['L-exp: checked by the engine as ODE characterisations (obligation C01.L_exp.ode_characterisation: R\' = K R, (tV)\' = R, (tW)\' = e^{t sg} R); uniqueness of solutions of linear ODEs is the remaining textbook step',
                            'L-taylor: tail of the Taylor series of the entire coefficient functions is below the first omitted term times 2 for |theta| <= 2^-10 (assumed)',
                            'sympy integrate/series for the spec coefficients (specs/expmap.py)'],
              assumptions=['float32/float64 accuracy clause (relative error in eps / sqrt(eps)): bounded stand-in vs mpmath, not proved'],
              explanation='closed-form and Taylor paths of the real Exp code equal the sympy-derived spec coefficients; exact normal form over sin/cos/exp atoms')

REG = ('generic', 'zero', 'tiny', 'subeps', 'sqrteps', 'micro', 'small', 'large')


def rot_spec(env, x, theta):
    """(quaternion spec, Rodrigues matrix) of exp(K), closed form"""
    T = env.T
    c = EM.coeffs()
    K = S.skew(T, x); I = S.eye(T, 3, x[0])
    q = T.cat([x * EM.ev(c['q_imag'], env, theta), EM.ev(c['q_real'], env, theta).reshape(1)], -1)
    R = I + EM.ev(c['R1'], env, theta) * K + EM.ev(c['R2'], env, theta) * (K @ K)
    return q, R


@obligation('C01.vec2skew', functions=['pypose.lietensor.basics:vec2skew'])
def skew(env):
    b = env.load('pypose.lietensor.basics'); T = env.T
    x = env.vec('x', 3); y = env.vec('y', 3)
    K = b.vec2skew(x)
    env.eq('is_hat_map', K, S.skew(T, x))
    env.eq('cross_product', K @ y, T.linalg.cross(x, y, dim=-1))
    env.eq('K_cubed', K @ K @ K, -(x * x).sum(-1) * K)
    env.eq('antisymmetric', K.transpose(-1, -2), -K)


@obligation('C01.so3_Exp', functions=[f'{OPS}:so3_Exp.forward'])
def so3(env):
    op = env.load(OPS); T = env.T
    x = env.vec('x', 3, regimes=REG)
    theta = T.linalg.norm(x, dim=-1)
    env.angle_base(theta / 2)
    X = op.so3_Exp.forward(x)
    eps = env.eps(x)
    K = S.skew(T, x); I = S.eye(T, 3, x[0])
    if theta > eps:
        q, R = rot_spec(env, x, theta)
        env.eq('quaternion_closed_form', X, q)
        env.eq('matrix_is_rodrigues', S.quat_matrix(T, X), R)
        env.eq('unit_quaternion', (X * X).sum(-1), 1)
    else:
        pim = EM.ev(EM.series('q_imag', 'th', 4), env, theta)
        pre = EM.ev(EM.series('q_real', 'th', 4), env, theta)
        env.eq('taylor_coefficients_exact_order4', X, T.cat([x * pim, (pre + x[0] * 0).reshape(1)], -1))
        env.eq_order('unit_quaternion_to_order6', (X * X).sum(-1), 1, x, 6)
        env.eq_order('matrix_matches_exp_series_to_order5', S.quat_matrix(T, X),
                     I + K + K @ K / 2 + K @ K @ K / 6 + K @ K @ K @ K / 24 + K @ K @ K @ K @ K / 120, x, 6)
    env.safe('defined', X)


@obligation('C01.so3_Jl', functions=[f'{OPS}:so3_Jl'])
def jl(env):
    """so3_Jl is V(phi) = int_0^1 exp(sK) ds  (also the left Jacobian of SO3)"""
    op = env.load(OPS); T = env.T
    x = env.vec('x', 3, regimes=REG)
    theta = T.linalg.norm(x, dim=-1)
    J = op.so3_Jl(x)
    eps = env.eps(x)
    K = S.skew(T, x); I = S.eye(T, 3, x[0])
    c = EM.coeffs()
    if theta > eps:
        env.eq('closed_form', J, I + EM.ev(c['V1'], env, theta) * K + EM.ev(c['V2'], env, theta) * (K @ K))
    else:
        env.eq('taylor_coefficients_exact_order2', J, I + EM.ev(EM.series('V1', 'th', 2), env, theta) * K
               + EM.ev(EM.series('V2', 'th', 2), env, theta) * (K @ K))
    env.safe('defined', J)


@obligation('C01.se3_Exp', functions=[f'{OPS}:se3_Exp.forward', f'{OPS}:so3_Jl', f'{OPS}:so3_Exp.forward'])
def se3(env):
    op = env.load(OPS); T = env.T
    tau = env.vec('tau', 3); x = env.vec('x', 3, regimes=REG)
    theta = T.linalg.norm(x, dim=-1)
    env.angle_base(theta / 2)
    X = op.se3_Exp.forward(T.cat([tau, x], -1))
    eps = env.eps(x)
    K = S.skew(T, x); I = S.eye(T, 3, x[0])
    c = EM.coeffs()
    env.eq('rotation_part_is_so3_Exp', X[3:7], op.so3_Exp.forward(x))
    if theta > eps:
        q, R = rot_spec(env, x, theta)
        V = I + EM.ev(c['V1'], env, theta) * K + EM.ev(c['V2'], env, theta) * (K @ K)
        env.eq('translation_is_V_tau', X[0:3], V @ tau)
        O = x[0] * 0
        M = T.cat([T.cat([R, (V @ tau).unsqueeze(-1)], -1), T.stack([O, O, O, O + 1], -1).unsqueeze(-2)], -2)
        env.eq('matrix_is_exp_of_generator', S.group_matrix(T, 'SE3', X), M)
    else:
        V = I + EM.ev(EM.series('V1', 'th', 2), env, theta) * K + EM.ev(EM.series('V2', 'th', 2), env, theta) * (K @ K)
        env.eq('translation_taylor_exact_order2', X[0:3], V @ tau)
    env.safe('defined', X)


@obligation('C01.rxso3_Exp', functions=[f'{OPS}:rxso3_Exp.forward'])
def rxso3(env):
    op = env.load(OPS); T = env.T
    x = env.vec('x', 3, regimes=REG); sigma = env.scalar('sigma', regimes=('generic', 'zero', 'tiny', 'small', 'large'))
    X = op.rxso3_Exp.forward(T.cat([x, sigma], -1))
    env.eq('rotation_part_is_so3_Exp', X[0:4], op.so3_Exp.forward(x))
    env.eq('scale_is_exp_sigma', X[4:5], T.exp(sigma))
    env.holds('scale_positive', X[4] > 0)
    env.safe('defined', X)


@obligation('C01.rxso3_Ws', functions=[f'{OPS}:rxso3_Ws'], max_paths=16)
def ws(env):
    """W(phi, sigma) = int_0^1 exp(s (sigma I + K)) ds, four regimes"""
    op = env.load(OPS); T = env.T
    x = env.vec('x', 3, regimes=REG); sigma = env.scalar('sigma', regimes=('generic', 'zero', 'tiny', 'small', 'large'))
    theta = T.linalg.norm(x, dim=-1)
    W = op.rxso3_Ws(T.cat([x, sigma], -1))
    eps = env.eps(x)
    K = S.skew(T, x); I = S.eye(T, 3, x[0])
    c = EM.coeffs()
    sg = sigma[0]
    big_s = bool(sg.abs() > eps); big_t = bool(theta > eps)
    if big_s and big_t:
        env.eq('regime4_closed_form', W, EM.ev(c['WC'], env, theta, sg) * I + EM.ev(c['WA'], env, theta, sg) * K
               + EM.ev(c['WB'], env, theta, sg) * (K @ K))
    elif big_t:
        env.eq('regime2_sigma0_limit', W, I + EM.ev(c['WA_sg0'], env, theta, sg) * K + EM.ev(c['WB_sg0'], env, theta, sg) * (K @ K))
    elif big_s:
        # theta <= eps: B multiplies K^2 = O(theta^2) <= eps^2, so only C and A matter at the stated accuracy
        env.eq_order('regime3_theta0_limit_up_to_second_order', W,
                     EM.ev(c['WC'], env, theta, sg) * I + EM.ev(c['WA_th0'], env, theta, sg) * K, x, 2)
    else:
        env.eq_order('regime1_up_to_second_order', W, I + K / 2, x, 2)
        env.eq('regime1_value', W, I + K / 2 + K @ K / 6)
    env.safe('defined', W)


@obligation('C01.sim3_Exp', functions=[f'{OPS}:sim3_Exp.forward', f'{OPS}:rxso3_Ws', f'{OPS}:rxso3_Exp.forward'], max_paths=64, timeout=300)
def sim3(env):
    op = env.load(OPS); T = env.T
    tau = env.vec('tau', 3); x = env.vec('x', 3, regimes=REG)
    sigma = env.scalar('sigma', regimes=('generic', 'zero', 'tiny', 'small', 'large'))
    theta = T.linalg.norm(x, dim=-1)
    env.angle_base(theta / 2)
    xs = T.cat([x, sigma], -1)
    X = op.sim3_Exp.forward(T.cat([tau, xs], -1))
    W = op.rxso3_Ws(xs)
    env.eq('translation_is_W_tau', X[0:3], W @ tau)
    env.eq('rotation_scale_is_rxso3_Exp', X[3:8], op.rxso3_Exp.forward(xs))
    eps = env.eps(x)
    sg = sigma[0]
    if bool(sg.abs() > eps) and bool(theta > eps):
        c = EM.coeffs()
        K = S.skew(T, x); I = S.eye(T, 3, x[0])
        q, R = rot_spec(env, x, theta)
        Wm = EM.ev(c['WC'], env, theta, sg) * I + EM.ev(c['WA'], env, theta, sg) * K + EM.ev(c['WB'], env, theta, sg) * (K @ K)
        O = x[0] * 0
        M = T.cat([T.cat([T.exp(sg) * R, (Wm @ tau).unsqueeze(-1)], -1), T.stack([O, O, O, O + 1], -1).unsqueeze(-2)], -2)
        env.eq('matrix_is_exp_of_generator', S.group_matrix(T, 'Sim3', X), M)
    env.safe('defined', X)


for g in GROUPS:
    def mk(g=g):
        a = S.ALG[g]
        @obligation(f'C01.{a}Type.Exp', functions=[f'{LT}:{a}Type.Exp', f'{LT}:LieTensor.Exp'])
        def disp(env):
            op = env.load(OPS); pp = env.load('pypose')
            x = alg_elem(env, g, 'x')
            X = alg(pp, g, x).Exp()
            env.holds('returns_group_ltype', X.ltype is ltype(pp, g))
            env.eq('is_Function_forward', raw(X), getattr(op, a + '_Exp').forward(x))
            # Exp is a function of the current value of x only: no state survives between calls on the same LieTensor object
            xl = alg(pp, g, x.clone())
            X1 = xl.Exp()
            ref = raw(X1).clone()
            raw(X1).mul_(0)                                           # the caller overwrites the element it was handed
            env.eq('a second Exp of the same object is not affected by in-place edits of the first result', raw(xl.Exp()), ref)
            xl.tensor().mul_(2)                                       # x itself is updated in place
            env.eq('after an in-place update of x, Exp is the Exp of the new value', raw(xl.Exp()), getattr(op, a + '_Exp').forward(2 * x))
    mk()


@obligation('C01.canary.wrong_taylor', functions=[f'{OPS}:so3_Exp.forward'], canary=True)
def canary(env):
    op = env.load(OPS); T = env.T
    x = env.vec('x', 3, regimes=('zero', 'tiny'))
    theta = T.linalg.norm(x, dim=-1)
    X = op.so3_Exp.forward(x)
    if not (theta > env.eps(x)):
        env.eq('wrong_coefficient', X[0:3], x * (Q(1, 2) - theta * theta / 24))
    else:
        env.eq('trivially_false', X[3], X[3] + 1)

from fractions import Fraction as Q


@bounded('C01.float_accuracy', functions=[f'{OPS}:so3_Exp.forward', f'{OPS}:se3_Exp.forward', f'{OPS}:rxso3_Exp.forward', f'{OPS}:sim3_Exp.forward', f'{OPS}:rxso3_Ws', f'{OPS}:so3_Jl'])
def float_accuracy(rng, tier):
    """float32 / float64 Exp vs mpmath.expm (50 digits): rotation and scale blocks within 64 eps, translation block within
    64 sqrt(eps) relative; every block magnitude from {0, 1e-30..1e-3, dense around eps and sqrt(eps), O(1), rotations up to 3 pi, |sigma| <= 8}"""
    import torch, pypose as pp, mpmath
    from contracts import floatacc as FA
    N = 150 if tier == 'quick' else 1500
    fails = []; evals = 0; samples = []; worst = {}
    for g, G in (('so3', 'SO3'), ('se3', 'SE3'), ('rxso3', 'RxSO3'), ('sim3', 'Sim3')):
        for dtype in (torch.float64, torch.float32):
            eps = torch.finfo(dtype).eps
            # directed probes of the corner regimes (recorded known findings are re-confirmed on every run)
            probes = []
            if g == 'sim3':
                probes = [[0.3, -0.2, 0.5, 0.2 * eps, -0.5 * eps, 0.1 * eps, 1.7 * eps], [0.3, -0.2, 0.5, 0, 0.9 * eps, 0, -3.1 * eps],
                          [0.3, -0.2, 0.5, 2 * eps, -3 * eps, 1 * eps, 2.5 * eps], [0.3, -0.2, 0.5, 40 * eps, 10 * eps, -20 * eps, 30 * eps]]
            for k in range(N + len(probes)):
                x = probes[k - N] if k >= N else FA.sample_algebra(rng, g, eps)
                xt = torch.tensor(x, dtype=dtype)
                xs = [float(v) for v in xt]                     # the value actually representable in dtype
                X = pp.LieTensor(xt, ltype=getattr(pp, g + '_type')).Exp()
                M = X.matrix().to(torch.float64)
                ref = mpmath.expm(FA.hat_mp(g, xs))
                evals += 1
                n = 3
                R = [[float(ref[i, j]) for j in range(n)] for i in range(n)]
                Rn = max(1e-300, max(abs(v) for r in R for v in r))
                err_r = max(abs(float(M[i, j]) - R[i][j]) for i in range(n) for j in range(n)) / Rn
                q = X.tensor()[..., 3:7] if g in ('se3', 'sim3') else X.tensor()[..., 0:4]
                err_q = abs(float(q.double().norm()) - 1.0)
                tol_r = 64 * eps
                key = (g, str(dtype).split('.')[-1])
                rotv = xs[3:6] if g in ('se3', 'sim3') else xs[0:3]
                th_ = math.sqrt(sum(v * v for v in rotv))
                regime = ('theta>sqrt(eps)' if th_ > math.sqrt(eps) else ('theta in (eps,sqrt(eps)]' if th_ > eps else 'theta<=eps'))
                if g in ('rxso3', 'sim3'):
                    regime += ',|sigma|>eps' if abs(xs[-1]) > eps else ',|sigma|<=eps'
                if err_r > tol_r or err_q > tol_r:
                    fails.append(dict(clause='rotation_scale_block', signature=f'{g}/{key[1]}/{regime}', x=xs, err=err_r, unit_err=err_q, tol=tol_r))
                if g in ('se3', 'sim3'):
                    t = [float(ref[i, 3]) for i in range(3)]
                    tn = max(abs(v) for v in t)
                    if tn > 0:
                        err_t = max(abs(float(M[i, 3]) - t[i]) for i in range(3)) / tn
                        tol_t = 64 * math.sqrt(eps)
                        worst[key] = max(worst.get(key, 0), err_t)
                        if err_t > tol_t:
                            fails.append(dict(clause='translation_block', signature=f'{g}/{key[1]}/{regime}', x=xs, err=err_t, tol=tol_t))
                if k < 1: samples.append(dict(type=g, dtype=key[1], x=xs))
    # keep one representative failure per (clause, signature), the worst one
    best = {}
    for f in fails:
        kk = (f['clause'], f['signature'])
        if kk not in best or f['err'] > best[kk]['err']: best[kk] = f
    out = list(best.values())
    for f in out: f['count'] = sum(1 for x in fails if (x['clause'], x['signature']) == (f['clause'], f['signature']))
    return dict(evaluations=evals, distinct_nontrivial=evals, rule='per type and dtype: each block magnitude drawn independently from the stated set, random directions; all inputs distinct',
                bound=f'{N} inputs per (type, dtype); tolerance 64 eps (rotation/scale), 64 sqrt(eps) (translation)', failures=out, samples=samples[:4],
                worst_translation_error={f'{a}/{b}': v for (a, b), v in worst.items()})

import math


@obligation('C01.L_exp.ode_characterisation', functions=['specs/expmap.py (spec closed forms)', 'pypose.lietensor.basics:vec2skew'], no_validate=True, max_paths=4)
def l_exp(env):
    """engine check of lemma L-exp for the SPEC closed forms (no pypose code except vec2skew): along t -> t x
       R(t) = I + sin(t th)/th K + (1-cos(t th))/th^2 K^2      satisfies R' = K R,  R(0) = I          (so R(t) = exp(tK))
       t V(t x)                                                 satisfies (tV)' = R(t), value 0 at t=0  (so V = int_0^1 exp(sK) ds)
       t W(t x, t sg)                                           satisfies (tW)' = e^{t sg} R(t)         (so W = int_0^1 exp(s(sg I + K)) ds)
    Uniqueness of solutions of linear ODEs is the remaining textbook step."""
    if not env.sym:
        env.holds('numeric twin: C01.float_accuracy compares with mpmath.expm', True); return
    b = env.load('pypose.lietensor.basics'); T = env.T
    x = env.vec('x', 3, regimes=('generic',)); sg = env.scalar('sigma', regimes=('generic',))[0]
    t = env.scalar('t', positive=True, regimes=('generic',))
    th = T.linalg.norm(x, dim=-1)
    K = b.vec2skew(x); I = S.eye(T, 3, x[0])
    c = EM.coeffs()
    tt = t[0]
    def R_(tt_): return I + EM.ev(c['R1'], env, th * tt_) * (tt_ * K) + EM.ev(c['R2'], env, th * tt_) * (tt_ * K) @ (tt_ * K)
    def tV(tt_): return tt_ * (I + EM.ev(c['V1'], env, th * tt_) * (tt_ * K) + EM.ev(c['V2'], env, th * tt_) * (tt_ * K) @ (tt_ * K))
    def tW(tt_): return tt_ * (EM.ev(c['WC'], env, th * tt_, sg * tt_) * I + EM.ev(c['WA'], env, th * tt_, sg * tt_) * (tt_ * K)
                               + EM.ev(c['WB'], env, th * tt_, sg * tt_) * (tt_ * K) @ (tt_ * K))
    R = R_(tt)
    dR = env.jacobian(lambda v: R_(v[0]), t)[..., 0]
    env.eq('dR/dt = K R(t)', dR, K @ R)
    dV = env.jacobian(lambda v: tV(v[0]), t)[..., 0]
    env.eq('d(t V(t x))/dt = R(t)', dV, R)
    dW = env.jacobian(lambda v: tW(v[0]), t)[..., 0]
    env.eq('d(t W(t x, t sigma))/dt = exp(t sigma) R(t)', dW, T.exp(sg * tt) * R)
    from pvc import algebra as A, storch as st
    tv = list(t._a.flat[0].num.vars())[0]
    zero = {tv: A.Frac.const(0)}
    # initial values: R(0) = I (direct substitution is a 0/0 form in th*t; use the polynomial part): t V and t W vanish at t = 0 by the factor t
    env.eq('q-real coefficient at 0', EM.ev(c['q_real'], env, th * 0), 1)


@obligation('C01.lean.atom_axiom_schemas', functions=['pvc/atoms.py (engine): axiom schemas of the sqrt / sin / cos / exp / log / atan / asin / cbrt / pi atoms'],
            thorough_only=True, no_validate=True, timeout=900,
            note='Lean 4.33 + Mathlib re-proves every relation / sign fact / derivation rule that atom creation instantiates (lean/Axioms.lean); '
                 'their USE by the normal form stays trusted and is cross-checked numerically on every run')
def lean_axioms(env):
    import subprocess, os, re
    root = os.path.dirname(os.path.dirname(os.path.abspath(__file__)))
    src = os.path.join(root, 'lean', 'Axioms.lean')
    text = open(src).read()
    n_thm = len(re.findall(r'^theorem ', text, re.M))
    clean = not re.search(r'\bsorry\b|^axiom |\badmit\b', text, re.M)
    pr = subprocess.run(['lean', src], capture_output=True, text=True, timeout=850)
    ok = pr.returncode == 0 and 'error' not in pr.stdout and 'error' not in pr.stderr and 'sorry' not in pr.stdout
    if env.sym:
        env._record(f'lean accepts all {n_thm} axiom-schema theorems (no sorry, no axiom)', 'proved' if (ok and clean and n_thm >= 40) else 'unknown',
                    {'backend': 'lean 4.33 + Mathlib', 'returncode': pr.returncode, 'output': (pr.stdout + pr.stderr)[-400:]})
    else:
        env.holds('lean accepts all axiom-schema theorems', ok and clean)
