"""Closed forms of the exponential maps, DERIVED with sympy from the definition
exp(hat(x)) = sum hat(x)^k / k!  using only  K^3 = -theta^2 K  (an obligation on the real vec2skew):

  exp(s K) = I + sin(s th)/th K + (1 - cos(s th))/th^2 K^2                (Rodrigues)
  V(phi)   = int_0^1 exp(s K) ds                                           (se3 translation coupling)
  W(phi,sg)= int_0^1 exp(s (sg I + K)) ds = int_0^1 e^{s sg} exp(s K) ds   (sim3 translation coupling)

Nothing here is copied from pypose.  The coefficients are sympy expressions in th (=|phi|) and sg;
`ev` evaluates them with a torch-like namespace (storch in proofs, torch in the concrete twin).
"""
import functools
import sympy as sp
from fractions import Fraction as Q

th, sg, s = sp.symbols('theta sigma s', real=True)


@functools.lru_cache(None)
def coeffs():
    c = {}
    # quaternion of exp(K): (phi * sin(th/2)/th, cos(th/2))
    c['q_imag'] = sp.sin(th / 2) / th
    c['q_real'] = sp.cos(th / 2)
    # Rodrigues
    c['R1'] = sp.sin(th) / th
    c['R2'] = (1 - sp.cos(th)) / th ** 2
    # V = I + V1 K + V2 K^2
    c['V1'] = sp.simplify(sp.integrate(sp.sin(s * th) / th, (s, 0, 1)))
    c['V2'] = sp.simplify(sp.integrate((1 - sp.cos(s * th)) / th ** 2, (s, 0, 1)))
    # W = WC I + WA K + WB K^2
    c['WC'] = (sp.exp(sg) - 1) / sg
    WA = sp.integrate(sp.exp(s * sg) * sp.sin(s * th), (s, 0, 1)) / th
    WB = sp.integrate(sp.exp(s * sg) * (1 - sp.cos(s * th)), (s, 0, 1)) / th ** 2
    c['WA'] = sp.simplify(_generic(WA))
    c['WB'] = sp.simplify(_generic(WB))
    # limits in the switched-off variable
    c['WA_sg0'] = c['V1']; c['WB_sg0'] = c['V2']; c['WC_sg0'] = sp.Integer(1)
    c['WA_th0'] = sp.simplify(_generic(sp.integrate(sp.exp(s * sg) * s, (s, 0, 1))))
    c['WB_th0'] = sp.simplify(_generic(sp.integrate(sp.exp(s * sg) * s ** 2 / 2, (s, 0, 1))))
    return {k: _generic(v) for k, v in c.items()}


def _generic(e):
    """pick the generic branch of a Piecewise produced by integrate"""
    if isinstance(e, sp.Piecewise):
        for ex, cond in e.args:
            if cond is not sp.true and not (cond.has(sp.Eq)):
                return ex
        return e.args[-1][0] if e.args[-1][1] is sp.true else e.args[0][0]
    if e.has(sp.Piecewise):
        return e.replace(lambda x: isinstance(x, sp.Piecewise), lambda x: _generic(x))
    return e


@functools.lru_cache(None)
def series(name, var, order):
    """Taylor polynomial of coefficient `name` in var (th or sg) up to and including var^order"""
    e = coeffs()[name]
    v = {'th': th, 'sg': sg}[var]
    return sp.series(e, v, 0, order + 1).removeO()


def ev(expr, env, theta=None, sigma=None):
    """evaluate a sympy expression with tensors theta / sigma (0-d or broadcastable) through T"""
    T = env.T
    def rec(e):
        if e is th: return theta
        if e is sg: return sigma
        if e.is_Integer: return int(e)
        if e.is_Rational: return Q(int(e.p), int(e.q)) if env.sym else float(e)
        if e.is_Add:
            r = None
            for a in e.args:
                v = rec(a); r = v if r is None else r + v
            return r
        if e.is_Mul:
            r = None
            for a in e.args:
                v = rec(a); r = v if r is None else r * v
            return r
        if e.is_Pow:
            b, p = e.args
            if p.is_Integer:
                bv = rec(b); n = int(p)
                if n >= 0:
                    r = 1
                    for _ in range(n): r = r * bv
                    return r
                r = 1
                for _ in range(-n): r = r * bv
                return 1 / r
            raise NotImplementedError(f"power {p}")
        if e.func is sp.sin: return T.sin(rec(e.args[0]))
        if e.func is sp.cos: return T.cos(rec(e.args[0]))
        if e.func is sp.exp: return T.exp(rec(e.args[0]))
        raise NotImplementedError(f"sympy node {e.func}")
    return rec(sp.sympify(expr))


