"""Spec functions for the Lie groups, written from the textbook definitions (NOT from the code).
All functions take the torch-like namespace T (storch in proofs, torch in the concrete twin) and
1-d tensors (one item)."""


def mat(T, rows):
    return T.stack([T.stack(list(r), -1) for r in rows], -2)

def zero(T, like):
    return like * 0

def skew(T, v):
    O = v[0] * 0
    return mat(T, [[O, -v[2], v[1]], [v[2], O, -v[0]], [-v[1], v[0], O]])

def eye(T, n, like):
    O = like * 0; I = O + 1
    return mat(T, [[I if i == j else O for j in range(n)] for i in range(n)])

def quat_matrix(T, q):
    """rotation matrix of the unit quaternion q = (x, y, z, w)   [Hamilton convention]"""
    x, y, z, w = q[0], q[1], q[2], q[3]
    return mat(T, [
        [1 - 2 * (y * y + z * z), 2 * (x * y - z * w), 2 * (x * z + y * w)],
        [2 * (x * y + z * w), 1 - 2 * (x * x + z * z), 2 * (y * z - x * w)],
        [2 * (x * z - y * w), 2 * (y * z + x * w), 1 - 2 * (x * x + y * y)]])

DOF = {'SO3': 3, 'SE3': 6, 'RxSO3': 4, 'Sim3': 7}
DIM = {'SO3': 4, 'SE3': 7, 'RxSO3': 5, 'Sim3': 8}
ALG = {'SO3': 'so3', 'SE3': 'se3', 'RxSO3': 'rxso3', 'Sim3': 'sim3'}

def parts(g, X):
    """(t, q, s) of a group element in pypose's documented layout"""
    if g == 'SO3': return None, X[0:4], None
    if g == 'SE3': return X[0:3], X[3:7], None
    if g == 'RxSO3': return None, X[0:4], X[4]
    if g == 'Sim3': return X[0:3], X[3:7], X[7]
    raise KeyError(g)

def group_matrix(T, g, X):
    """documented matrix representation: SO3/RxSO3 3x3 (R, sR); SE3/Sim3 4x4 [[R|sR, t],[0,1]]"""
    t, q, s = parts(g, X)
    R = quat_matrix(T, q)
    if s is not None: R = s * R
    if t is None: return R
    O = q[0] * 0; I = O + 1
    top = T.cat([R, T.stack([t[0], t[1], t[2]], -1).unsqueeze(-1)], -1)
    bot = T.stack([O, O, O, I], -1).unsqueeze(-2)
    return T.cat([top, bot], -2)

def group_matrix4(T, g, X):
    """4x4 homogeneous representation for every group"""
    M = group_matrix(T, g, X)
    if M.shape[-1] == 4: return M
    O = X[0] * 0; I = O + 1
    top = T.cat([M, T.stack([O, O, O], -1).unsqueeze(-1)], -1)
    bot = T.stack([O, O, O, I], -1).unsqueeze(-2)
    return T.cat([top, bot], -2)

def hat(T, g, a):
    """generator matrix of the algebra element a (same block layout as group_matrix)"""
    O = a[0] * 0
    if g == 'SO3': return skew(T, a[0:3])
    if g == 'RxSO3':
        return skew(T, a[0:3]) + a[3] * eye(T, 3, O)
    if g == 'SE3': rho, K = a[0:3], skew(T, a[3:6])
    else: rho, K = a[0:3], skew(T, a[3:6]) + a[6] * eye(T, 3, O)
    top = T.cat([K, T.stack([rho[0], rho[1], rho[2]], -1).unsqueeze(-1)], -1)
    bot = T.stack([O, O, O, O], -1).unsqueeze(-2)
    return T.cat([top, bot], -2)

def first_order_element(T, g, tau):
    """Exp(tau) to first order in tau, in pypose's layout (exact first jet of the exponential map:
    quaternion (phi/2, 1), translation rho, scale 1 + sigma)"""
    O = tau[0] * 0; I = O + 1
    if g == 'SO3': return T.stack([tau[0] / 2, tau[1] / 2, tau[2] / 2, I], -1)
    if g == 'SE3': return T.stack([tau[0], tau[1], tau[2], tau[3] / 2, tau[4] / 2, tau[5] / 2, I], -1)
    if g == 'RxSO3': return T.stack([tau[0] / 2, tau[1] / 2, tau[2] / 2, I, I + tau[3]], -1)
    if g == 'Sim3': return T.stack([tau[0], tau[1], tau[2], tau[3] / 2, tau[4] / 2, tau[5] / 2, I, I + tau[6]], -1)
    raise KeyError(g)

def tangent_coords(T, g, Y, dY):
    """left-trivialised coordinates tau of the first-order change dY at the group element Y:
    Y + dY = Exp(tau) * Y + o(|dY|).  From the matrix definition: dM * M^-1 = hat(tau)."""
    t, q, s = parts(g, Y)
    dt, dq, ds = parts(g, dY)
    # omega = 2 * vec(dq * conj(q))   (unit q)
    x, y, z, w = q[0], q[1], q[2], q[3]
    dx, dy, dz, dw = dq[0], dq[1], dq[2], dq[3]
    om = [2 * (dx * w - dw * x - dy * z + dz * y),
          2 * (dy * w - dw * y - dz * x + dx * z),
          2 * (dz * w - dw * z - dx * y + dy * x)]
    out = []
    sig = None
    if s is not None: sig = ds / s
    if t is not None:
        rho = [dt[0] - (om[1] * t[2] - om[2] * t[1]),
               dt[1] - (om[2] * t[0] - om[0] * t[2]),
               dt[2] - (om[0] * t[1] - om[1] * t[0])]
        if sig is not None:
            rho = [rho[i] - sig * t[i] for i in range(3)]
        out += rho
    out += om
    if sig is not None: out.append(sig)
    return T.stack(out, -1)
